"""Helpers shared by the join / shuffle drivers (C39, C40): cells as small integers, truthful division
vectors for arbitrary row partitionings (empty partitions included), and a look at how a collection
was lowered (which join / shuffle strategy ran) for violation signatures."""
from __future__ import annotations

import math

NA = 99          # Frames.tla: NA
ABSENT = -1      # Joins.tla: Absent  (a column the observed frame does not have / a value outside the model)
SCALE = 2        # index labels of the real frames are SCALE * (label of the specification): leaves room for
                 # strictly increasing integer divisions around empty partitions


def cell(v):
    """pandas / numpy scalar -> spec cell: missing -> NA, integral number -> int, anything else -> ABSENT."""
    if v is None:
        return NA
    try:
        import pandas as pd
        if v is pd.NA or v is pd.NaT:
            return NA
    except Exception:  # noqa: BLE001
        pass
    if hasattr(v, "item") and not isinstance(v, (str, bytes)):
        try:
            v = v.item()
        except Exception:  # noqa: BLE001
            return ABSENT
    if isinstance(v, bool):
        return int(v)
    if isinstance(v, float):
        if math.isnan(v):
            return NA
        return int(v) if v == int(v) else ABSENT
    if isinstance(v, int):
        return v
    return ABSENT


def label(v):
    """spec label -> index label of the real frame."""
    return float("nan") if v == NA else SCALE * v


def unlabel(c):
    """cell holding an index label of a real frame -> spec label (ABSENT when it is not one)."""
    if c == NA or c == ABSENT:
        return c
    return c // SCALE if c % SCALE == 0 else ABSENT


def split(seq, layout):
    out, pos = [], 0
    for n in layout:
        out.append(list(seq[pos:pos + n]))
        pos += n
    return out


def make_divs(labels, layout, rng):
    """A truthful division vector (ints, strictly increasing except that the last two may coincide when the
    last partition is not empty) for real index labels `labels` cut by `layout`, or None when there is none:
    labels unsorted / missing, or equal labels on both sides of a partition boundary.  Deterministic in rng."""
    labels = list(labels)
    if any(x != x for x in labels) or any(a > b for a, b in zip(labels, labels[1:])):
        return None
    parts = split(labels, layout)
    m = len(parts)
    lead = next((i for i, p in enumerate(parts) if p), m)          # leading empty partitions
    first = labels[0] if labels else 0
    d = [first - lead - rng.choice([0, 0, 1])]
    for i in range(1, m):
        before = [x for p in parts[:i] for x in p]
        after = [x for p in parts[i:] for x in p]
        low = max(d[-1] + 1, before[-1] + 1 if before else d[-1] + 1)
        if after:
            gap = next(j for j, p in enumerate(parts[i:]) if p)    # further boundaries before the next rows
            high = after[0] - gap
            if low > high:
                return None
            d.append(low if rng.random() < 0.5 else rng.randint(low, high))
        else:
            d.append(low)
    top = labels[-1] if labels else d[-1]
    d.append(max(top, d[-1] + (0 if parts[-1] else 1)) + rng.choice([0, 0, 1]))
    return d


def truthful(divs, label_parts):
    """Frames.tla DivisionsTruthful on plain Python values."""
    if len(divs) != len(label_parts) + 1 or any(a > b for a, b in zip(divs, divs[1:])):
        return False
    last = len(label_parts) - 1
    for i, p in enumerate(label_parts):
        for x in p:
            if not (divs[i] <= x and (x <= divs[i + 1] if i == last else x < divs[i + 1])):
                return False
    return True


def strategy_of(coll):
    """Which lowering ran, read off the optimized expression (class names only)."""
    try:
        names = {type(e).__name__ for e in coll.optimize().expr.walk()}
    except Exception:  # noqa: BLE001
        return "lowering-failed"
    if "BroadcastJoin" in names:
        return "broadcast"
    if names & {"TaskShuffle", "DiskShuffle", "P2PShuffle"}:
        return "hash-" + ("tasks" if "TaskShuffle" in names else "disk" if "DiskShuffle" in names else "p2p")
    if names & {"RepartitionDivisions", "Repartition"}:
        return "aligned"
    return "blockwise"


# ----------------------------------------------------------------------------- pre-partitioned sources (C39 / C40)
NO_PRE = {"how": "none", "on": []}


def pre_relation(pre, keys):
    """How the columns K' the source was partitioned on relate to the keys K of the judged operation."""
    if not pre or pre["how"] == "none":
        return "none"
    kp, k = set(pre["on"]), set(keys)
    return "equal" if kp == k else "subset" if kp < k else "superset" if kp > k else "overlap" if kp & k else "disjoint"


def apply_pre(coll, pdf, pre, names, n=None, method=None, tag="w", blockwise=False):
    """Send a freshly built collection through the stage `pre` = {"how", "on"} that leaves partitioning knowledge behind
    (`unique_partition_mapping_columns_from_shuffle`) without changing the multiset of rows:

      shuffle   coll.shuffle(on=K', npartitions=n)
      merge     an inner HASH join on K' with a two-partition frame that holds every K' combination of `pdf` exactly once
                (adds a constant column `tag`)
      groupby   groupby(K', dropna=False).agg(first, split_out=n).reset_index() - the caller guarantees that the rows are distinct on K'
      setindex  set_index on a copy of the single column K' (sorted by known divisions; no hash knowledge, but known divisions)

    `names` maps the column names of the specification to those of the real frame; `pdf` is the pandas frame behind `coll`.
    blockwise: append a column assignment, so that the optimizer cannot simply drop a shuffle below a reduction."""
    import dask.dataframe as ddm
    how = pre["how"]
    cols = [names[c] for c in pre["on"]]
    if how == "shuffle":
        out = coll.shuffle(on=cols, npartitions=n, shuffle_method=method)
    elif how == "merge":
        aux = pdf[cols].drop_duplicates().reset_index(drop=True)
        aux[tag] = 0
        out = coll.merge(ddm.from_pandas(aux, npartitions=2, sort=False), on=cols, how="inner", broadcast=False, shuffle_method=method, npartitions=n)
    elif how == "groupby":
        rest = [c for c in pdf.columns if c not in cols] + [tag + "g"]          # (a constant column: there is always something to aggregate)
        out = coll.assign(**{tag + "g": 0}).groupby(cols, dropna=False, sort=False).agg({c: "first" for c in rest}, split_out=n or 2)
        out = out.reset_index()[list(pdf.columns)]
    elif how == "setindex":
        # (no npartitions=: set_index(npartitions=n) reports n partitions whatever it builds - the finding C41 'set_index:auto:count')
        out = coll.assign(**{tag + "ix": coll[cols[0]]}).set_index(tag + "ix", shuffle_method=method)
    else:
        return coll
    if blockwise:
        out = out.assign(**{tag + "z": 0})
    return out
