"""Run several blocking jobs (TLC subprocesses) side by side from a driver.

The jobs must be prepared in the calling thread (ctx.model is not thread-safe); each job only calls
ctx.tlc / ctx.tlc_cases.  Every thread has ended before in_parallel returns, so forks made later
(harness.par.pmap) start from a single-threaded process."""
from __future__ import annotations

import threading


def in_parallel(jobs):
    out, err = [None] * len(jobs), [None] * len(jobs)

    def work(i):
        try:
            out[i] = jobs[i]()
        except BaseException as ex:  # noqa: BLE001 - re-raised in the caller
            err[i] = ex
    ths = [threading.Thread(target=work, args=(i,)) for i in range(len(jobs))]
    for t in ths:
        t.start()
    for t in ths:
        t.join()
    for e in err:
        if e is not None:
            raise e
    return out
