"""In-memory mutants for the binding self-tests: a function of a dask module is recompiled from
its source with one textual edit, inside this process only (never written to /repo)."""
from __future__ import annotations

import contextlib
import inspect
import textwrap


@contextlib.contextmanager
def source_mutant(module, funcname, old, new, count=1):
    """Replace `old` by `new` in the source of module.funcname, exec it in the module's namespace and
    install it; restore on exit.  Raises if `old` does not occur exactly `count` times."""
    orig = getattr(module, funcname)
    src = textwrap.dedent(inspect.getsource(orig))
    if src.count(old) != count:
        raise RuntimeError("mutant anchor %r occurs %d times in %s.%s (expected %d)"
                           % (old, src.count(old), module.__name__, funcname, count))
    ns = module.__dict__
    exec(compile(src.replace(old, new), "<mutant %s.%s>" % (module.__name__, funcname), "exec"), ns)
    mutated = ns[funcname]
    try:
        yield mutated
    finally:
        setattr(module, funcname, orig)


@contextlib.contextmanager
def attr_mutant(obj, name, value):
    orig = getattr(obj, name)
    setattr(obj, name, value)
    try:
        yield
    finally:
        setattr(obj, name, orig)
