"""Shared runner for the scheduler properties C01-C04 (one specification, four checks).
Each check runs the same stages and reports the clauses that belong to its property:
  1. design check : TLC explores LocalSchedulerMC (full asynchrony) over a configuration set
                    (invariants of the property, deadlock freedom, termination);
  2. spec -> code : TLC (Export mode) emits every behaviour of a configuration subset; each is
                    replayed through the real dask.local.get_async with the controlled executor
                    and compared event by event, state field by state field;
  3. code -> spec : real runs (thread pool with random delays, user executors, sync, process
                    pool) are recorded and validated by LocalSchedulerTrace.tla;
  4. verdict      : a run the implementation-shaped model cannot follow (stage 2 mismatch or
                    stage 3 rejection) is handed to the policy-free validator
                    SchedulerPropsTrace.tla, which evaluates the clauses of C01-C04 on what the
                    run logged.  Only a failing clause is a VIOLATION; a run that merely follows
                    another (correct) dispatch policy is counted as a divergence, not an alarm."""
from __future__ import annotations

import copy
import glob
import json
import os
import random

from . import sched as S
from .core import MachineryError
from .par import pmap

CLAUSE_PROP = {}
for _p, _names in {
    "C01": "ResultCorrect CacheValues WrongValue ReturnedValue",
    "C02": "AtMostOnce ExactlyNeeded OnlyNeeded DepsFirst Consistent",
    "C03": "NoEarlyRelease HeldWhileNeeded NoLeak NoBad RequestedHeld",
    "C04": "RaisedIsReal NoDepOfFailedRuns FinishOnce NoFailNoRaise FailMustRaise FinishFlag RaisedKey FailureSwallowed "
           "Hang RaisedType TemporalProperty Terminates Deadlock UnknownEvent",
}.items():
    for _n in _names.split():
        CLAUSE_PROP[_n] = _p

INVARIANTS = {
    "C01": ["ResultCorrect", "CacheValues", "NoBad"],
    "C02": ["AtMostOnce", "ExactlyNeeded", "OnlyNeeded", "DepsFirst", "Consistent"],
    "C03": ["NoEarlyRelease", "HeldWhileNeeded", "NoLeak", "NoBad"],
    "C04": ["RaisedIsReal", "NoDepOfFailedRuns", "FinishOnce", "NoFailNoRaise", "FailMustRaise"],
}


def universe(rng, nmax, n_target, fail_mode, layouts=("flat", "lit", "nested")):
    """Seeded sample of the configuration universe.  fail_mode: 'none' | 'some' | 'always'."""
    pool = []
    for n in range(1, nmax + 1):
        graphs = list(S.all_graphs(n, layouts))
        if n >= 4:
            graphs = rng.sample(graphs, min(len(graphs), max(200, n_target // 6)))
        reqs = S.req_variants(n)
        for g in graphs:
            pool.append((n, g, reqs))
    out = []
    per = max(1, n_target // max(1, len(pool)))
    for n, g, reqs in pool:
        for _ in range(per if n < nmax else per + 1):
            req = rng.choice(reqs)
            cfg = {"n": n, "nodes": g, "req": req, "nw": rng.choice([1, 2, 3]), "cs": rng.choice([1, 1, 2, 3, -1]), "fails": [],
                   "pack": rng.random() < 0.6}
            datas = sorted(k for k in S.needed(cfg) if g[k - 1]["kind"] == "data")
            if datas and rng.random() < 0.4:
                cfg["stale"] = sorted(rng.sample(datas, rng.randint(1, len(datas))))
            tasks = sorted(k for k in S.needed(cfg) if g[k - 1]["kind"] == "task")
            if fail_mode != "none" and tasks and (fail_mode == "always" or rng.random() < 0.3):
                nf = 1 if rng.random() < 0.7 or len(tasks) < 2 else 2
                cfg["fails"] = sorted(rng.sample(tasks, nf))
            elif fail_mode == "always":
                continue
            out.append(cfg)
    rng.shuffle(out)
    seen, uniq = set(), []
    for c in out:
        s = json.dumps(c, sort_keys=True)
        if s not in seen:
            seen.add(s)
            uniq.append(c)
    return uniq[:n_target]


def structured_configs(rng, n, fail_mode="none"):
    """Array/dataframe-shaped families at 5-8 nodes: chains, diamonds, tree reductions, fan-out."""
    out = []
    T = lambda *refs: {"kind": "task", "args": [{"r": r} for r in refs]}
    D = lambda i: {"kind": "data", "args": [{"l": "D%d" % i}]}
    shapes = [
        [D(1), T(1), T(2), T(3), T(4)],                                   # chain
        [T(), T(1), T(1), T(2, 3), T(4)],                                 # diamond
        [T(), T(), T(), T(), T(1, 2), T(3, 4), T(5, 6)],                  # tree reduction
        [D(1), T(1), T(1), T(1), T(2, 3, 4)],                             # fan-out / fan-in
        [T(), T(1), T(1), T(2), T(3), T(4, 5), T(2, 6)],                  # shared intermediate
        [T(), T(), T(1, 2), T(1, 2), T(3), T(4), T(5, 6), T(3, 7)],       # shuffle-like
        [T(), T(), T(), T(), T(), T(), T(1, 2, 3, 4, 5, 6)],              # wide fan-in: many tasks ready at once
        [T(), T(), T(), T(), T(), T(1), T(2), T(3, 4, 5)],                # wide, two levels
        [D(1), T(1), T(1), T(1), T(1), T(1), T(1), T(2, 3), T(4, 5, 6, 7)],  # wide fan-out from data
    ]
    for _ in range(n):
        g = rng.choice(shapes)
        m = len(g)
        ks = rng.sample(range(1, m + 1), rng.randint(1, 3))
        if rng.random() < 0.5 and m not in ks:
            ks.append(m)                      # the sink: makes the whole (wide) graph needed
        req = {"x": [{"k": k} for k in ks]} if rng.random() < 0.8 else {"k": m}
        cfg = {"n": m, "nodes": g, "req": req, "nw": rng.choice([1, 2, 3, 3, 4]), "cs": rng.choice([1, 2, 2, 3, -1]), "fails": [],
               "pack": rng.random() < 0.7}
        datas = sorted(k for k in S.needed(cfg) if g[k - 1]["kind"] == "data")
        if datas and rng.random() < 0.4:
            cfg["stale"] = datas               # a caller-supplied cache= that still holds the literal (wide fan-out from it)
        tasks = sorted(k for k in S.needed(cfg) if g[k - 1]["kind"] == "task")
        if not tasks and fail_mode == "always":
            continue
        if tasks and (fail_mode == "always" or (fail_mode == "some" and rng.random() < 0.3)):
            cfg["fails"] = sorted(rng.sample(tasks, 1 if len(tasks) < 2 or rng.random() < 0.7 else 2))
        out.append(cfg)
    return out


def _prio(cfg):
    return S.with_priorities(cfg)


def prepare(ctx, cfgs):
    done = [c for c in pmap(_prio, cfgs, chunk=200) if c is not None]
    ctx.extra["configs_dropped_priority_ties"] = ctx.extra.get("configs_dropped_priority_ties", 0) + len(cfgs) - len(done)
    return done


def write_configs(ctx, cfgs, name):
    path = os.path.join(ctx.scratch, name)
    with open(path, "w") as f:
        for c in cfgs:
            f.write(json.dumps(c, separators=(",", ":")) + "\n")
    return path


def design_check(ctx, prop, cfgs, liveness):
    path = write_configs(ctx, cfgs, "mc-configs.ndjson")
    kw = dict(invariants=INVARIANTS[prop], deadlock=True)
    if liveness:
        kw.update(spec="Spec", properties=["Terminates"])
    spec, cfg = ctx.model(ctx.spec("sched", "LocalSchedulerMC.tla"), {"Export": False}, **kw)
    r = ctx.tlc(spec, cfg, env={"CONFIG_FILE": path}, label="design:%s%s" % (prop, "+liveness" if liveness else ""),
                allow_violation=True, timeout=1700)
    if r.violated or r.deadlock:
        # The specification transcribes dask/local.py and conforms to it (stages 2-3); a bad state in
        # the model is therefore a bad state of the scheduler's design.
        names = r.violated or ["Deadlock"]
        ctx.violation("design:" + ",".join(sorted(set(names))),
                      "TLC: the scheduler model (which the code conforms to) violates %s" % names,
                      {"kind": "design", "tlc_output_tail": r.output[-3000:]})
    return r


def export_behaviours(ctx, cfgs):
    path = write_configs(ctx, cfgs, "export-configs.ndjson")
    spec, cfg = ctx.model(ctx.spec("sched", "LocalSchedulerMC.tla"), {"Export": True}, deadlock=True)
    cases, r = ctx.tlc_cases(spec, cfg, env={"CONFIG_FILE": path}, label="export-behaviours", timeout=1700)
    return cases


def obs_to_trace(cfg, obs, mode="controlled"):
    evs = list(obs["events"])
    raised = obs["raised"] or 0
    if obs["ret"] is None and not raised:
        raised = -1                                  # raised something that is not a task's exception
    if raised:
        pos = max((i for i, e in enumerate(evs) if e["e"] == "finish"), default=len(evs))
        evs.insert(pos, {"e": "fail", "k": raised})
    return {"cfg": cfg, "events": evs, "ret": obs["ret"] if obs["ret"] is not None else "", "raised": raised,
            "nfinish": obs["nfinish"], "execlog": True, "mode": mode, "exc_type": obs["exc_type"]}


def _replay(item):
    cfg, beh, style, fail_kind = item
    obs = S.run_controlled(cfg, schedule=beh["sched"], style=style, fail_kind=fail_kind)
    bad = S.compare_behaviour(cfg, beh, obs, fail_kind)
    tr = None
    if bad:
        if obs["diverged"]:
            # the code does not offer the batch the model completes next: let the run finish under
            # a fixed completion policy so that there is a whole run to judge
            obs = S.run_controlled(cfg, chooser=lambda heads: 0, style=style, fail_kind=fail_kind)
        tr = obs_to_trace(cfg, obs)
        tr["hang"] = obs["hang"]
        tr["exc_msg"] = obs["exc_msg"][:200]
        tr["expected_exc"] = S.FAIL_KINDS[fail_kind].__name__
    return bad, tr


def classify(cfg, clause):
    """Signature: clause plus the scheduling regime (chunksize class, multi-worker, failing)."""
    cs = cfg["cs"]
    return "%s:cs=%s:nw%s%s" % (clause, "-1" if cs == -1 else ("1" if cs == 1 else "k"),
                                "1" if cfg["nw"] == 1 else ">1", ":fails" if cfg.get("fails") else "")


def _clause_names(text):
    return [x.strip(' {}"') for x in text[text.index("{"):].strip("{} ").split(",")] if "{" in text else [text.strip()]


def judge_runs(ctx, prop, runs, why):
    """Policy-free verdict on runs the implementation-shaped model could not follow."""
    if not runs:
        return 0
    n = 0
    rest = []
    for r in runs:
        if r.get("hang"):
            if prop == "C04":
                n += 1
                ctx.violation(classify(r["cfg"], "Hang"), "the scheduler call never returns: %s" % r.get("exc_msg", ""),
                              {"kind": "run", "run": r, "why": why})
            continue
        if r.get("raised") and r.get("expected_exc") and r.get("exc_type") != r["expected_exc"]:
            unp = r.get("mode") == "mp" and r["expected_exc"] == "UnpicklableBoom"
            if prop == "C04":
                n += 1
                sig = "RaisedType:mp:unpicklable-exception" if unp else classify(r["cfg"], "RaisedType")
                ctx.violation(sig, "raised %s, the task raised %s" % (r["exc_type"], r["expected_exc"]),
                              {"kind": "run", "run": r, "why": why})
            if unp:
                continue        # the surfaced error names no task: nothing further can be attributed
        rest.append(r)
    for i, r in enumerate(rest):
        r["id"] = "p%d" % i
    spec, cfg = ctx.model(ctx.spec("sched", "SchedulerPropsTrace.tla"), {})
    rej = ctx.tlc_validate(spec, rest, cfg, timeout=1700, label="policy-free-verdict:%s" % prop) if rest else {}
    byid = {r["id"]: r for r in rest}
    div = 0
    for r in rest:
        if r["id"] not in rej:
            div += 1
    for rid, clauses in rej.items():
        for nm in _clause_names(clauses[0]):
            if CLAUSE_PROP.get(nm) != prop:
                continue
            n += 1
            r = byid[rid]
            ctx.violation(classify(r["cfg"], nm), "%s: clause %s fails on a recorded %s run" % (why, nm, r.get("mode")),
                          {"kind": "run", "run": r, "clauses": clauses[0], "why": why})
    ctx.extra["policy_divergences_without_property_violation"] = ctx.extra.get("policy_divergences_without_property_violation", 0) + div
    return n


def replay_all(ctx, prop, cfgs, behaviours, styles=("legacy", "taskspec")):
    items = []
    for i, b in enumerate(behaviours):
        cfg = cfgs[b["cid"] - 1]
        style = styles[i % len(styles)]
        fk = ["exc", "base", "unpicklable", "value"][i % 4] if cfg.get("fails") else "exc"
        items.append((cfg, b, style, fk))
    results = pmap(_replay, items, chunk=100)
    suspicious = []
    nmis = 0
    for (cfg, b, style, fk), (bad, tr) in zip(items, results):
        ctx.count(("beh", cfg, b["sched"], style), len(b["sched"]) >= 2)
        if bad:
            nmis += 1
            tr["mismatch"] = ["%s %s: %s" % x for x in bad][:4]
            suspicious.append(tr)
    ctx.traces += len(items)
    ctx.extra["replay_mismatches_with_model"] = ctx.extra.get("replay_mismatches_with_model", 0) + nmis
    if items:
        ctx.sample({"config": items[0][0], "schedule": items[0][1]["sched"], "events": len(items[0][1]["log"])})
    return judge_runs(ctx, prop, suspicious, "replay of a model behaviour diverges from the model")


# --------------------------------------------------------------------------- real pools -> traces

_POOL = None
_RID = 0
HANG_TIMEOUT = 30.0       # seconds a real scheduler call may take before it is reported as a hang


def _mp_pool(n=3):
    global _POOL
    if _POOL is None:
        import multiprocessing
        from concurrent.futures import ProcessPoolExecutor
        _POOL = ProcessPoolExecutor(n, mp_context=multiprocessing.get_context("spawn"))
    return _POOL


def close_pool():
    global _POOL
    if _POOL is not None:
        _POOL.shutdown(wait=True, cancel_futures=True)
        _POOL = None


def record_real_run(cfg, mode, seed, fail_kind="exc"):
    """Run the configuration on a real executor with random task delays; return a trace record."""
    from concurrent.futures import ThreadPoolExecutor

    import dask.local as L
    import dask.multiprocessing
    import dask.threaded
    from dask.callbacks import Callback
    rng = random.Random(seed)
    events, lock = [], S._EXEC_LOCK
    global _RID
    _RID += 1
    rid = None if mode == "mp" else _RID
    if rid is not None:
        S._RUNS[rid] = {"events": events,
                        "sleep": {S.key(k): rng.choice([0, 0, 0.0005, 0.002, 0.004]) for k in range(1, cfg["n"] + 1)}}
    rec = S.Recorder(sink=events, lock=lock)
    g = S.real_graph(cfg, "legacy" if seed % 2 else "taskspec", fail_kind, rid=rid)
    req = S.real_request(cfg["req"])
    cb = Callback(start=rec.start, pretask=rec.pretask, posttask=rec.posttask, finish=rec.finish)
    nw = cfg["nw"]
    box = {"ret": None, "raised": 0, "exc_type": "", "exc_msg": "", "nw": nw, "done": False}
    expected = S.FAIL_KINDS[fail_kind]

    ckw = {"cache": S.user_cache(cfg)} if cfg.get("stale") else {}

    def call():
        try:
            with cb:
                if mode == "threaded":
                    out = dask.threaded.get(g, req, num_workers=nw, chunksize=cfg["cs"], **ckw)
                elif mode == "tpool":
                    # a multiprocessing.pool-style pool handed to the threaded scheduler
                    import multiprocessing.pool
                    tp = multiprocessing.pool.ThreadPool(nw)
                    try:
                        out = dask.threaded.get(g, req, pool=tp, chunksize=cfg["cs"])
                    finally:
                        tp.terminate()
                elif mode == "executor":
                    with ThreadPoolExecutor(nw) as ex:
                        out = L.get_async(ex.submit, nw, g, req, chunksize=cfg["cs"], **ckw)
                elif mode == "sync":
                    out = L.get_sync(g, req, chunksize=cfg["cs"], **ckw)
                elif mode == "mp":
                    pool = _mp_pool()
                    box["nw"] = pool._max_workers
                    out = dask.multiprocessing.get(g, req, pool=pool, chunksize=cfg["cs"], optimize_graph=False)
                else:
                    raise ValueError(mode)
            box["ret"] = S.fmt_result(cfg["req"], out)
        except BaseException as e:  # noqa: BLE001
            box["exc_msg"] = str(e)[:200]
            m = str(e).split("\n")[0].strip()
            box["raised"] = int(m[6:]) if m.startswith("boom k") and m[6:].isdigit() else -1
            same = type(e) is expected or (mode == "mp" and isinstance(e, expected))
            # the statement allows a subclass of the original type for the multiprocessing scheduler only
            box["exc_type"] = expected.__name__ if same else "not-" + expected.__name__ + ":" + type(e).__name__
        finally:
            box["done"] = True

    import threading
    th = threading.Thread(target=call, daemon=True)
    th.start()
    th.join(HANG_TIMEOUT)
    hang = not box["done"]
    ret, raised, exc_type, exc_msg, nw = box["ret"], box["raised"], box["exc_type"], box["exc_msg"], box["nw"]
    try:
        pass
    finally:
        with lock:
            S._RUNS.pop(rid, None)       # late worker threads of this run log nowhere from now on
    with lock:
        evs = list(events)
    if raised:
        pos = max((i for i, e in enumerate(evs) if e["e"] == "finish"), default=len(evs))
        evs.insert(pos, {"e": "fail", "k": raised})
    c = dict(cfg)
    c["pack"] = mode in ("threaded", "mp", "tpool")        # these schedulers pack exceptions; get_sync / raw executors re-raise
    c["nw"] = 1 if mode == "sync" else nw
    return {"cfg": c, "events": evs, "ret": ret if ret is not None else "", "raised": raised if raised else 0,
            "nfinish": rec.nfinish, "exc_type": exc_type, "exc_msg": exc_msg, "mode": mode, "execlog": mode != "mp",
            "expected_exc": S.FAIL_KINDS[fail_kind].__name__ if cfg.get("fails") else "", "hang": hang}


def validate_traces(ctx, prop, recs):
    """Stage 3: exact validation against LocalScheduler; rejected runs go to the policy-free verdict.
    Process-pool runs log no task executions, so they are judged by the policy-free validator only."""
    exact = [r for r in recs if r["execlog"]]
    other = [r for r in recs if not r["execlog"]]
    for i, r in enumerate(exact):
        r["id"] = "t%d" % i
    rejected = []
    if exact:
        spec, cfg = ctx.model(ctx.spec("sched", "LocalSchedulerTrace.tla"), {})
        rej = ctx.tlc_validate(spec, exact, cfg, timeout=1700, label="trace-validation:%s" % prop)
        byid = {r["id"]: r for r in exact}
        for rid, clauses in rej.items():
            r = byid[rid]
            r["model_rejection"] = clauses[0]
            rejected.append(r)
    ctx.extra["real_traces_rejected_by_model"] = ctx.extra.get("real_traces_rejected_by_model", 0) + len(rejected)
    for r in recs:
        ctx.count(("trace", r["cfg"], r["mode"], len(r["events"])), len(r["events"]) >= 6)
    # a raised exception of the wrong type is judged for every run, also the ones the model accepts
    typed = [r for r in exact if r not in rejected and r["raised"] and r["expected_exc"] and r["exc_type"] != r["expected_exc"]]
    return judge_runs(ctx, prop, rejected + other + typed, "trace of a real run")


# --------------------------------------------------------------------------- the check itself

FAIL_MODE = {"C01": "some", "C02": "some", "C03": "some", "C04": "always"}

META_COMMON = {
    "design_ref": "DESIGN.md §4.1 C01-C04",
    "technique": "TLA+ state machine of dask/local.py model-checked by TLC over all small graphs x schedules; behaviours replayed "
                 "into get_async via a controlled executor; real pool traces validated by TLC",
    "level_note": "Trusted: TLC; the projection of the scheduler `state` dict (harness/sched.py project()); the controlled "
                  "executor replaces dask.local.queue_get in the harness process only. Priorities are taken from the real "
                  "dask.order. Graph universe bounded (<= 4 keys sampled exhaustively-by-seed, 5-8 node structured families); "
                  "OS-level interleavings inside a worker are not modelled (the scheduler state is only touched by the main "
                  "thread). A run the implementation-shaped model cannot follow is judged by the policy-free clauses only.",
}


def run_property(ctx, prop):
    rng = ctx.rng
    fm = FAIL_MODE[prop]
    # 1. design check (full asynchrony)
    mc = prepare(ctx, universe(rng, 4, ctx.pick(5000, 40000), fm) + structured_configs(rng, ctx.pick(200, 1500), fm))
    design_check(ctx, prop, mc, liveness=False)
    if prop == "C04" or not ctx.quick:
        design_check(ctx, prop, mc[:ctx.pick(1200, 6000)], liveness=True)
    # 2. spec -> code
    ex = prepare(ctx, universe(rng, ctx.pick(3, 4), ctx.pick(700, 6000), fm) + structured_configs(rng, ctx.pick(40, 400), fm))
    behs = export_behaviours(ctx, ex)
    cap = ctx.pick(2500, 60000)
    if len(behs) > cap:
        behs = rng.sample(behs, cap)
    replay_all(ctx, prop, ex, behs)
    # 3. code -> spec
    tr = prepare(ctx, universe(rng, 4, ctx.pick(150, 1500), fm) + structured_configs(rng, ctx.pick(90, 1500), fm))
    recs = []
    kinds = ["exc", "base", "value", "unpicklable", "twin_a", "twin_b", "base"]
    modes = ["threaded", "threaded", "executor", "sync", "tpool"]
    for i, c in enumerate(tr):
        recs.append(record_real_run(c, modes[i % 5], ctx.seed * 100003 + i, kinds[i % 7]))
    try:
        for i, c in enumerate(tr[:ctx.pick(14, 150)]):
            recs.append(record_real_run(c, "mp", i, ["exc", "twin_a", "value", "twin_b", "base", "unpicklable"][i % 6]))
    finally:
        close_pool()
    validate_traces(ctx, prop, recs)
    if recs:
        ctx.sample({"real_run": recs[0]["mode"], "config": recs[0]["cfg"], "events": [(e["e"], e.get("k")) for e in recs[0]["events"]]})
    ctx.rule = ("configurations = (graph over <= 4 keys of tasks/data/aliases with flat, literal and nested-list arguments | 5-8 node "
                "structured family) x requested nesting x num_workers x chunksize x failing set x exception-packing regime, seeded "
                "sample; a case = one model behaviour replayed into get_async, or one real pool run validated by TLC; non-trivial = "
                "at least two batch completions (replay) / at least six events (trace)")
    ctx.exhaustive = False
    ctx.extra["behaviours_replayed"] = len(behs)
    ctx.extra["real_runs_validated"] = len(recs)
    ctx.assumptions = ["dask.order priorities are unique among needed keys (configurations with ties are dropped and counted)",
                       "task functions are pure (Herbrand terms)"]


def replay_case(ctx, prop, obj):
    c = obj["case"]
    if c.get("kind") == "run":
        r = c["run"]
        mode = r.get("mode")
        if mode == "controlled":
            obs = S.run_controlled(r["cfg"], chooser=lambda heads: 0)
            run = obs_to_trace(r["cfg"], obs)
            run["hang"] = obs["hang"]
        else:
            try:
                run = record_real_run(r["cfg"], mode, 1)
            finally:
                close_pool()
        return judge_runs(ctx, prop, [run], "replay") > 0
    print(json.dumps(c)[:3000])
    return True


MUTANTS = {
    # name: (property, function of dask.local, old, new, why)
    "release-requested": ("C03", "finish_task", "if not s and dep not in results:", "if not s:",
                          "a requested key that is also an inner dependency is released"),
    "release-before-last-dependent": ("C03", "finish_task", "            s.remove(key)\n            if not s and dep not in results:",
                                      "            s.remove(key)\n            if len(s) <= 1 and dep not in results and len(state[\"dependents\"][dep]) > 2:\n                s.clear()\n            if not s and dep not in results:",
                                      "with three or more dependents a result is released when one dependent is still outstanding"),
    "ready-too-early": ("C02", "finish_task", "        s.remove(key)\n        if not s:\n            del state[\"waiting\"][dep]",
                        "        s.remove(key)\n        if len(s) <= 1 and len(state[\"dependencies\"][dep]) > 1:\n            s.clear()\n        if not s:\n            del state[\"waiting\"][dep]",
                        "a dependent is made ready while one dependency is still outstanding"),
    "finish-only-on-success": ("C04", "get_async", "                if finish:\n                    finish(dsk, state, not succeeded)",
                               "                if finish and succeeded:\n                    finish(dsk, state, not succeeded)",
                               "finish callbacks are skipped when the call fails"),
    "nested-get-flat": ("C01", "nested_get", "return tuple(nested_get(i, coll) for i in ind)",
                        "return tuple(nested_get(i, coll) for i in ind) if len(ind) != 1 else nested_get(ind[0], coll)",
                        "a singleton nested request loses one nesting level"),
    "stale-snapshot": ("C01", "get_async", "dep: state[\"cache\"][dep] for dep in state[\"dependencies\"][key]\n                    }\n                    args.append(",
                       "dep: state[\"cache\"][dep] for dep in state[\"dependencies\"][key]\n                    }\n                    if len(data) > 1 and len(state[\"running\"]) > 1:\n                        _ks = sorted(data)\n                        data[_ks[0]], data[_ks[1]] = data[_ks[1]], data[_ks[0]]\n                    args.append(",
                       "when several tasks are dispatched together a task receives two of its inputs swapped"),
    "swallow-late-failure": ("C04", "get_async", "                    if failed:\n", "                    if failed and not state[\"finished\"]:\n",
                             "a failure observed after some task already finished is swallowed"),
}


def selftest_property(ctx, prop):
    import dask.local as L

    from .mutate import source_mutant
    ok = True
    rng = random.Random(7)
    fm = FAIL_MODE[prop]
    ex = prepare(ctx, universe(rng, 3, 500, fm) + structured_configs(rng, 60, fm))
    behs = export_behaviours(ctx, ex)
    if len(behs) > 1500:
        behs = rng.sample(behs, 1500)
    tr = prepare(ctx, universe(rng, 4, 60, fm) + structured_configs(rng, 40, fm))
    for name, (p, fn, old, new, why) in MUTANTS.items():
        if p != prop:
            continue
        before = len(ctx.violations)
        with source_mutant(L, fn, old, new):
            replay_all(ctx, prop, ex, behs)
            recs = [record_real_run(c, ["threaded", "executor", "sync"][i % 3], i) for i, c in enumerate(tr)]
        validate_traces(ctx, prop, recs)
        found = len(ctx.violations) - before
        sigs = sorted({v[0] for v in ctx.violations[before:]})[:4]
        print("mutant %-30s (%s): %s -> %d violations %s" % (name, why, "DETECTED" if found else "MISSED", found, sigs))
        ok = ok and found > 0
    # a change of dispatch policy that keeps every property must NOT raise an alarm
    before = len(ctx.violations)
    with source_mutant(L, "get_async", "chunksize = -(ntasks // -num_workers)", "chunksize = max(ntasks // num_workers, 1)"):
        replay_all(ctx, prop, ex, behs)
    quiet = len(ctx.violations) == before
    print("benign policy change (smaller chunksize=-1 batches): %s (model mismatches so far: %s)"
          % ("no alarm" if quiet else "FALSE ALARM", ctx.extra.get("replay_mismatches_with_model")))
    ok = ok and quiet
    # binding: a corrupted trace and a trace with a dropped event must be rejected
    recs = [record_real_run(c, "threaded", i) for i, c in enumerate(tr[:30])]
    good = [r for r in recs if (len(r["events"]) >= 6 and not r["raised"]) or (prop == "C04" and len(r["events"]) >= 4)]
    a = copy.deepcopy(good[0])
    posts = [e for e in a["events"] if e["e"] == "post"]
    if prop == "C01":
        posts[0]["v"] = posts[0]["v"] + "x"
    elif prop == "C03":
        posts[0]["s"]["released"] = sorted(set(posts[0]["s"]["released"]) | S.req_keys(a["cfg"]["req"]))
    elif prop == "C02":
        a["events"] = [e for e in a["events"] if not (e["e"] == "exec" and e["k"] == posts[0]["k"])]
    else:
        a["nfinish"] = 2
    before = len(ctx.violations)
    validate_traces(ctx, prop, [a])
    rej = len(ctx.violations) - before
    print("corrupted trace: %s" % ("REJECTED" if rej else "ACCEPTED (binding broken)"))
    ok = ok and rej > 0
    before = len(ctx.violations)
    validate_traces(ctx, prop, [copy.deepcopy(good[1])])
    print("untouched trace: %s" % ("accepted" if len(ctx.violations) == before else "REJECTED (false alarm)"))
    ok = ok and len(ctx.violations) == before
    for f in glob.glob(os.path.join(os.path.dirname(os.path.dirname(os.path.abspath(__file__))), "replays", prop + "-*.json")):
        os.remove(f)
    return 0 if ok else 1
