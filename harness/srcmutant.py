"""In-memory source mutants for the binding self-tests (never writes to /repo).

``with mutant(module, "func", old, new):`` re-compiles the function's source with one textual
replacement inside the module's own namespace and installs it (also under every other
``(module, name)`` that imported it by name); the original is restored on exit.
``"Class.method"`` names mutate a method."""
from __future__ import annotations

import __future__
import contextlib
import inspect
import textwrap


@contextlib.contextmanager
def mutant(module, qualname, old, new, also=()):
    parts = qualname.split(".")
    owner = module
    for p in parts[:-1]:
        owner = getattr(owner, p)
    name = parts[-1]
    orig = owner.__dict__[name] if isinstance(owner, type) else getattr(owner, name)
    fn = orig.__func__ if isinstance(orig, (staticmethod, classmethod)) else orig
    src = textwrap.dedent(inspect.getsource(fn))
    if src.count(old) != 1:
        raise AssertionError("mutant pattern %r occurs %d times in %s" % (old, src.count(old), qualname))
    ns = {}
    code = compile(src.replace(old, new), "<mutant %s>" % qualname, "exec",
                   flags=__future__.annotations.compiler_flag, dont_inherit=True)
    exec(code, module.__dict__, ns)
    new_obj = ns[name]
    saved = [(owner, name, orig)]
    setattr(owner, name, new_obj)
    for mod, nm in also:
        saved.append((mod, nm, getattr(mod, nm)))
        setattr(mod, nm, new_obj)
    try:
        yield new_obj
    finally:
        for o, nm, val in saved:
            setattr(o, nm, val)
