"""Projection of pandas / dask-dataframe objects to the vocabulary of specs/common/Frames.tla.

A spec ROW is {"rid": int, "idx": int}: `rid` is carried as an ordinary column named "rid"
(every output row names the input row it came from), `idx` is the row's index label mapped to a
small integer.  Labels of any ordered dtype (ints, floats, strings, timestamps) are mapped to
ints by an order-preserving *label map* so that TLC only ever compares small integers;
missing labels (NaN / None / NaT) become NA = 99, labels unknown to the map become UNKNOWN = -1
(which then fails any `division = label at location` style clause, as it should).

Used by the C41 / C44 / C45 drivers; meant to be reused by the other dataframe drivers."""
from __future__ import annotations

import contextlib
import math
import signal

NA = 99          # Frames.tla: NA
UNKNOWN = -1     # a value that is not in the label map


def plain(v):
    """numpy / pandas scalar -> plain hashable Python value; missing -> None."""
    if v is None:
        return None
    try:
        import pandas as pd
        if v is pd.NaT or v is pd.NA:
            return None
    except Exception:  # noqa: BLE001
        pass
    if hasattr(v, "item") and not isinstance(v, (str, bytes)):
        try:
            v = v.item()
        except Exception:  # noqa: BLE001
            pass
    if isinstance(v, float) and math.isnan(v):
        return None
    return v


def rank_map(*value_lists):
    """Joint order-preserving map {value: rank} over all the given values (missing excluded)."""
    vals = set()
    for vl in value_lists:
        for v in vl:
            p = plain(v)
            if p is not None:
                vals.add(p)
    return {v: i for i, v in enumerate(sorted(vals))}


def to_rank(v, ranks):
    p = plain(v)
    if p is None:
        return NA
    try:
        return ranks.get(p, UNKNOWN)
    except TypeError:
        return UNKNOWN


def int_label(v):
    """Label map for frames whose index labels already are small ints (floats with integral value
    are accepted: dask may upcast an int index)."""
    p = plain(v)
    if p is None:
        return NA
    try:
        if float(p) == int(p):
            return int(p)
    except (TypeError, ValueError):
        pass
    return UNKNOWN


def make_labeler(ranks=None):
    return int_label if ranks is None else (lambda v: to_rank(v, ranks))


def rows_of(pdf, label=int_label, rid="rid"):
    """pandas DataFrame (with a `rid` column) or Series (values = rids) -> list of spec rows."""
    import pandas as pd
    if isinstance(pdf, pd.DataFrame):
        rids = pdf[rid].tolist()
    else:
        rids = pdf.tolist()
    out = []
    for r, ix in zip(rids, pdf.index.tolist()):
        rr = plain(r)
        out.append({"rid": int(rr) if rr is not None and float(rr) == int(rr) else UNKNOWN, "idx": label(ix)})
    return out


def divisions_of(coll, label=int_label):
    """`.divisions` -> list of ints; unknown divisions (any None) -> []."""
    divs = tuple(coll.divisions)
    if any(d is None for d in divs):
        return []
    return [label(d) for d in divs]


def partitions_of(coll):
    """Compute every partition separately -> list of pandas objects.  The collection is optimized and
    LOWERED with its own .optimize() (dask.optimize() does not lower dataframe expressions such as
    Repartition and fails on them), the graph is executed on the synchronous scheduler and one
    result per output key is returned."""
    from dask.local import get_sync
    opt = coll.optimize()
    keys = list(opt.__dask_keys__())
    return list(get_sync(dict(opt.__dask_graph__()), keys))


def observe(coll, label=int_label, whole_too=False):
    """Observation record of a dask dataframe collection: declared npartitions / divisions (read
    from the collection as the user sees it) and the rows of EVERY partition, each computed through
    its own key.  whole_too additionally computes the collection in one go and reports whether the
    result equals the concatenation of the partitions (`wholeok`)."""
    declared = int(coll.npartitions)
    divs = divisions_of(coll, label)
    ndivs = len(tuple(coll.divisions))
    parts = [rows_of(p, label) for p in partitions_of(coll)]
    obs = {"raised": "", "nparts": declared, "ndivs": ndivs, "divs": divs, "parts": parts, "wholeok": True}
    if whole_too:
        try:
            whole = rows_of(coll.compute(scheduler="sync"), label)
            obs["wholeok"] = whole == [r for p in parts for r in p]
        except Exception as ex:  # noqa: BLE001 - the partitions could be computed, the whole could not
            from .frames import is_shim_error
            if is_shim_error(ex) or isinstance(ex, CallTimeout):
                raise
            obs["wholeok"] = False
            obs["wholeraised"] = type(ex).__name__
    return obs


def raised_obs(exc):
    return {"raised": type(exc).__name__, "nparts": 0, "ndivs": 0, "divs": [], "parts": [], "wholeok": True}


class CallTimeout(Exception):
    """The call under observation did not return in time (a hang is an observation, not a stuck check)."""


@contextlib.contextmanager
def time_limit(seconds, mem_gb=8):
    """Bound one call into dask: `seconds` of CPU time of this process (ITIMER_PROF - insensitive to
    machine load, so a busy machine cannot produce a spurious timeout), a generous wall-clock bound
    (30 x seconds, at least 120 s) for calls that block, and the address space.  Main thread only
    (forked pmap workers qualify).  On expiry CallTimeout is raised inside the call; a runaway
    allocation ends in MemoryError.  Both are then ordinary observations of the driver."""
    import resource

    def _handler(signum, frame):
        raise CallTimeout("no result after %ss of CPU time (or %ss wall)" % (seconds, max(120, 30 * seconds)))
    try:
        old_prof = signal.signal(signal.SIGPROF, _handler)
        old_alrm = signal.signal(signal.SIGALRM, _handler)
    except ValueError:            # not in the main thread: run unbounded
        yield
        return
    soft, hard = resource.getrlimit(resource.RLIMIT_AS)
    want = int(mem_gb * (1 << 30))
    limited = False
    if soft == resource.RLIM_INFINITY or soft > want:
        try:
            resource.setrlimit(resource.RLIMIT_AS, (want if hard == resource.RLIM_INFINITY else min(want, hard), hard))
            limited = True
        except (ValueError, OSError):
            pass
    signal.setitimer(signal.ITIMER_PROF, seconds)
    signal.setitimer(signal.ITIMER_REAL, max(120, 30 * seconds))
    try:
        yield
    finally:
        signal.setitimer(signal.ITIMER_PROF, 0)
        signal.setitimer(signal.ITIMER_REAL, 0)
        signal.signal(signal.SIGPROF, old_prof)
        signal.signal(signal.SIGALRM, old_alrm)
        if limited:
            resource.setrlimit(resource.RLIMIT_AS, (soft, hard))
