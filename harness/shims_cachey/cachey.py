"""Dict-backed stand-in for the `cachey` package (not installed here), enough for dask.cache.Cache:
Cache(available_bytes) with .data, .put(key, value, cost, nbytes) and module-level nbytes().
Eviction is driven by the harness (evict()), which over-approximates cachey's cost model:
any entry may disappear between two computations."""
import sys


def nbytes(x):
    try:
        return sys.getsizeof(x)
    except Exception:  # noqa: BLE001
        return 64


class Cache:
    def __init__(self, available_bytes=1e9, *args, **kwargs):
        self.available_bytes = available_bytes
        self.data = {}
        self.puts = []

    def put(self, key, value, cost=0, nbytes=None):
        self.data[key] = value
        self.puts.append(key)

    def get(self, key, default=None):
        return self.data.get(key, default)

    def evict(self, keys):
        for k in keys:
            self.data.pop(k, None)

    def clear(self):
        self.data.clear()
