"""Inert stand-in for pyarrow (not installed in this sandbox and not installable).

It only has to satisfy `import dask.dataframe`: attribute access manufactures dummy
classes, the usual sub-modules exist.  Nothing here computes anything; any code path
that really needs Arrow fails loudly with ShimError, which drivers report as a
*machinery* limitation (skip), never as a property violation.  Must be put on
sys.path only AFTER pandas has been imported (pandas probes pyarrow at import time)."""
import sys
import types as _types

__version__ = "99.0.0"


class ShimError(RuntimeError):
    pass


class _Dummy:
    """Instances can be created (dask builds type tables at import time) but do nothing."""
    def __init__(self, *a, **k):
        pass

    def __getattr__(self, name):
        if name.startswith("__"):
            raise AttributeError(name)
        raise ShimError("pyarrow shim: Arrow functionality (%s.%s) is not available in this sandbox"
                        % (type(self).__name__, name))

    def __init_subclass__(cls, **k):
        pass


def _make(name):
    return type(name, (_Dummy,), {})


def __getattr__(name):
    if name.startswith("__"):
        raise AttributeError(name)
    obj = _make(name)
    globals()[name] = obj
    return obj


def _submodule(name):
    full = __name__ + "." + name
    m = _types.ModuleType(full)

    def _ga(attr, _full=full):
        if attr.startswith("__"):
            raise AttributeError(attr)
        return _make(attr)
    m.__getattr__ = _ga
    sys.modules[full] = m
    globals()[name] = m
    return m


for _n in ("fs", "compute", "dataset", "parquet", "orc", "lib", "types", "csv", "json", "feather", "ipc"):
    _submodule(_n)
