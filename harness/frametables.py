"""Typed tables of specs/common/FrameAlgebra.tla on the Python side, and the interpreter that applies
the operations of specs/frame/FrameOps.tla to a real pandas OR dask object (the two libraries share
the API, so one interpreter serves the reference guard and the system under test).

TABLE  {"ser": bool, "err": False, "cols": [names], "kinds": ["i"|"f"|"b", ...],
        "rows": [{"idx": int, "v": [cells]}, ...]}         cells: small ints, NA = 99 for NaN
Used by the C36 and C42 drivers."""
from __future__ import annotations

import math
import operator

import numpy as np
import pandas as pd

NA = 99            # Frames.tla: NA
BAD = -7777        # a cell the table vocabulary cannot express (non-integral float, string, ...)
LIMIT = 90         # cells of generated programs stay below this (NA = 99 must never be a data value)

DTYPE = {"i": "int64", "f": "float64", "b": "bool"}


# ----------------------------------------------------------------------------- tables <-> pandas
def make_table(idx, columns, kinds, names):
    """columns: list of cell lists (parallel to names)."""
    return {"ser": False, "err": False, "cols": list(names), "kinds": list(kinds),
            "rows": [{"idx": int(ix), "v": [int(c[k]) for c in columns]} for k, ix in enumerate(idx)]}


def to_pandas(T):
    idx = pd.Index([r["idx"] for r in T["rows"]], dtype="int64")
    data = {}
    for j, (c, k) in enumerate(zip(T["cols"], T["kinds"])):
        vals = [r["v"][j] for r in T["rows"]]
        if k == "f":
            arr = np.array([np.nan if v == NA else float(v) for v in vals], dtype="float64")
        elif k == "b":
            arr = np.array([bool(v) for v in vals], dtype=bool)
        else:
            arr = np.array(vals, dtype="int64")
        data[c] = arr
    if T["ser"]:
        c = T["cols"][0]
        return pd.Series(data[c], index=idx, name=(c or None))
    return pd.DataFrame(data, index=idx, columns=list(T["cols"]))


def kind_of(dtype):
    k = getattr(dtype, "kind", "O")
    if k == "b":
        return "b"
    if k in "iu":
        return "i"
    if k == "f":
        return "f"
    return "o"


def cell(v):
    if v is None or v is pd.NA or v is pd.NaT:
        return NA
    if isinstance(v, (bool, np.bool_)):
        return int(v)
    if isinstance(v, (int, np.integer)):
        return int(v)
    if isinstance(v, (float, np.floating)):
        if math.isnan(v):
            return NA
        if math.isfinite(v) and float(v) == int(v):
            return int(v)
    return BAD


def label(v):
    c = cell(v)
    return c


def colname(c):
    return "" if c is None else str(c)


def table_of(obj):
    """pandas DataFrame / Series -> table (kinds are the dtype classes of the object as it is)."""
    if isinstance(obj, pd.Series):
        cols, kinds = [colname(obj.name)], [kind_of(obj.dtype)]
        vals = obj.tolist()
        rows = [{"idx": label(ix), "v": [cell(v)]} for ix, v in zip(obj.index.tolist(), vals)]
        return {"ser": True, "err": False, "cols": cols, "kinds": kinds, "rows": rows}
    if isinstance(obj, pd.DataFrame):
        cols = [colname(c) for c in obj.columns]
        kinds = [kind_of(dt) for dt in obj.dtypes]
        colvals = [obj.iloc[:, j].tolist() for j in range(obj.shape[1])]
        rows = [{"idx": label(ix), "v": [cell(cv[k]) for cv in colvals]} for k, ix in enumerate(obj.index.tolist())]
        return {"ser": False, "err": False, "cols": cols, "kinds": kinds, "rows": rows}
    raise TypeError("not a DataFrame / Series: %r" % type(obj).__name__)


def join_kinds(kinds):
    """dtype class of the concatenation of columns with the given classes."""
    ks = set(kinds)
    if len(ks) <= 1:
        return next(iter(ks)) if ks else "f"
    if ks <= {"i", "f"}:
        return "f"
    return "o"


def tables_concat(tables):
    """Observation of a partitioned result: rows concatenated in partition order; the dtype class of a
    column is the class of the concatenation of the NON-EMPTY partitions (what compute() returns;
    dask drops empty partitions before concatenating); structure taken from the first partition and
    flagged when the partitions disagree."""
    first = tables[0]
    same = all(t["ser"] == first["ser"] and t["cols"] == first["cols"] for t in tables)
    nonempty = [t for t in tables if t["rows"]] or [first]
    kinds = [join_kinds([t["kinds"][j] for t in nonempty if j < len(t["kinds"])]) for j in range(len(first["cols"]))]
    return {"ser": first["ser"], "cols": first["cols"] if same else ["<partitions disagree>"], "kinds": kinds,
            "rows": [r for t in tables for r in t["rows"]]}


def fits(T, limit=LIMIT):
    """Every cell / label is expressible: a small integer or NA, kinds within the vocabulary."""
    if any(k not in DTYPE for k in T["kinds"]):
        return False
    for r in T["rows"]:
        if not (-limit < r["idx"] < limit):
            return False
        for v in r["v"]:
            if v != NA and not (-limit < v < limit):
                return False
    return True


# ----------------------------------------------------------------------------- the interpreter
BINOPS = {"add": operator.add, "sub": operator.sub, "mul": operator.mul,
          "lt": operator.lt, "le": operator.le, "gt": operator.gt, "ge": operator.ge, "eq": operator.eq, "ne": operator.ne,
          "and": operator.and_, "or": operator.or_, "xor": operator.xor}


def _other(o):
    return np.nan if o == NA else o


class Affine:
    """v -> m*v + q  (a picklable, deterministically tokenizable callable for Series.apply)."""

    def __init__(self, m, q):
        self.m, self.q = m, q

    def __call__(self, v):
        return self.m * v + self.q

    def __dask_tokenize__(self):
        return ("verif-affine", self.m, self.q)


def ev(F, x, selfobj=None, lazy=False, idxmode="series"):
    """Evaluate expression x (FrameOps.tla) on the pandas / dask frame F.  lazy: F is a dask collection."""
    e = x["e"]
    rec = lambda y: ev(F, y, selfobj, lazy, idxmode)     # noqa: E731
    if e == "col":
        return F[x["c"]]
    if e == "self":
        return selfobj
    if e == "idx":
        return F.index
    if e == "idxs":
        return F.index.to_series()
    if e == "const":
        return x["v"]
    if e == "bin":
        return BINOPS[x["f"]](rec(x["l"]), rec(x["r"]))
    v = rec(x["x"])
    if e == "not":
        return ~v
    if e == "neg":
        return -v
    if e == "abs":
        return v.abs()
    if e == "isna":
        return v.isna()
    if e == "notna":
        return v.notnull() if lazy else v.notna()
    if e == "isin":
        return v.isin(list(x["vals"]))
    if e == "fillna":
        return v.fillna(x["v"])
    if e == "replace":
        return v.replace(x["k"], x["v"])
    if e == "round":
        return v.round()
    if e == "clip":
        return v.clip(lower=None if x["lo"] == NA else x["lo"], upper=None if x["hi"] == NA else x["hi"])
    if e == "map":
        return v.map({int(k): int(w) for k, w in x["pairs"]})
    if e == "astype":
        return v.astype(DTYPE[x["to"]])
    if e == "where":
        return v.where(rec(x["p"]), _other(x["o"]))
    if e == "mask":
        return v.mask(rec(x["p"]), _other(x["o"]))
    if e == "affine":
        f = Affine(x["m"], x["q"])
        if lazy:
            return v.apply(f, meta=(v.name, v.dtype))
        return v.apply(f)
    raise ValueError("unknown expression %r" % (x,))


def apply_op(F, op, lazy=False, idxmode="series", G=None):
    """Apply operation `op` to F (and G for the two-table operations)."""
    k = op["op"]
    E = lambda x, base=F: ev(base, x, None, lazy, idxmode)    # noqa: E731
    none = lambda v: None if v == NA else v                  # noqa: E731
    if k == "seq":
        return apply_op(apply_op(F, op["first"], lazy, idxmode), op["second"], lazy, idxmode)
    if k == "series":
        return E(op["x"])
    if k == "filter":
        return F[E(op["p"])]
    if k == "sfilter":
        return E(op["x"])[E(op["p"])]
    if k == "project":
        return F[list(op["cols"])]
    if k == "assign":
        return F.assign(**{op["name"]: E(op["x"])})
    if k == "fmap":
        F2 = F[list(op["cols"])]
        return ev(F2, op["x"], F2, lazy, idxmode)
    if k == "fmapcol":
        F2 = F[list(op["cols"])]
        return ev(F2, op["x"], F2, lazy, idxmode)[op["c"]]
    if k == "rename":
        return F.rename(columns={a: b for a, b in op["ren"]})
    if k == "head":
        if lazy:
            return F.head(op["n"], npartitions=op["np"], compute=False)
        return F.head(op["n"])
    if k == "tail":
        if lazy:
            return F.tail(op["n"], compute=False)
        return F.tail(op["n"])
    if k == "loc":
        return F.loc[none(op["a"]):none(op["b"])]
    if k == "abin":
        return BINOPS[op["f"]](F[op["lc"]], G[op["rc"]])
    if k == "afbin":
        return BINOPS[op["f"]](F[list(op["cols"])], G[list(op["cols"])])
    if k == "afilter":
        return F[E(op["p"], G)]
    if k == "aassign":
        return F.assign(**{op["name"]: E(op["x"], G)})
    if k == "awhere":
        return F[op["c"]].where(E(op["p"], G), _other(op["o"]))
    if k == "amask":
        return F[op["c"]].mask(E(op["p"], G), _other(op["o"]))
    raise ValueError("unknown operation %r" % (op,))


def needs_layout(op):
    return op["op"] == "tail" or (op["op"] == "head" and op["np"] != -1)


def pandas_reference(T, layout, op, T2=None):
    """The pandas result of `op` as a table, or {"raised": name}.  head(npartitions=k) / tail are the
    documented partition-wise definitions applied to the pandas frame."""
    F = to_pandas(T)
    try:
        if op["op"] == "head" and op["np"] != -1:
            F = F.iloc[:sum(layout[:op["np"]])]
        if op["op"] == "tail":
            F = F.iloc[len(F) - layout[-1]:]
        G = to_pandas(T2) if T2 is not None else None
        return table_of(apply_op(F, op, lazy=False, G=G))
    except Exception as ex:  # noqa: BLE001 - the reference raises: recorded
        return {"raised": type(ex).__name__}


def same_table(a, b):
    return a["ser"] == b["ser"] and list(a["cols"]) == list(b["cols"]) and list(a["kinds"]) == list(b["kinds"]) and \
        [(r["idx"], list(r["v"])) for r in a["rows"]] == [(r["idx"], list(r["v"])) for r in b["rows"]]
