"""Run context shared by every driver: tiers, seeds, scratch space, TLC bookkeeping,
violations / known findings, evidence.  A driver never prints verdict lines itself."""
from __future__ import annotations

import hashlib
import json
import os
import random
import shutil
import sys
import tempfile
import time
import traceback

from . import tlc as T
from .tlc import MachineryError

ROOT = os.path.dirname(os.path.dirname(os.path.abspath(__file__)))
SPECS = os.path.join(ROOT, "specs")
REPO = os.environ.get("VERIF_REPO", "/repo")


def load_known(prop):
    """known_findings.json plus known_findings.d/*.json (same format), status == "known" only."""
    import glob
    paths = [os.path.join(ROOT, "known_findings.json")] + sorted(glob.glob(os.path.join(ROOT, "known_findings.d", "*.json")))
    out = {}
    for path in paths:
        if not os.path.exists(path):
            continue
        with open(path) as f:
            data = json.load(f)
        for e in data.get("findings", []):
            if e.get("property") == prop and e.get("status") == "known":
                out[e["signature"]] = e
    return out


class TLA:
    """Literal TLA+ text for a constant (see Ctx.model)."""
    def __init__(self, text):
        self.text = text


class Ctx:
    def __init__(self, prop, tier, seed, level="model_checking"):
        self.prop = prop
        self.tier = tier
        self.seed = seed
        self.level = level
        self.rng = random.Random(seed * 1000003 + int(hashlib.md5(prop.encode()).hexdigest()[:6], 16))
        self.scratch = tempfile.mkdtemp(prefix="verif-%s-" % prop)
        self.t0 = time.time()
        self.states = 0
        self.transitions = 0
        self.traces = 0
        self.evaluations = 0
        self._distinct = set()
        self.samples = []
        self.extra = {}
        self.assumptions = []
        self.rule = ""
        self.exhaustive = None
        self.violations = []       # (signature, what, replay_path)
        self.known_hit = {}        # signature -> count
        self.viol_count = {}
        self.known = load_known(prop)
        self.tlc_runs = []
        self.skipped = {}          # reason -> count
        self.quick = tier == "quick"
        self.workers = int(os.environ.get("VERIF_WORKERS", "8"))

    # ---------- sizing helpers
    def pick(self, quick, thorough):
        return quick if self.quick else thorough

    # ---------- TLC
    def spec(self, *parts):
        return os.path.join(SPECS, *parts)

    def tlc(self, spec_path, cfg_path=None, *, label=None, count=True, **kw):
        if cfg_path is None:
            cfg_path = spec_path[:-4] + ".cfg"
        kw.setdefault("workers", self.workers)
        kw.setdefault("scratch", self.scratch)
        r = T.run(spec_path, cfg_path, **kw)
        if count:
            self.states += r.distinct
            self.transitions += r.generated
        self.tlc_runs.append({"spec": os.path.relpath(spec_path, ROOT), "cfg": os.path.basename(cfg_path),
                              "label": label or "", "distinct": r.distinct, "generated": r.generated,
                              "depth": r.depth, "wall_s": round(r.wall_s, 2), "ok": r.ok,
                              "violated": r.violated})
        return r

    def mkcfg(self, name, **kw):
        path = os.path.join(self.scratch, name)
        return T.write_cfg(path, **kw)

    def model(self, spec_path, constants=None, **kw):
        """Instantiate a specification: writes a wrapper module MC_<n>.tla (EXTENDS the spec,
        one definition per constant, so tuples/records/negative numbers are expressible) and
        its cfg into the scratch dir.  `constants` maps names to Python values or, wrapped
        in TLA(...), to literal TLA+ text.  Returns (wrapper_path, cfg_path)."""
        self._nmodel = getattr(self, "_nmodel", 0) + 1
        base = os.path.basename(spec_path)[:-4]
        name = "MC_%s_%d" % (base, self._nmodel)
        lines = ["---- MODULE %s ----" % name, "EXTENDS %s" % base]
        subst = {}
        for k, v in (constants or {}).items():
            text = v.text if isinstance(v, TLA) else T.tla_value(v)
            lines.append("const_%s == %s" % (k, text))
            subst[k] = "const_%s" % k
        lines.append("====")
        wpath = os.path.join(self.scratch, name + ".tla")
        with open(wpath, "w") as f:
            f.write("\n".join(lines) + "\n")
        # the wrapper must be able to find the spec: link the spec's directory via TLA-Library
        self._libdirs = getattr(self, "_libdirs", set()) | {os.path.dirname(os.path.abspath(spec_path))}
        cfg = T.write_cfg(os.path.join(self.scratch, name + ".cfg"), subst=subst, **kw)
        return wpath, cfg

    def tlc_cases(self, spec_path, cfg_path=None, var="out", **kw):
        """Design check + case export: every distinct state carries one JSON case in `var`."""
        r = self.tlc(spec_path, cfg_path, dump=True, **kw)
        cases = T.read_dump_json(r.dump, var)
        try:
            os.remove(r.dump)
        except OSError:
            pass
        if not cases:
            raise MachineryError("no cases exported by %s" % spec_path)
        return cases, r

    def tlc_validate(self, spec_path, records, cfg_path=None, *, id_key="id", label=None, **kw):
        """code -> spec: write `records` as ndjson, let the trace spec consume them, return
        {id: [clauses]} for rejected records.  Totality: the spec must print one DONE line whose
        count equals len(records)."""
        if not records:
            return {}
        path = os.path.join(self.scratch, "trace-%d.ndjson" % len(self.tlc_runs))
        with open(path, "w") as f:
            for rec in records:
                f.write(json.dumps(rec, separators=(",", ":")) + "\n")
        kw.setdefault("workers", 1)
        env = dict(kw.pop("env", {}) or {})
        env["TRACE_FILE"] = path
        r = self.tlc(spec_path, cfg_path, env=env, label=label or "trace-validation", **kw)
        rejects = {}
        done = None
        for line in r.prints:
            if line.startswith('<<"REJECT"'):
                body = line[2:-2]
                parts = body.split(", ", 2)
                rid = parts[1].strip('"')
                rejects.setdefault(rid, []).append(parts[2] if len(parts) > 2 else "")
            elif line.startswith('<<"DONE"'):
                done = [x.strip() for x in line[2:-2].split(",")]
        if done is None or int(done[1]) != len(records):
            raise MachineryError("trace validation did not consume all %d records (DONE=%r):\n%s"
                                 % (len(records), done, r.output[-2000:]))
        if int(done[2]) != len(rejects):
            raise MachineryError("REJECT lines (%d) disagree with the spec's own count (%s)" % (len(rejects), done[2]))
        self.traces += len(records)
        os.remove(path)
        return rejects

    # ---------- counting
    def count(self, key=None, nontrivial=True, n=1):
        self.evaluations += n
        if key is not None and nontrivial:
            if not isinstance(key, (str, bytes, int)):
                key = json.dumps(key, sort_keys=True, default=str)
            self._distinct.add(hashlib.md5(str(key).encode()).digest()[:8])

    def sample(self, obj, limit=5):
        if len(self.samples) < limit:
            self.samples.append(obj)

    def skip(self, reason):
        self.skipped[reason] = self.skipped.get(reason, 0) + 1

    # ---------- verdicts
    def violation(self, signature, what, replay=None):
        """Report a property violation.  `signature` identifies the specific failing input class /
        call site; if known_findings.json lists it the run prints KNOWN-FINDING instead."""
        if signature in self.known:
            self.known_hit[signature] = self.known_hit.get(signature, 0) + 1
            return False
        self.viol_count[signature] = self.viol_count.get(signature, 0) + 1
        if self.viol_count[signature] > 1 or len(self.viol_count) > 60:
            self.violations.append((signature, what, None))
            return True
        path = None
        if replay is not None:
            os.makedirs(os.path.join(ROOT, "replays"), exist_ok=True)
            h = hashlib.md5(json.dumps(replay, sort_keys=True, default=str).encode()).hexdigest()[:10]
            path = os.path.join(ROOT, "replays", "%s-%s.json" % (self.prop, h))
            with open(path, "w") as f:
                json.dump({"property": self.prop, "signature": signature, "what": what, "case": replay},
                          f, indent=1, default=str)
        self.violations.append((signature, what, path))
        return True

    # ---------- finish
    def finish(self):
        wall = time.time() - self.t0
        cov = {
            "states": self.states,
            "transitions": self.transitions,
            "traces_validated_against_impl": self.traces,
            "samples": self.samples[:5] or ["(none)"],
            "evaluations": self.evaluations,
            "distinct_nontrivial": len(self._distinct),
            "rule": self.rule,
            "tlc_runs": self.tlc_runs,
            "skipped": self.skipped,
            "known_findings_hit": self.known_hit,
        }
        if self.exhaustive is not None:
            cov["exhaustive"] = bool(self.exhaustive)
        # keys the evidence schema types must not be shadowed by a driver's free-form extras
        typed = {"evaluations": int, "distinct_nontrivial": int, "rule": str, "samples": list, "states": int,
                 "transitions": int, "traces_validated_against_impl": int, "obligations": int, "discharged": int,
                 "checker_cmd": str, "trusted_base": list, "programs": int, "disagreements_checked": int,
                 "explanation": str, "exhaustive": bool}
        for k, v in self.extra.items():
            if k in typed and not isinstance(v, typed[k]):
                cov[k + "_detail"] = v
            elif k not in ("states", "transitions", "traces_validated_against_impl", "evaluations", "distinct_nontrivial", "samples"):
                cov[k] = v
        ev = {
            "property_id": self.prop, "tier": self.tier, "seed": self.seed, "level": self.level,
            "coverage": cov, "assumptions": self.assumptions, "wall_s": round(wall, 2),
            "violations": len(self.violations),
        }
        os.makedirs(os.path.join(ROOT, "evidence"), exist_ok=True)
        with open(os.path.join(ROOT, "evidence", "%s.json" % self.prop), "w") as f:
            json.dump(ev, f, indent=1, default=str)
        for sig, n in sorted(self.known_hit.items()):
            print("KNOWN-FINDING: property=%s %s [%s] (%d cases this run)" % (self.prop, self.known[sig]["what"], sig, n))
        seen = set()
        for sig, what, path in self.violations:
            if path is None or sig in seen:
                continue
            seen.add(sig)
            print("VIOLATION property=%s replay=%s  # %s (%d cases): %s" % (self.prop, path, sig, self.viol_count.get(sig, 1), what))
        print("%s tier=%s seed=%d states=%d transitions=%d traces=%d evaluations=%d distinct=%d violations=%d known=%d wall=%.1fs"
              % (self.prop, self.tier, self.seed, self.states, self.transitions, self.traces, self.evaluations,
                 len(self._distinct), len(self.violations), sum(self.known_hit.values()), wall))
        return 1 if self.violations else 0

    def cleanup(self):
        shutil.rmtree(self.scratch, ignore_errors=True)


def vacuity_guard(ctx):
    if ctx.states < 1 or ctx.transitions < 1:
        raise MachineryError("vacuous run: TLC explored no states")
    if ctx.evaluations < 1 or len(ctx._distinct) < 2:
        raise MachineryError("vacuous run: fewer than 2 distinct non-trivial implementation cases")


def main(argv=None):
    import argparse
    import importlib
    ap = argparse.ArgumentParser()
    ap.add_argument("prop")
    ap.add_argument("--tier", default=os.environ.get("VERIF_TIER", "quick"), choices=["quick", "thorough"])
    ap.add_argument("--replay", default=None)
    ap.add_argument("--seed", type=int, default=int(os.environ.get("VERIF_SEED", "0") or 0))
    ap.add_argument("--selftest", action="store_true")
    a = ap.parse_args(argv)
    if REPO not in sys.path:
        sys.path.insert(0, REPO)
    os.environ.setdefault("PYTHONHASHSEED", "0")
    try:
        mod = importlib.import_module("harness.drivers.%s" % a.prop)
    except ModuleNotFoundError as ex:
        print("no driver for %s: %s" % (a.prop, ex))
        return 2
    ctx = Ctx(a.prop, a.tier, a.seed, level=getattr(mod, "LEVEL", "model_checking"))
    try:
        if a.replay:
            with open(a.replay) as f:
                obj = json.load(f)
            rc = mod.replay(ctx, obj)
            print("replay %s: %s" % (a.replay, "VIOLATION reproduced" if rc else "no violation"))
            if rc:
                print("VIOLATION property=%s replay=%s" % (a.prop, a.replay))
            return 1 if rc else 0
        if a.selftest:
            return mod.selftest(ctx)
        mod.run(ctx)
        vacuity_guard(ctx)
        return ctx.finish()
    except MachineryError as ex:
        print("MACHINERY-ERROR %s: %s" % (a.prop, ex))
        return 2
    except Exception:
        print("MACHINERY-ERROR %s: unexpected exception in the harness" % a.prop)
        traceback.print_exc()
        return 2
    finally:
        ctx.cleanup()
