"""Thin, total wrapper around TLC / SANY.

Every call returns a TLCResult; nothing here decides a property.  A TLC run that
crashes, times out or cannot be parsed is a *machinery* failure (MachineryError),
never a violation.
"""
from __future__ import annotations

import json
import os
import re
import shutil
import subprocess
import tempfile
import time
from dataclasses import dataclass, field

JAR_CP = "/opt/veriftools/tla/tla2tools.jar:/opt/veriftools/tla/CommunityModules-deps.jar"
SPECS = os.path.join(os.path.dirname(os.path.dirname(os.path.abspath(__file__))), "specs")


class MachineryError(Exception):
    """The verification machinery itself failed (exit code 2)."""


@dataclass
class TLCResult:
    ok: bool                      # model checking completed without any error
    generated: int = 0            # states generated  (we report this as "transitions")
    distinct: int = 0             # distinct states   (we report this as "states")
    depth: int = 0
    violated: list = field(default_factory=list)   # names of violated invariants / properties
    deadlock: bool = False
    postcondition_failed: bool = False
    prints: list = field(default_factory=list)     # raw lines printed by PrintT / Print
    coverage: dict = field(default_factory=dict)   # action name -> (distinct, total)
    output: str = ""
    wall_s: float = 0.0
    dump: str | None = None


def _module_dirs(spec_path):
    """Directories that must be on TLC's module search path."""
    dirs = [os.path.dirname(os.path.abspath(spec_path))]
    for sub in sorted(os.listdir(SPECS)):
        d = os.path.join(SPECS, sub)
        if os.path.isdir(d) and d not in dirs:
            dirs.append(d)
    return dirs


def _java(extra_props=()):
    # a small initial heap and few GC threads: with the JVM defaults (1/4 of RAM, one GC thread per
    # core) short TLC runs spend most of their time in page faults when the machine is shared
    extra = list(extra_props)
    base = ["java", "-XX:+UseParallelGC", "-XX:ParallelGCThreads=4", "-Xss16m", "-Xms256m"]
    if not any(p.startswith("-Xmx") for p in extra):
        base.append("-Xmx6g")
    return base + extra


def sany(spec_path, timeout=120):
    dirs = _module_dirs(spec_path)
    jtmp = tempfile.mkdtemp(prefix="verif-sany-")       # (the tools leave an empty tlc-<n> directory in java.io.tmpdir)
    try:
        cmd = _java(["-DTLA-Library=" + os.pathsep.join(dirs), "-Djava.io.tmpdir=" + jtmp]) + ["-cp", JAR_CP, "tla2sany.SANY", spec_path]
        p = subprocess.run(cmd, capture_output=True, text=True, timeout=timeout, cwd=os.path.dirname(spec_path))
    finally:
        shutil.rmtree(jtmp, ignore_errors=True)
    out = p.stdout + p.stderr
    if p.returncode != 0 or "*** Errors" in out or "Fatal errors" in out or "Could not find module" in out:
        raise MachineryError("SANY rejects %s:\n%s" % (spec_path, out[-3000:]))
    return True


_RE_STATES = re.compile(r"(\d+) states generated, (\d+) distinct states found")
_RE_DEPTH = re.compile(r"The depth of the complete state graph search is (\d+)")
_RE_INV = re.compile(r"Invariant (\S+) is violated")
_RE_PROP = re.compile(r"(?:Temporal properties were violated|Action property (\S+) is violated|property (\S+) (?:is|was) violated)")
_RE_COV = re.compile(r"^<(\w+) line \d+, col \d+ to line \d+, col \d+ of module (\w+)>: (\d+):(\d+)")


def run(spec_path, cfg_path, *, workers=8, timeout=900, dump=False, scratch=None,
        env=None, dfs=False, coverage=False, simulate=None, depth=None, seed=None,
        extra_args=(), heap=None, allow_violation=False):
    """Run TLC.  `dump=True` writes a state dump and returns its path in result.dump.

    allow_violation: do not raise when an invariant is violated (the caller wants
    to look at result.violated); all other abnormal endings raise MachineryError.
    """
    own_scratch = scratch is None
    # A time-out is a guard against a hung model checker, not a performance claim: on an overloaded machine (many
    # checks at once) the limit is stretched with the load per core, up to 4x, so that load alone never fails a check
    try:
        timeout = int(timeout * max(1.0, min(4.0, 1.5 * os.getloadavg()[0] / (os.cpu_count() or 1))))
    except OSError:
        pass
    if scratch is None:
        scratch = tempfile.mkdtemp(prefix="verif-tlc-")
    os.makedirs(scratch, exist_ok=True)
    meta = tempfile.mkdtemp(prefix="meta-", dir=scratch)
    # (TLC leaves an empty tlc-<n> directory in java.io.tmpdir per run: keep it inside the scratch directory)
    props = ["-DTLA-Library=" + os.pathsep.join(_module_dirs(spec_path)), "-Djava.io.tmpdir=" + meta]
    if dfs:
        props.append("-Dtlc2.tool.queue.IStateQueue=StateDeque")
    if heap:
        props.append("-Xmx" + heap)
    cmd = _java(props) + ["-cp", JAR_CP, "tlc2.TLC", "-workers", str(workers), "-metadir", meta,
                          "-noGenerateSpecTE", "-config", cfg_path]
    dump_path = None
    if dump:
        dump_path = os.path.join(scratch, "d%d" % int(time.time() * 1e6))
        cmd += ["-dump", dump_path]
        dump_path += ".dump"
    if coverage:
        cmd += ["-coverage", "1"]
    if simulate:
        cmd += ["-simulate", simulate]
    if depth:
        cmd += ["-depth", str(depth)]
    if seed is not None:
        cmd += ["-seed", str(seed)]
    cmd += list(extra_args)
    cmd.append(spec_path)
    e = dict(os.environ)
    if env:
        e.update({k: str(v) for k, v in env.items()})
    t0 = time.time()
    try:
        p = subprocess.run(cmd, capture_output=True, text=True, timeout=timeout, env=e,
                           cwd=os.path.dirname(os.path.abspath(spec_path)))
    except subprocess.TimeoutExpired as ex:
        subprocess.run(["pkill", "-f", meta], capture_output=True)
        raise MachineryError("TLC timed out after %ss on %s" % (timeout, spec_path)) from ex
    finally:
        shutil.rmtree(meta, ignore_errors=True)
    out = p.stdout + ("\n" + p.stderr if p.stderr.strip() else "")
    r = TLCResult(ok=False, output=out, wall_s=time.time() - t0, dump=dump_path)
    m = None
    for m in _RE_STATES.finditer(out):
        pass
    if m:
        r.generated, r.distinct = int(m.group(1)), int(m.group(2))
    m = _RE_DEPTH.search(out)
    if m:
        r.depth = int(m.group(1))
    r.violated = _RE_INV.findall(out)
    for a, b in _RE_PROP.findall(out):
        r.violated.append(a or b or "TemporalProperty")
    if "Temporal properties were violated" in out and "TemporalProperty" not in r.violated:
        r.violated.append("TemporalProperty")
    r.deadlock = "Deadlock reached" in out
    r.postcondition_failed = "POSTCONDITION" in out and ("violated" in out or "false" in out.lower().split("postcondition")[-1][:200])
    for line in out.splitlines():
        s = line.strip()
        if s.startswith("<<") or s.startswith('"') or s.startswith("["):
            r.prints.append(s)
        mc = _RE_COV.match(s)
        if mc:
            r.coverage[mc.group(1)] = (int(mc.group(3)), int(mc.group(4)))
    completed = "Model checking completed. No error has been found." in out or \
                (simulate and "Error:" not in out and p.returncode in (0,))
    r.ok = bool(completed) and not r.violated and not r.deadlock
    if own_scratch and not dump:
        shutil.rmtree(scratch, ignore_errors=True)
    if r.ok:
        return r
    if (r.violated or r.deadlock) and allow_violation:
        return r
    if simulate and p.returncode == 0 and not r.violated:
        r.ok = True
        return r
    raise MachineryError("TLC did not complete cleanly on %s (rc=%s, violated=%s, deadlock=%s):\n%s"
                         % (spec_path, p.returncode, r.violated, r.deadlock, out[-4000:]))


_RE_OUT = re.compile(r'^/\\ (\w+) = (".*")\s*$')


def read_dump_json(dump_path, var="out"):
    """Read every `/\\ var = "<json>"` line of a TLC -dump file; one case per distinct state."""
    cases = []
    with open(dump_path, "r") as f:
        for line in f:
            m = _RE_OUT.match(line)
            if m and m.group(1) == var:
                text = _tla_unquote(m.group(2))
                if text:                      # states that export nothing carry ""
                    cases.append(json.loads(text))
    return cases


def _tla_unquote(s):
    # TLA+ string escapes are a subset of JSON's.
    return json.loads(s)


def write_cfg(path, *, init="Init", next_="Next", spec=None, invariants=(), properties=(),
              constants=None, constraint=None, postcondition=None, deadlock=False, view=None,
              action_constraint=None, subst=None):
    lines = []
    if spec:
        lines.append("SPECIFICATION %s" % spec)
    else:
        lines += ["INIT %s" % init, "NEXT %s" % next_]
    for k, v in (constants or {}).items():
        lines.append("CONSTANT %s = %s" % (k, v))
    for k, v in (subst or {}).items():
        lines.append("CONSTANT %s <- %s" % (k, v))
    for i in invariants:
        lines.append("INVARIANT %s" % i)
    for p_ in properties:
        lines.append("PROPERTY %s" % p_)
    if constraint:
        lines.append("CONSTRAINT %s" % constraint)
    if action_constraint:
        lines.append("ACTION_CONSTRAINT %s" % action_constraint)
    if view:
        lines.append("VIEW %s" % view)
    if postcondition:
        lines.append("POSTCONDITION %s" % postcondition)
    lines.append("CHECK_DEADLOCK %s" % ("TRUE" if deadlock else "FALSE"))
    with open(path, "w") as f:
        f.write("\n".join(lines) + "\n")
    return path


def tla_value(v):
    """Python -> TLA+ literal text (ints, bools, strings, lists->tuples, sets, dicts->records/functions)."""
    if isinstance(v, bool):
        return "TRUE" if v else "FALSE"
    if isinstance(v, int):
        return str(v)
    if isinstance(v, str):
        return json.dumps(v)
    if v is None:
        return '"None"'
    if isinstance(v, (list, tuple)):
        return "<<" + ", ".join(tla_value(x) for x in v) + ">>"
    if isinstance(v, (set, frozenset)):
        return "{" + ", ".join(sorted(tla_value(x) for x in v)) + "}"
    if isinstance(v, dict):
        if not v:
            return "<<>>"
        if all(isinstance(k, str) and re.match(r"^[A-Za-z_]\w*$", k) for k in v):
            return "[" + ", ".join("%s |-> %s" % (k, tla_value(x)) for k, x in v.items()) + "]"
        return "(" + " @@ ".join("%s :> %s" % (tla_value(k), tla_value(x)) for k, x in v.items()) + ")"
    raise TypeError("no TLA+ literal for %r" % (v,))
