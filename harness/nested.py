"""Python twin of specs/common/Nested.tla: nested Python structures whose leaves are dask collections
or plain values, as JSON trees

    {"k": "coll", "c": i} | {"k": "plain", "pv": n} | {"k": "pstr", "ps": s}
    {"k": "list"|"tuple"|"set"|"iter"|"dc"|"nt", "xs": [...]}
    {"k": "dict"|"odict", "ks": [...], "vs": [...]}
    after an operation:  {"k": "val", "c": i} | {"k": "lazy", "c": i, "md": metadata string}

build() turns a tree into the Python object (with real dask collections at the leaves), project() turns
whatever dask.compute / persist / optimize returned back into a tree: container kinds, order, plain
leaves; a computed value is recognised by comparing it with the value each collection has when it is
computed ALONE (the collections of one case have pairwise different values), a collection by computing
it; its type, shape of __dask_keys__ and metadata (array: shape / dtype / chunks / name kind; bag:
npartitions / name kind; dataframe: columns / dtypes / divisions / npartitions; Delayed: declared length and
what tuple unpacking gives) are recorded as one string to be compared with the original's.  No decision is taken here:
trees are compared with the export of the specification / decided by TLC."""
from __future__ import annotations

import dataclasses
import json
import operator
from collections import OrderedDict, namedtuple
from collections.abc import Iterator


@dataclasses.dataclass
class DC:
    x: object
    y: object


NT = namedtuple("NT", ["a", "b"])

KINDS = ("delayed", "dnout0", "dnout1", "dnout2", "dnout3", "bag", "item", "array", "frame")
HASHABLE_KINDS = ("delayed", "dnout0", "dnout1", "dnout2", "dnout3")     # Delayed objects (their values are ints / tuples of ints)


def _tup(*args):
    return tuple(args)


def _inc(x):
    return x + 1


def make_collection(kind, i):
    """The i-th collection (i = 1..3) of a case: values are pairwise different across (kind, i)."""
    import dask
    if kind == "delayed":
        return dask.delayed(operator.add)(10 * i, 1)
    if kind.startswith("dnout"):
        # a Delayed with a declared length: delayed(f, nout=n)(...) - len() and tuple unpacking work on it
        n = int(kind[5:])
        return dask.delayed(_tup, nout=n)(*[7000000 * i + 100 * n + j for j in range(n)])
    if kind == "bag":
        import dask.bag as db
        return db.from_sequence([200 * i + j for j in range(3)], npartitions=2).map(_inc)
    if kind == "item":
        import dask.bag as db
        return db.from_sequence([3000 * i + j for j in range(3)], npartitions=2).sum()
    if kind == "array":
        import dask.array as da
        import numpy as np
        return da.from_array(np.arange(4) + 40000 * i, chunks=2) + 1
    if kind == "frame":
        import pandas as pd
        from .frames import dd
        ddm = dd()
        return ddm.from_pandas(pd.Series([500000 * i + j for j in range(4)], name="s"), npartitions=2) + 1
    if kind == "frame_rep":
        import pandas as pd
        from .frames import dd
        ddm = dd()
        return ddm.from_pandas(pd.Series([600000 * i + j for j in range(4)], name="s"), npartitions=1).repartition(npartitions=2)
    raise ValueError(kind)


def same_value(a, b):
    """Type-aware equality of two computed values."""
    import numpy as np
    try:
        import pandas as pd
    except ImportError:                                   # pragma: no cover
        pd = None
    if pd is not None and isinstance(a, (pd.Series, pd.DataFrame)):
        return type(a) is type(b) and a.equals(b) and list(a.index) == list(b.index)
    if pd is not None and isinstance(b, (pd.Series, pd.DataFrame)):
        return False
    if isinstance(a, np.ndarray) or isinstance(b, np.ndarray):
        return isinstance(a, np.ndarray) and isinstance(b, np.ndarray) and a.dtype == b.dtype and a.shape == b.shape \
            and bool(np.array_equal(a, b))
    if isinstance(a, bool) or isinstance(b, bool):
        return a is b
    if isinstance(a, (int, np.integer)) and isinstance(b, (int, np.integer)):
        return int(a) == int(b)
    if type(a) is not type(b):
        return False
    try:
        return bool(a == b)
    except Exception:  # noqa: BLE001
        return False


def keys_shape(keys):
    return [keys_shape(k) for k in keys] if isinstance(keys, list) else 0


def meta_of(coll):
    """What 'same metadata' means per collection kind (plain data, comparable with ==), observed through
    the public behaviour of the object."""
    from dask.utils import key_split
    name = type(coll).__module__
    if name.startswith("dask.array"):
        return ["array", list(coll.shape), str(coll.dtype), [list(c) for c in coll.chunks], key_split(coll.name)]
    if name.startswith("dask.bag"):
        return ["bag", getattr(coll, "npartitions", None), key_split(getattr(coll, "name", getattr(coll, "key", "")))]
    if name.startswith("dask.dataframe"):
        m = coll._meta
        return ["frame", type(m).__name__, str(getattr(m, "dtype", "")), [str(c) for c in getattr(m, "columns", [])],
                [str(t) for t in getattr(m, "dtypes", [])] if hasattr(m, "columns") else [], str(getattr(coll, "name", "")),
                coll.npartitions, [str(d) for d in coll.divisions]]
    if name.startswith("dask.delayed"):
        # the declared length: len() or "no length"; and what tuple unpacking gives
        try:
            length = len(coll)
        except TypeError:
            length = "no length"
        try:
            parts = len([x for x in coll])
        except TypeError:
            parts = "not iterable"
        return ["delayed", length, parts]
    return [type(coll).__name__]


def md_string(coll):
    """Type, shape of __dask_keys__ and metadata of a collection as one canonical string."""
    return json.dumps([type(coll).__name__, keys_shape(coll.__dask_keys__()), meta_of(coll)], sort_keys=True)


class Env:
    """The collections of one case and their values when computed alone."""

    def __init__(self, kinds):
        self.kinds = list(kinds)
        self.colls = [make_collection(k, i + 1) for i, k in enumerate(kinds)]
        self.alone = [c.compute(scheduler="sync") for c in self.colls]
        self.mds = [md_string(c) for c in self.colls]

    def fingerprint(self, v):
        hits = [i + 1 for i, a in enumerate(self.alone) if same_value(v, a)]
        return hits[0] if len(hits) == 1 else 0


def build(s, env):
    k = s["k"]
    if k == "coll":
        return env.colls[s["c"] - 1]
    if k == "plain":
        return s["pv"]
    if k == "pstr":
        return s["ps"]
    if k in ("dict", "odict"):
        items = [(build(a, env), build(b, env)) for a, b in zip(s["ks"], s["vs"])]
        return dict(items) if k == "dict" else OrderedDict(items)
    xs = [build(x, env) for x in s["xs"]]
    if k == "list":
        return xs
    if k == "tuple":
        return tuple(xs)
    if k == "set":
        return set(xs)
    if k == "iter":
        return iter(xs)
    if k == "dc":
        return DC(*xs)
    if k == "nt":
        return NT(*xs)
    raise ValueError(k)


def _sk(j):
    return json.dumps(j, sort_keys=True)


def project(o, env):
    """Python object -> tree."""
    from dask.base import is_dask_collection
    if is_dask_collection(o):
        for i, c in enumerate(env.colls):
            if o is c:
                return {"k": "coll", "c": i + 1}
        try:
            v = o.compute(scheduler="sync")
        except Exception as ex:  # noqa: BLE001 - a returned collection that cannot be computed
            return {"k": "broken", "s": "%s: %s" % (type(ex).__name__, str(ex)[:120])}
        return {"k": "lazy", "c": env.fingerprint(v), "md": md_string(o)}
    c = env.fingerprint(o)
    if c:
        return {"k": "val", "c": c}
    if isinstance(o, bool):
        return {"k": "other", "s": repr(o)}
    if isinstance(o, int):
        return {"k": "plain", "pv": o}
    if isinstance(o, str):
        return {"k": "pstr", "ps": o}
    if type(o) is list:
        return {"k": "list", "xs": [project(x, env) for x in o]}
    if type(o) is tuple:
        return {"k": "tuple", "xs": [project(x, env) for x in o]}
    if type(o) is NT:
        return {"k": "nt", "xs": [project(x, env) for x in o]}
    if type(o) is DC:
        return {"k": "dc", "xs": [project(o.x, env), project(o.y, env)]}
    if type(o) in (set, frozenset):
        return {"k": "set", "xs": sorted((project(x, env) for x in o), key=_sk)}
    if type(o) is OrderedDict:
        return {"k": "odict", "ks": [project(a, env) for a in o], "vs": [project(b, env) for b in o.values()]}
    if type(o) is dict:
        return {"k": "dict", "ks": [project(a, env) for a in o], "vs": [project(b, env) for b in o.values()]}
    if isinstance(o, Iterator):
        return {"k": "iter", "xs": [project(x, env) for x in o]}
    return {"k": "other", "s": "%s:%s" % (type(o).__name__, repr(o)[:60])}


def canon(s, lenient=True):
    """Comparison form (Python twin of Canon/Norm of the specifications): sets and dicts lose their order;
    lenient: an untouched collection counts as an equivalent lazy one, an iterator as the list of its items."""
    k = s["k"]
    if k in ("coll", "lazy") and lenient:
        return {"k": "lazy", "c": s["c"]}
    if "xs" in s:
        xs = [canon(x, lenient) for x in s["xs"]]
        if k == "set":
            return {"k": "set", "els": sorted(xs, key=_sk)}
        return {"k": "list" if (k == "iter" and lenient) else k, "xs": xs}
    if "vs" in s:
        ks, vs = [canon(x, lenient) for x in s["ks"]], [canon(x, lenient) for x in s["vs"]]
        if k == "dict":
            return {"k": "dict", "kvs": sorted(([a, b] for a, b in zip(ks, vs)), key=_sk)}
        return {"k": k, "ks": ks, "vs": vs}
    return dict(s)


def skeleton(s):
    """Container kinds, order and plain leaves; collection leaves of any state become holes."""
    k = s["k"]
    if k in ("coll", "val", "lazy"):
        return {"k": "hole"}
    if "xs" in s:
        xs = [skeleton(x) for x in s["xs"]]
        if k == "set":
            return {"k": "set", "els": sorted(xs, key=_sk)}
        return {"k": "list" if k == "iter" else k, "xs": xs}
    if "vs" in s:
        ks, vs = [skeleton(x) for x in s["ks"]], [skeleton(x) for x in s["vs"]]
        if k == "dict":
            return {"k": "dict", "kvs": sorted(([a, b] for a, b in zip(ks, vs)), key=_sk)}
        return {"k": k, "ks": ks, "vs": vs}
    return dict(s)


def leaves(s, acc=None):
    acc = [] if acc is None else acc
    if "xs" in s:
        for x in s["xs"]:
            leaves(x, acc)
    elif "vs" in s:
        for a, b in zip(s["ks"], s["vs"]):
            leaves(a, acc)
            leaves(b, acc)
    else:
        acc.append(s)
    return acc


def show(s):
    k = s["k"]
    if k in ("coll", "val", "lazy"):
        return {"coll": "c", "val": "v", "lazy": "L"}[k] + str(s["c"])
    if k == "plain":
        return str(s["pv"])
    if k == "pstr":
        return repr(s["ps"])
    if "xs" in s:
        return "%s(%s)" % (k, ", ".join(show(x) for x in s["xs"]))
    if "vs" in s:
        return "%s{%s}" % (k, ", ".join("%s: %s" % (show(a), show(b)) for a, b in zip(s["ks"], s["vs"])))
    return "?%s" % s.get("s", k)
