"""Uninterpreted ("Herbrand") task functions and the Python twin of specs/common/Terms.tla.

A task function is ``Fn(label)``: calling it returns the *term* ``Term(label, args)``, so the value a
key computes IS the term that denotes it (DESIGN 1.3).  ``Fn`` is a small picklable callable class -
never a bare string (a string equal to a key would be read as a reference by the legacy graph
semantics) and not a ``functools.partial`` (``dask.optimization.functions_of`` unwraps partials, which
would make every task share one function).

Graphs in *spec form* are the JSON shape of Terms.tla::

    {key: {"kind": "task"|"data"|"alias", "f": label, "args": [arg, ...]}}
    arg = {"t": "ref", "k": key} | {"t": "lit", "v": int} | {"t": "list", "xs": [arg..]}
        | {"t": "call", "f": label, "xs": [arg..]} | {"t": "dict", "ks": [str..], "xs": [arg..]}

``norm`` converts any Python value into the tagged JSON shape of the specification's values
(``{"t": "app", "f": .., "a": [..]}``, ``{"t": "lit", "v": ..}``, ``{"t": "list", "xs": [..]}`` ...), and
``denote`` is the Python twin of ``Denote`` (used as a cross-check of the TLC export and as a size guard
for generated graphs; verdicts come from TLC).
"""
from __future__ import annotations


class Term:
    """The value of an uninterpreted function application."""
    __slots__ = ("f", "a", "kw")

    def __init__(self, f, a=(), kw=()):
        self.f = f
        self.a = tuple(a)
        self.kw = tuple(kw)

    def __eq__(self, other):
        return type(other) is Term and self.f == other.f and self.a == other.a and self.kw == other.kw

    def __ne__(self, other):
        return not self == other

    def __hash__(self):
        return hash(("Term", self.f, len(self.a)))

    def __repr__(self):
        parts = [repr(x) for x in self.a] + ["%s=%r" % kv for kv in self.kw]
        return "%s(%s)" % (self.f, ", ".join(parts))

    def __reduce__(self):
        return (Term, (self.f, self.a, self.kw))


class Fn:
    """Uninterpreted function symbol: Fn('f1')(x, y) == Term('f1', (x, y))."""
    __slots__ = ("label",)

    def __init__(self, label):
        self.label = label

    def __call__(self, *args, **kwargs):
        return Term(self.label, args, tuple(sorted(kwargs.items())))

    def __eq__(self, other):
        return type(other) is Fn and self.label == other.label

    def __ne__(self, other):
        return not self == other

    def __hash__(self):
        return hash(("Fn", self.label))

    def __repr__(self):
        return "Fn(%r)" % (self.label,)

    def __reduce__(self):
        return (Fn, (self.label,))

    def __dask_tokenize__(self):
        return ("herbrand.Fn", self.label)


def mk(label, *args):
    """mk(label, *args) = the term label(args) (the function of DESIGN 1.3)."""
    return Term(label, args)


# ---------------------------------------------------------------- values -> spec JSON
def _sortkey(j):
    import json
    return json.dumps(j, sort_keys=True)


def norm(v):
    """Python value -> tagged JSON value of Terms.tla.  Total: unknown objects become t="other"."""
    if isinstance(v, Term):
        out = {"t": "app", "f": v.f, "a": [norm(x) for x in v.a]}
        if v.kw:
            out["kw"] = [[k, norm(x)] for k, x in v.kw]
        return out
    if isinstance(v, bool):
        return {"t": "other", "s": repr(v)}
    if isinstance(v, int):
        return {"t": "lit", "v": v} if abs(v) < 2 ** 30 else {"t": "other", "s": repr(v)}
    if isinstance(v, str):
        return {"t": "str", "s": v}
    if type(v) is list:
        return {"t": "list", "xs": [norm(x) for x in v]}
    if type(v) is tuple:
        return {"t": "tuple", "xs": [norm(x) for x in v]}
    if isinstance(v, (set, frozenset)):
        return {"t": "set", "els": sorted((norm(x) for x in v), key=_sortkey)}
    if type(v) is dict:
        return {"t": "dict", "kv": sorted(([norm(k), norm(x)] for k, x in v.items()), key=_sortkey)}
    return {"t": "other", "s": "%s:%s" % (type(v).__name__, repr(v)[:80])}


def canon(j):
    """Canonical form of a JSON value for comparison in Python (sets / dicts exported by TLC come
    in TLC's order)."""
    if isinstance(j, dict):
        t = j.get("t")
        if t == "set":
            return {"t": "set", "els": sorted((canon(x) for x in j["els"]), key=_sortkey)}
        if t == "dict":
            return {"t": "dict", "kv": sorted(([canon(k), canon(x)] for k, x in j["kv"]), key=_sortkey)}
        return {k: canon(x) for k, x in j.items()}
    if isinstance(j, list):
        return [canon(x) for x in j]
    return j


# ---------------------------------------------------------------- Python twin of Terms.tla
def arg_refs(a, acc=None):
    acc = set() if acc is None else acc
    t = a["t"]
    if t == "ref":
        acc.add(a["k"])
    elif t in ("list", "call", "dict"):
        for x in a["xs"]:
            arg_refs(x, acc)
    return acc


def refs(node):
    acc = set()
    for a in node["args"]:
        arg_refs(a, acc)
    return acc


def depmap(g):
    return {k: refs(n) for k, n in g.items()}


def needed(g, keys):
    D = depmap(g)
    seen, work = set(), list(keys)
    while work:
        k = work.pop()
        if k in seen:
            continue
        seen.add(k)
        work.extend(D.get(k, ()))
    return seen


def denote(g, k, memo=None):
    memo = {} if memo is None else memo
    if k in memo:
        return memo[k]
    n = g[k]
    if n["kind"] == "task":
        v = {"t": "app", "f": n["f"], "a": [denote_arg(g, a, memo) for a in n["args"]]}
    elif n["kind"] == "data":
        v = denote_arg(g, n["args"][0], memo)
    else:
        v = denote(g, n["args"][0]["k"], memo)
    memo[k] = v
    return v


def denote_arg(g, a, memo):
    t = a["t"]
    if t == "ref":
        return denote(g, a["k"], memo)
    if t == "lit":
        return {"t": "lit", "v": a["v"]}
    if t == "list":
        return {"t": "list", "xs": [denote_arg(g, x, memo) for x in a["xs"]]}
    if t == "call":
        return {"t": "app", "f": a["f"], "a": [denote_arg(g, x, memo) for x in a["xs"]]}
    if t == "dict":
        return canon({"t": "dict", "kv": [[{"t": "str", "s": k}, denote_arg(g, x, memo)] for k, x in zip(a["ks"], a["xs"])]})
    raise ValueError(a)


def term_size(g):
    """Number of nodes of the largest denoted term (unshared), without building it."""
    memo = {}

    def sz_arg(a):
        t = a["t"]
        if t == "ref":
            return sz(a["k"])
        if t == "lit":
            return 1
        return 1 + sum(sz_arg(x) for x in a["xs"])

    def sz(k):
        if k not in memo:
            n = g[k]
            if n["kind"] == "alias":
                memo[k] = sz(n["args"][0]["k"])
            else:
                memo[k] = 1 + sum(sz_arg(a) for a in n["args"])
        return memo[k]

    return max(sz(k) for k in g) if g else 0


# ---------------------------------------------------------------- key styles
def key_map(names, style="str"):
    """Map specification key names ("k1", "k2", ...) to Python dask keys."""
    out = {}
    for nm in names:
        i = int(nm[1:])
        if style == "str":
            out[nm] = nm
        elif style == "tup":
            out[nm] = ("k", i)
        elif style == "mix":
            out[nm] = ("k", i) if i % 2 == 0 else nm
        elif style == "hex":
            out[nm] = "nm%d-%08x" % (i, 0xa1b2c3d0 + i)
        elif style == "tup2":
            out[nm] = ("nm%d-%08x" % (i % 2, 0xa1b2c3d0), i, 0)
        else:
            raise ValueError(style)
    return out


def key_name(inv, k):
    """Python key -> specification name; keys the optimizer invented get a fresh printable name."""
    try:
        nm = inv.get(k)
    except TypeError:
        nm = None
    return nm if nm is not None else "new:" + repr(k)


# ---------------------------------------------------------------- builders
def legacy_arg(a, K):
    t = a["t"]
    if t == "ref":
        return K[a["k"]]
    if t == "lit":
        return a["v"]
    if t == "list":
        return [legacy_arg(x, K) for x in a["xs"]]
    if t == "call":
        return (Fn(a["f"]),) + tuple(legacy_arg(x, K) for x in a["xs"])
    if t == "dict":
        return {k: legacy_arg(x, K) for k, x in zip(a["ks"], a["xs"])}
    raise ValueError(a)


def legacy_node(n, K):
    if n["kind"] == "task":
        return (Fn(n["f"]),) + tuple(legacy_arg(a, K) for a in n["args"])
    return legacy_arg(n["args"][0], K)       # data: the literal; alias: the target key


def legacy_graph(g, K, order=None):
    """Spec-form graph -> legacy tuple graph {pykey: (Fn, args...) | literal | key}."""
    return {K[k]: legacy_node(g[k], K) for k in (order or sorted(g))}


def ts_arg(a, K, refstyle="taskref"):
    from dask._task_spec import Alias, Dict, List, Task, TaskRef
    t = a["t"]
    if t == "ref":
        return TaskRef(K[a["k"]]) if refstyle == "taskref" else Alias(K[a["k"]])
    if t == "lit":
        return a["v"]
    if t == "list":
        return List(*[ts_arg(x, K, refstyle) for x in a["xs"]])
    if t == "call":
        return Task(None, Fn(a["f"]), *[ts_arg(x, K, refstyle) for x in a["xs"]])
    if t == "dict":
        return Dict({k: ts_arg(x, K, refstyle) for k, x in zip(a["ks"], a["xs"])})
    raise ValueError(a)


def ts_node(k, n, K, refstyle="taskref"):
    from dask._task_spec import Alias, DataNode, Task
    if n["kind"] == "task":
        return Task(K[k], Fn(n["f"]), *[ts_arg(a, K, refstyle) for a in n["args"]])
    if n["kind"] == "alias":
        return Alias(K[k], K[n["args"][0]["k"]])
    a = n["args"][0]
    if arg_refs(a):
        raise ValueError("a data node holds a literal; build nodes that mention keys as tasks")
    return DataNode(K[k], legacy_arg(a, K))


def ts_graph(g, K, order=None, refstyle="taskref"):
    """Spec-form graph -> {pykey: Task | DataNode | Alias}."""
    return {K[k]: ts_node(k, g[k], K, refstyle) for k in (order or sorted(g))}


# ---------------------------------------------------------------- projection of a real graph
def node_refs(v):
    """Keys referenced by the value of one graph entry - an independent walk (legacy tuples: every
    non-integer atom is a reference, because Herbrand graphs only contain integer literals;
    task objects: TaskRef / Alias / nested nodes)."""
    from dask._task_spec import Alias, DataNode, GraphNode, Task, TaskRef
    acc = set()

    def walk(x):
        if isinstance(x, TaskRef):
            acc.add(x.key)
        elif isinstance(x, Alias):
            acc.add(x.target)
        elif isinstance(x, DataNode):
            pass
        elif isinstance(x, Task):
            for a in x.args:
                if isinstance(a, (GraphNode, TaskRef)):
                    walk(a)
            for a in x.kwargs.values():
                if isinstance(a, (GraphNode, TaskRef)):
                    walk(a)
        elif isinstance(x, GraphNode):
            acc.update(x.dependencies)
        elif type(x) is tuple and x and callable(x[0]):
            for a in x[1:]:
                walk(a)
        elif type(x) is list:
            for a in x:
                walk(a)
        elif type(x) is dict:
            for a in x.values():
                walk(a)
        elif isinstance(x, (str, tuple)):
            acc.add(x)
        # ints and anything else: literal

    walk(v)
    return acc


def project(g2, inv):
    """(dom, refs) of a returned graph in specification key names."""
    dom = [key_name(inv, k) for k in g2]
    rf = {key_name(inv, k): sorted({key_name(inv, r) for r in node_refs(v)}) for k, v in g2.items()}
    return dom, rf


def project_deps(deps, inv):
    return {key_name(inv, k): sorted({key_name(inv, d) for d in v}) for k, v in deps.items()}


# ---------------------------------------------------------------- generated graphs
def random_graph(rng, n, max_size=300, p_list=0.2, p_call=0.15, p_dict=0.12):
    """Seeded random spec-form DAG with n nodes in topological numbering, biased towards the
    shapes the optimizers care about (chains, diamonds, shared and repeated dependencies,
    aliases, constants)."""
    while True:
        g = {}
        for i in range(1, n + 1):
            k = "k%d" % i
            prev = ["k%d" % j for j in range(1, i)]

            def pick():
                r = rng.random()
                if prev and r < 0.55:
                    return prev[-1] if rng.random() < 0.5 else rng.choice(prev[-4:])
                if prev and r < 0.8:
                    return rng.choice(prev)
                return None

            r = rng.random()
            if r < 0.12 or not prev and r < 0.4:
                g[k] = {"kind": "data", "f": "", "args": [{"t": "lit", "v": 10 + i}]}
            elif prev and r < 0.24:
                g[k] = {"kind": "alias", "f": "", "args": [{"t": "ref", "k": rng.choice(prev[-3:])}]}
            else:
                args = []
                for _ in range(rng.choice([0, 1, 1, 1, 2, 2, 3]) if prev else rng.choice([0, 1])):
                    t = pick()
                    args.append({"t": "ref", "k": t} if t else {"t": "lit", "v": i})
                if args and rng.random() < p_list:
                    cut = rng.randrange(len(args))
                    args = args[:cut] + [{"t": "list", "xs": args[cut:]}]
                elif args and rng.random() < p_call:
                    cut = rng.randrange(len(args))
                    args = args[:cut] + [{"t": "call", "f": "g%d" % i, "xs": args[cut:]}]
                elif args and rng.random() < p_dict:
                    cut = rng.randrange(len(args))
                    args = args[:cut] + [{"t": "dict", "ks": ["p", "q", "r"][:len(args) - cut], "xs": args[cut:]}]
                g[k] = {"kind": "task", "f": "f%d" % i, "args": args}
        if term_size(g) <= max_size:
            return g


# ---------------------------------------------------------------- TaskSpec.tla expressions (C08 / C11)
def to_py(v):
    """Tagged JSON value -> the Python object it stands for (inverse of norm on its image)."""
    t = v["t"]
    if t == "lit":
        return v["v"]
    if t == "str":
        return v["s"]
    if t == "tuple":
        return tuple(to_py(x) for x in v["xs"])
    if t == "list":
        return [to_py(x) for x in v["xs"]]
    if t == "set":
        return {to_py(x) for x in v["els"]}
    if t == "dict":
        return {to_py(k): to_py(x) for k, x in v["kv"]}
    if t == "app":
        return Term(v["f"], [to_py(x) for x in v["a"]], [(k, to_py(x)) for k, x in v.get("kw", [])])
    raise ValueError(v)


def legacy_expr(x):
    """Expression of TaskSpec.tla -> legacy graph value."""
    from dask.core import literal
    e = x["e"]
    if e == "atom":
        return to_py(x["a"])
    if e == "quote":
        return (literal(to_py(x["v"])),)
    if e == "call":
        if x.get("kw"):
            raise ValueError("legacy calls have no keyword arguments")
        return (Fn(x["f"]),) + tuple(legacy_expr(y) for y in x["xs"])
    if e == "list":
        return [legacy_expr(y) for y in x["xs"]]
    if e == "tuple":
        return tuple(legacy_expr(y) for y in x["xs"])
    if e == "set":
        return {legacy_expr(y) for y in x["xs"]}
    if e == "dict":
        return {k: legacy_expr(y) for k, y in zip(x["ks"], x["xs"])}
    raise ValueError(x)


def ts_expr(x, key=None, rng=None, top=False):
    """Expression of TaskSpec.tla -> task object (Task / Alias / DataNode / containers / plain literal).
    rng picks among equivalent spellings (TaskRef vs Alias, Dict constructor forms, DataNode-wrapped literals):
    a random.Random picks per occurrence, an int picks one spelling uniformly for the whole node."""
    from dask._task_spec import Alias, DataNode, Dict, List, Set, Task, TaskRef, Tuple
    if rng is None:
        pick = lambda seq: seq[0]
    elif isinstance(rng, int):
        pick = lambda seq: seq[rng % len(seq)]
    else:
        pick = lambda seq: rng.choice(seq)
    e = x["e"]
    if e == "ref":
        k = to_py(x["k"])
        if top:
            return Alias(key, k)
        return pick([TaskRef, Alias])(k)
    if e == "quote":
        raw = to_py(x["v"])
        if top:
            return DataNode(key, raw)
        return pick([raw, raw, DataNode(None, raw)])
    sub = [ts_expr(y, None, rng) for y in x["xs"]]
    if e == "call":
        kw = {name: ts_expr(y, None, rng) for name, y in x.get("kw", [])}
        return Task(key, Fn(x["f"]), *sub, **kw)
    if e in ("list", "tuple", "set"):
        cls, klass = {"list": (List, list), "tuple": (Tuple, tuple), "set": (Set, set)}[e]
        if len(sub) == 1 and isinstance(sub[0], klass):
            # List(x) with a single raw list x means "the elements of x" in the constructor's
            # convention: a one-element container holding x is spelled List([x])
            return cls(klass([sub[0]])) if klass is not set else cls(*sub)
        return cls(*sub)
    if e == "dict":
        how = pick(["flat", "dict", "pairs"]) if sub else "flat"
        if how == "dict":
            return Dict(dict(zip(x["ks"], sub)))
        if how == "pairs":
            return Dict([[k, v] for k, v in zip(x["ks"], sub)])
        flat = []
        for k, v in zip(x["ks"], sub):
            flat += [k, v]
        return Dict(*flat)
    raise ValueError(x)
