"""In-memory source mutants for the binding self-tests (never touches /repo on disk).

`mutant(module, "func", old_text, new_text)` re-compiles the function's source with one textual
replacement inside the module's own namespace and installs it as the module attribute for the
duration of the `with` block.  Callers that look the function up through the module globals at
call time (the normal case) see the mutant.  Decorators are not re-applied (a function that is only
reachable through a dispatch registry cannot be mutated this way: the mutant would simply not be
detected, which the self-test reports)."""
from __future__ import annotations

import contextlib
import inspect
import textwrap

from .tlc import MachineryError


@contextlib.contextmanager
def mutant(module, func_name, old, new, count=1):
    orig = getattr(module, func_name)
    target = inspect.unwrap(orig)
    src = textwrap.dedent(inspect.getsource(target))
    # drop decorators: re-applying them could have lasting side effects (dispatch registries); the
    # ones on the functions mutated here only attach documentation
    lines = src.splitlines(keepends=True)
    start = next(i for i, ln in enumerate(lines) if ln.startswith(("def ", "async def ")))
    src = "".join(lines[start:])
    if src.count(old) < 1:
        raise MachineryError("mutant: text %r not found in %s.%s" % (old, module.__name__, func_name))
    msrc = src.replace(old, new, count)
    ns = {}
    code = compile(msrc, "<mutant of %s.%s>" % (module.__name__, func_name), "exec")
    glob = module.__dict__
    exec(code, glob, ns)       # definitions land in ns, globals resolve in the module
    fn = ns[target.__name__]
    setattr(module, func_name, fn)
    try:
        yield fn
    finally:
        setattr(module, func_name, orig)


@contextlib.contextmanager
def replaced(module, name, value):
    orig = getattr(module, name)
    setattr(module, name, value)
    try:
        yield
    finally:
        setattr(module, name, orig)
