"""Shared helpers for the graph-algorithm drivers (C06, C07, ...): building real dask graphs from
the abstract graphs of specs/common/Graphs.tla (keys 1..n, dependency sets), a CPU-time guard
that turns a non-terminating dask call into an observation, and seeded random graph generators.

An abstract graph is `deps`: a list of n lists; deps[i] holds the (1-based) keys node i+1 refers
to; numbers > n are references to keys outside the graph."""
from __future__ import annotations

import signal


class Hang(BaseException):
    """Raised inside a guarded call when it does not return in time (BaseException so that no
    `except Exception` inside dask swallows it)."""


def _on_alarm(signum, frame):
    raise Hang()


def guarded(fn, seconds=0.2, confirm=0.6):
    """Run fn() under a CPU-time limit; a call that exceeds it is run a second time under the
    larger limit `confirm` and only reported as "hang" if it exceeds that too (a garbage
    collection or a cold import inside the first attempt cannot fake a hang).  fn must therefore
    be repeatable.  See _guarded1."""
    r = _guarded1(fn, seconds)
    if r[0] == "hang" and confirm:
        r = _guarded1(fn, confirm)
    return r


def prepare_fork():
    """Call in the parent before a fork-based pmap: moves everything allocated so far out of the
    reach of the cyclic GC, so that a full collection in a worker does not touch (and copy) the
    whole inherited heap in the middle of a guarded call."""
    import gc
    gc.collect()
    gc.freeze()


def _guarded1(fn, seconds):
    """Run fn() under a CPU-time limit.  Returns ("ok", value) | ("raised", exc) | ("hang", None).
    The limit counts the CPU time of this process only (ITIMER_VIRTUAL), so a loaded machine cannot
    fake a hang; it is a termination guard for pure computations (orders of magnitude above their
    normal cost), never a performance judgement.  Must be called from the main thread of the
    (possibly forked) process."""
    old = signal.signal(signal.SIGVTALRM, _on_alarm)
    signal.setitimer(signal.ITIMER_VIRTUAL, seconds)
    try:
        try:
            v = fn()
            signal.setitimer(signal.ITIMER_VIRTUAL, 0)
            return "ok", v
        except Hang:
            return "hang", None
        except Exception as ex:  # noqa: BLE001 - every exception of dask is an observation
            signal.setitimer(signal.ITIMER_VIRTUAL, 0)
            return "raised", ex
    except Hang:             # alarm fired between the inner handlers
        return "hang", None
    finally:
        signal.setitimer(signal.ITIMER_VIRTUAL, 0)
        signal.signal(signal.SIGVTALRM, old)


def fn(*args):
    """The function of every generated task (never executed by the ordering / sorting code)."""
    return 0


# ------------------------------------------------------------------ naming
def names_for(n, style, perm=None):
    """Key objects for the abstract keys 1..n+2 (the last two are the external keys).
    style: "str" (a, b, ...), "kstr" (k01, ...), "tuple" (("x", i)), "int" (100 + i).
    perm (a permutation of range(n)) scrambles which name a node gets, so that dask's
    name-based tie breaks are not aligned with the topological numbering."""
    m = n + 2
    if style == "str":
        base = [chr(97 + i) if i < 26 else "z%d" % i for i in range(m)]
    elif style == "kstr":
        base = ["k%02d" % i for i in range(m)]
    elif style == "tuple":
        base = [("x", i) for i in range(m)]
    elif style == "int":
        base = [100 + i for i in range(m)]
    else:
        raise ValueError(style)
    if perm is not None:
        base = [base[p] for p in perm] + base[n:]
    return base


def thaw(name):
    """names survive a JSON round trip as lists; turn them back into tuples"""
    return tuple(name) if isinstance(name, list) else name


# ------------------------------------------------------------------ building
DATA = 0.5        # the literal of plain data nodes (never equal to a key)


def build(deps, kinds, names, form, insert=None, alias1="alias"):
    """Real dask graph for the abstract graph.

    kinds[i]: "t" task | "p" plain (no dependency: data literal; one dependency: alias, or a
    one-element list if alias1 == "list"; several: a list of keys).
    form: "legacy"   dict of tuples / literals / key strings / lists (no external references: a
                     name that is not a key is just a literal there)
          "taskspec" Task / DataNode / Alias objects (what convert_legacy_graph produces for the
                     plain nodes), external references as TaskRef
          "mixed"    Task objects for tasks, legacy values for plain nodes
    insert: order in which the keys are inserted into the dict (permutation of range(n))."""
    from dask._task_spec import DataNode, GraphNode, Task, TaskRef, convert_legacy_task
    n = len(deps)
    names = [thaw(x) for x in names]
    keyset = set(names[:n])
    nodes = {}
    for i in range(n):
        ds = [names[d - 1] for d in deps[i]]
        inner = [x for d, x in zip(deps[i], ds) if d <= n]
        if kinds[i] == "t":
            if form == "legacy":
                nodes[i] = (fn,) + tuple(inner)
            else:
                nodes[i] = Task(names[i], fn, *[TaskRef(x) for x in ds])
        else:
            if not inner:
                v = DATA
            elif len(inner) == 1 and alias1 == "alias":
                v = inner[0]
            else:
                v = list(inner)
            if form == "taskspec":
                v = convert_legacy_task(names[i], v, keyset)
                if not isinstance(v, GraphNode):
                    v = DataNode(names[i], v)
            nodes[i] = v
    dsk = {}
    for i in (insert if insert is not None else range(n)):
        dsk[names[i]] = nodes[i]
    return dsk


def has_cycle(deps):
    """reference guard for IsDag of Graphs.tla (Kahn peeling), independent of dask"""
    n = len(deps)
    left = set(range(1, n + 1))
    while True:
        r = {k for k in left if not (set(deps[k - 1]) & left)}
        if not r:
            return bool(left)
        left -= r


# ------------------------------------------------------------------ random graphs
def random_dag(rng, n, p=None, max_arity=None):
    """deps in canonical numbering: node i refers to nodes < i"""
    p = rng.choice([0.1, 0.2, 0.35, 0.6]) if p is None else p
    deps = []
    for i in range(1, n + 1):
        ds = [j for j in range(1, i) if rng.random() < p]
        if max_arity is not None and len(ds) > max_arity:
            ds = sorted(rng.sample(ds, max_arity))
        deps.append(ds)
    return deps


def layered_dag(rng, width, depth):
    """array-shaped graph: `width` roots, elementwise layers, then a tree reduction"""
    deps, prev = [], []
    for _ in range(width):
        deps.append([])
        prev.append(len(deps))
    for _ in range(depth):
        cur = []
        shift = rng.choice([0, 0, 1])          # 1: each block also needs its neighbour (overlap)
        for j, k in enumerate(prev):
            ds = {k}
            if shift and j + 1 < len(prev):
                ds.add(prev[j + 1])
            deps.append(sorted(ds))
            cur.append(len(deps))
        prev = cur
    split = rng.choice([2, 3])
    while len(prev) > 1:
        cur = []
        for lo in range(0, len(prev), split):
            deps.append(sorted(prev[lo:lo + split]))
            cur.append(len(deps))
        prev = cur
    return deps


def random_digraph(rng, n, p=None):
    p = rng.choice([0.05, 0.1, 0.2, 0.4]) if p is None else p
    return [[j for j in range(1, n + 1) if rng.random() < p] for _ in range(n)]


def add_back_edges(rng, deps, k=1):
    """make a DAG in canonical numbering cyclic: add k edges from a node to a later node or itself"""
    n = len(deps)
    deps = [list(d) for d in deps]
    for _ in range(k):
        i = rng.randint(1, n)
        j = rng.randint(i, n)
        if j not in deps[i - 1]:
            deps[i - 1].append(j)
    return [sorted(d) for d in deps]


def abstract_of(dsk):
    """Abstract graph of a real Task-object graph (used for graphs taken from collections):
    returns (keys list, deps) with external references numbered after the keys.  The dependency
    sets are read from GraphNode.dependencies (trusted, see C08 for that property)."""
    keys = list(dsk)
    index = {k: i + 1 for i, k in enumerate(keys)}
    ext = {}
    deps = []
    for k in keys:
        ds = []
        for d in dsk[k].dependencies:
            if d in index:
                ds.append(index[d])
            else:
                ds.append(ext.setdefault(d, len(keys) + 1 + len(ext)))
        deps.append(sorted(ds))
    return keys, deps, list(ext)
