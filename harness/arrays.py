"""Observation of a dask array the way the array specifications talk about it:
lazy shape / chunks / dtype, every block computed through its own key, the
assembled content.  Used by all Pattern-C array drivers."""
from __future__ import annotations

import itertools
import math

import numpy as np


def _nan_to(x, v=-1):
    try:
        return v if (isinstance(x, float) and math.isnan(x)) else int(x)
    except (TypeError, ValueError):
        return v


def id_array(shape, dtype="i8"):
    """Source array whose cells are their own row-major position."""
    n = int(np.prod(shape)) if len(shape) else 1
    return np.arange(n, dtype=dtype).reshape(tuple(shape))


def compute_blocks(y, whole_too=False):
    """Return (blocks: dict block-index -> ndarray, whole or None).  Blocks are computed through
    the collection's own keys after dask's normal optimization, on the synchronous scheduler."""
    import dask
    from dask.local import get_sync
    (yo,) = dask.optimize(y)
    keys = yo.__dask_keys__()
    flat = list(_flatten(keys))
    vals = get_sync(dict(yo.__dask_graph__()), flat)
    blocks = {}
    for k, v in zip(flat, vals):
        blocks[tuple(k[1:])] = np.asarray(v) if not isinstance(v, np.ma.MaskedArray) else v
    whole = y.compute(scheduler="sync") if whole_too else None
    return blocks, whole


def _flatten(keys):
    if isinstance(keys, list):
        for k in keys:
            yield from _flatten(k)
    else:
        yield keys


def assemble(blocks, numblocks):
    """Concatenate blocks (dict index -> ndarray) along every axis in block order."""
    nd = len(numblocks)
    if nd == 0:
        return np.asarray(blocks[()])

    def rec(prefix, axis):
        if axis == nd:
            return blocks[tuple(prefix)]
        parts = [rec(prefix + [i], axis + 1) for i in range(numblocks[axis])]
        return np.concatenate(parts, axis=axis) if parts else None
    return rec([], 0)


def observe(y, whole_too=False):
    """Projection of a dask array to the specification's observation record."""
    lshape = [_nan_to(s) for s in y.shape]
    chunks = [[_nan_to(c) for c in ax] for ax in y.chunks]
    blocks, whole = compute_blocks(y, whole_too)
    numblocks = tuple(len(c) for c in y.chunks)
    blocksok = set(blocks) == set(itertools.product(*[range(n) for n in numblocks]))
    if blocksok:
        for idx, b in blocks.items():
            if b.ndim != len(numblocks):
                blocksok = False
                break
            for d, i in enumerate(idx):
                c = chunks[d][i]
                if c >= 0 and b.shape[d] != c:
                    blocksok = False
    full = assemble(blocks, numblocks) if set(blocks) == set(itertools.product(*[range(n) for n in numblocks])) else None
    obs = {
        "lshape": lshape,
        "chunks": chunks,
        "cshape": list(full.shape) if full is not None else [],
        "blocksok": bool(blocksok),
        "kind": np.dtype(y.dtype).kind,
        "raised": "",
    }
    if whole is not None:
        w = np.asarray(whole)
        if full is None or w.shape != full.shape or not _same(w, full):
            obs["blocksok"] = False     # whole-array compute disagrees with the per-block assembly
    return obs, full


def _same(a, b):
    try:
        return bool(np.array_equal(a, b, equal_nan=True))
    except TypeError:
        return bool(np.array_equal(a, b))


def raised(exc):
    return {"lshape": [], "chunks": [], "cshape": [], "blocksok": True, "kind": "", "raised": type(exc).__name__}


def cells(a):
    return [int(v) for v in np.asarray(a).ravel()]


def py_chunks(chunks):
    return tuple(tuple(int(c) for c in ax) for ax in chunks)
