"""Fork-based parallel map for the Python side of the replay (dask is imported once in the parent)."""
from __future__ import annotations

import multiprocessing as mp
import os

_FN = None


def _call(chunk):
    return [_FN(x) for x in chunk]


def pmap(fn, items, procs=None, chunk=64):
    """Ordered map.  fn must be a module-level function or closure created before the fork."""
    global _FN
    items = list(items)
    procs = procs or int(os.environ.get("VERIF_PROCS", "14"))
    if procs <= 1 or len(items) < 2 * chunk:
        return [fn(x) for x in items]
    _FN = fn
    chunks = [items[i:i + chunk] for i in range(0, len(items), chunk)]
    ctx = mp.get_context("fork")
    with ctx.Pool(min(procs, len(chunks))) as pool:
        out = []
        for part in pool.imap(_call, chunks):
            out.extend(part)
    _FN = None
    return out
