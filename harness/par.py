"""Fork-based parallel map for the Python side of the replay (dask is imported once in the parent)."""
from __future__ import annotations

import multiprocessing as mp
import os

_FN = None


def _call(chunk):
    return [_FN(x) for x in chunk]


def pmap(fn, items, procs=None, chunk=64, always=False):
    """Ordered map.  fn must be a module-level function or closure created before the fork.
    Small inputs run inline unless always=True - use that when fn starts threads (thread pools
    created in the parent would be dead in children forked later)."""
    global _FN
    items = list(items)
    if not items:
        return []
    procs = procs or int(os.environ.get("VERIF_PROCS", "14"))
    if procs <= 1 or (not always and len(items) < 2 * chunk):
        return [fn(x) for x in items]
    chunk = max(1, min(chunk, (len(items) + procs - 1) // procs))
    _FN = fn
    chunks = [items[i:i + chunk] for i in range(0, len(items), chunk)]
    ctx = mp.get_context("fork")
    with ctx.Pool(min(procs, len(chunks))) as pool:
        out = []
        for part in pool.imap(_call, chunks):
            out.extend(part)
    _FN = None
    return out
