"""Python side of the LocalScheduler specification (C01-C04, C05, C52):

* the configuration universe (abstract graphs -> JSON records for TLC, with the REAL dask.order
  priorities) and its concretisation as legacy / task-spec dask graphs over Herbrand functions;
* the controlled executor that drives dask.local.get_async deterministically under any
  completion order chosen by a model behaviour;
* the recorder (callbacks -> projected scheduler state) and the comparison with model logs;
* recording of real pool runs (threads / executors) as traces for LocalSchedulerTrace.tla.
Nothing in /repo is modified: observation goes through the public callback protocol."""
from __future__ import annotations

import itertools
import json
import threading
import time
from concurrent.futures import Future
from functools import partial

# --------------------------------------------------------------------------- Herbrand functions

_EXEC_LOCK = threading.Lock()
EXEC_LOG = []           # labels of executed task functions (in-process executors only)
_SLEEP = {}             # label -> seconds (threaded runs)
_TRACE = None           # list to which ("exec", key) is appended under _EXEC_LOCK


def fmt(v):
    if isinstance(v, str):
        return v
    if isinstance(v, (list, tuple)):
        return "[" + ",".join(fmt(x) for x in v) + "]"
    if isinstance(v, dict):
        return "{" + ",".join("%s:%s" % (fmt(k), fmt(x)) for k, x in sorted(v.items())) + "}"
    return repr(v)


def mk(label, *args):
    """Uninterpreted task function: the value IS the term."""
    d = _SLEEP.get(label)
    if d:
        time.sleep(d)
    with _EXEC_LOCK:
        EXEC_LOG.append(label)
        if _TRACE is not None:
            _TRACE.append({"e": "exec", "k": int(label[1:])})
    return label + "(" + ",".join(fmt(a) for a in args) + ")"


class Boom(Exception):
    pass


class BaseBoom(BaseException):
    pass


class UnpicklableBoom(Exception):
    def __init__(self, msg):
        super().__init__(msg)
        self.lock = threading.Lock()      # cannot be pickled


def _twin(base):
    # two different exception classes that share their __name__ (as two packages may do)
    return type("TaskError", (base,), {"__module__": "harness.sched_twin_" + base.__name__})


TwinA = _twin(ValueError)
TwinB = _twin(LookupError)


def _restore_twin(which, msg):
    return (TwinA if which == "A" else TwinB)(msg)


# picklable although created dynamically
TwinA.__reduce__ = lambda self: (_restore_twin, ("A", str(self)))
TwinB.__reduce__ = lambda self: (_restore_twin, ("B", str(self)))

FAIL_KINDS = {"exc": Boom, "base": BaseBoom, "unpicklable": UnpicklableBoom, "value": ValueError,
              "twin_a": TwinA, "twin_b": TwinB}


def boom(label, kind, *args):
    d = _SLEEP.get(label)
    if d:
        time.sleep(d)
    with _EXEC_LOCK:
        EXEC_LOG.append(label)
        if _TRACE is not None:
            _TRACE.append({"e": "exec", "k": int(label[1:])})
    raise FAIL_KINDS[kind]("boom " + label)


_RUNS = {}      # run id -> {"events": list, "sleep": {label: seconds}}  (threaded runs)


def _run_log(rid, label):
    """Threaded runs: log into the event list of the run that created the function.  A worker thread
    that is still busy after its scheduler call raised must not write into the next run's trace."""
    run = _RUNS.get(rid)
    if run is None:
        return
    d = run["sleep"].get(label)
    if d:
        time.sleep(d)
    with _EXEC_LOCK:
        if _RUNS.get(rid) is run:
            run["events"].append({"e": "exec", "k": int(label[1:])})


def mkr(rid, label, *args):
    _run_log(rid, label)
    return label + "(" + ",".join(fmt(a) for a in args) + ")"


def boomr(rid, label, kind, *args):
    _run_log(rid, label)
    raise FAIL_KINDS[kind]("boom " + label)


def key(k):
    return "k%d" % k


# --------------------------------------------------------------------------- configurations

def _arg_refs(a):
    if "r" in a:
        return {a["r"]}
    if "x" in a:
        out = set()
        for y in a["x"]:
            out |= _arg_refs(y)
        return out
    return set()


def deps_of(cfg, k):
    out = set()
    for a in cfg["nodes"][k - 1]["args"]:
        out |= _arg_refs(a)
    return out


def req_keys(r):
    if "k" in r:
        return {r["k"]}
    out = set()
    for y in r["x"]:
        out |= req_keys(y)
    return out


def needed(cfg):
    seen, stack = set(), list(req_keys(cfg["req"]))
    while stack:
        k = stack.pop()
        if k in seen:
            continue
        seen.add(k)
        stack.extend(deps_of(cfg, k))
    return seen


def node_variants(i, layouts):
    """All nodes for key i (referring only to keys < i)."""
    out = [{"kind": "data", "args": [{"l": "D%d" % i}]}]
    for j in range(1, i):
        out.append({"kind": "alias", "args": [{"r": j}]})
    for r in range(0, i):
        for S in itertools.combinations(range(1, i), r):
            refs = [{"r": j} for j in S]
            for lay in layouts:
                if lay == "flat":
                    args = refs
                elif lay == "lit":
                    args = refs + [{"l": "L%d" % i}]
                elif lay == "nested":
                    if len(refs) < 1:
                        continue
                    args = refs[:-1] + [{"x": [refs[-1], {"l": "L%d" % i}]}] if len(refs) == 1 else refs[:-2] + [{"x": refs[-2:]}]
                elif lay == "rev":
                    if len(refs) < 2:
                        continue
                    args = refs[::-1]
                elif lay == "dup":
                    if len(refs) < 1:
                        continue
                    args = refs + [refs[0]]
                out.append({"kind": "task", "args": args})
    return out


def all_graphs(n, layouts=("flat", "lit", "nested")):
    per = [node_variants(i, layouts) for i in range(1, n + 1)]
    for combo in itertools.product(*per):
        yield list(combo)


def req_variants(n, rng=None, full=True):
    """Requested results: single keys, flat lists of every non-empty subset, a few nestings."""
    out = []
    for k in range(1, n + 1):
        out.append({"k": k})
    # requests whose flattened key set is EMPTY (collections without blocks): nothing is needed, nothing may run
    out.append({"x": []})
    if full:
        out.append({"x": [{"x": []}, {"x": []}]})
    for r in range(1, n + 1):
        for S in itertools.combinations(range(1, n + 1), r):
            out.append({"x": [{"k": k} for k in S]})
            if len(S) >= 2 and full:
                out.append({"x": [{"x": [{"k": S[0]}]}, {"x": [{"k": k} for k in S[1:]]}]})
                out.append({"x": [{"k": k} for k in S[::-1]]})
                # mixed nestings: a plain key next to a list, in both orders, and a deeper list
                out.append({"x": [{"k": S[0]}, {"x": [{"k": k} for k in S[1:]]}]})
                out.append({"x": [{"x": [{"k": k} for k in S[:-1]]}, {"k": S[-1]}]})
                out.append({"x": [{"k": S[0]}, {"x": [{"x": [{"k": k} for k in S[1:]]}, {"k": S[0]}]}]})
            if len(S) == 1 and full:
                out.append({"x": [{"x": []}, {"k": S[0]}]})
    return out


def real_graph(cfg, style="legacy", fail_kind="exc", rid=None):
    """Concrete dask graph for an abstract configuration (rid: see _run_log)."""
    fails = set(cfg.get("fails", []))

    def fn(k):
        if rid is not None:
            return partial(boomr, rid, key(k), fail_kind) if k in fails else partial(mkr, rid, key(k))
        return partial(boom, key(k), fail_kind) if k in fails else partial(mk, key(k))

    if style == "legacy":
        def arg(a):
            if "r" in a:
                return key(a["r"])
            if "l" in a:
                return a["l"]
            return [arg(y) for y in a["x"]]
        g = {}
        for i, nd in enumerate(cfg["nodes"], 1):
            if nd["kind"] == "data":
                g[key(i)] = nd["args"][0]["l"]
            elif nd["kind"] == "alias":
                g[key(i)] = key(nd["args"][0]["r"])
            else:
                g[key(i)] = (fn(i),) + tuple(arg(a) for a in nd["args"])
        return g
    from dask._task_spec import Alias, DataNode, List, Task, TaskRef

    def arg2(a):
        if "r" in a:
            return TaskRef(key(a["r"]))
        if "l" in a:
            return a["l"]
        return List(*[arg2(y) for y in a["x"]])
    g = {}
    for i, nd in enumerate(cfg["nodes"], 1):
        if nd["kind"] == "data":
            g[key(i)] = DataNode(key(i), nd["args"][0]["l"])
        elif nd["kind"] == "alias":
            g[key(i)] = Alias(key(i), key(nd["args"][0]["r"]))
        else:
            g[key(i)] = Task(key(i), fn(i), *[arg2(a) for a in nd["args"]])
    return g


def user_cache(cfg):
    """A caller-supplied cache= mapping left over from an earlier call: it still holds OLD values of
    literal keys of this graph (cfg["stale"]).  The graph's own literals must win."""
    return {key(k): "STALE%d" % k for k in cfg.get("stale", [])}


def real_request(r):
    if "k" in r:
        return key(r["k"])
    return [real_request(y) for y in r["x"]]


def pack(r, env):
    """nested_get result as the specification writes it."""
    if "k" in r:
        return env[key(r["k"])]
    return "<" + ",".join(pack(y, env) for y in r["x"]) + ">"


def fmt_result(req, value):
    if "k" in req:
        return fmt(value)
    if not isinstance(value, tuple) or len(value) != len(req["x"]):
        return "SHAPE-MISMATCH:" + repr(value)
    return "<" + ",".join(fmt_result(y, v) for y, v in zip(req["x"], value)) + ">"


def with_priorities(cfg):
    """Fill cfg['prio'] from the real dask.order.order (exactly as get_async computes it).
    Returns None when the priorities are not unique among needed keys (see C06 known finding)."""
    from dask._task_spec import convert_legacy_graph
    from dask.order import order
    g = convert_legacy_graph(real_graph(dict(cfg, fails=[]), "legacy"))
    o = order(g)
    prio = [int(o[key(k)]) for k in range(1, cfg["n"] + 1)]
    nd = needed(cfg)
    used = [prio[k - 1] for k in nd]
    if len(set(used)) != len(used):
        return None
    cfg = dict(cfg)
    cfg["prio"] = prio
    return cfg


# --------------------------------------------------------------------------- controlled executor

class Hang(Exception):
    """The main loop blocked with nothing in flight: the call would never return."""


class Diverged(Exception):
    """The real scheduler did not offer the batch the model behaviour completes next."""


class Controlled:
    """submit + queue_get replacement.  Batches are parked; when the scheduler blocks on an empty
    queue the next batch of `schedule` (identified by the key of its first task) is run."""

    def __init__(self, schedule=None, chooser=None):
        self.parked = []                 # (future, fn, args)
        self.schedule = list(schedule) if schedule is not None else None
        self.chooser = chooser           # fallback: function(list of head keys) -> index
        self.completed = []
        self.submitted = []              # batches as lists of keys, in submission order

    def submit(self, fn, *args, **kw):
        fut = Future()
        self.parked.append((fut, fn, args, kw))
        self.submitted.append([a[0] for a in args[0]])
        return fut

    def queue_get(self, q):
        if not q.empty():
            return q.get_nowait()
        if not self.parked:
            raise Hang("scheduler waits but nothing is in flight")
        heads = [p[2][0][0][0] for p in self.parked]
        if self.schedule is not None:
            if not self.schedule:
                raise Diverged("model behaviour ended but the scheduler still waits; parked=%r" % heads)
            want = key(self.schedule.pop(0))
            if want not in heads:
                raise Diverged("model completes batch %s next, scheduler has %r in flight" % (want, heads))
            i = heads.index(want)
        else:
            i = self.chooser(heads)
        fut, fn, args, kw = self.parked.pop(i)
        self.completed.append(heads[i])
        try:
            fut.set_result(fn(*args, **kw))
        except BaseException as e:  # noqa: BLE001 - what a real executor does
            fut.set_exception(e)
        return q.get_nowait()


def _k(x):
    return int(x[1:]) if isinstance(x, str) and x[:1] == "k" and x[1:].isdigit() else x


def project(state):
    """The scheduler state dict as the specification's Proj()."""
    def pairs(d):
        return sorted([[_k(a), sorted(_k(b) for b in bs)] for a, bs in d.items()])
    return {
        "ready": [_k(a) for a in state.get("ready", [])],
        "running": sorted(_k(a) for a in state.get("running", ())),
        "waiting": pairs(state.get("waiting", {})),
        "wdata": pairs(state.get("waiting_data", {})),
        "cache": sorted(_k(a) for a in state.get("cache", {})),
        "released": sorted(_k(a) for a in state.get("released", ())),
        "finished": sorted(_k(a) for a in state.get("finished", ())),
    }


def norm_model_state(s):
    return {
        "ready": list(s["ready"]),
        "running": sorted(s["running"]),
        "waiting": sorted([[p[0], sorted(p[1])] for p in s["waiting"]]),
        "wdata": sorted([[p[0], sorted(p[1])] for p in s["wdata"]]),
        "cache": sorted(s["cache"]),
        "released": sorted(s["released"]),
        "finished": sorted(s["finished"]),
    }


class Recorder:
    """Callback tuple that logs every scheduler event with the projected state."""

    def __init__(self, sink=None, lock=None):
        self.events = sink if sink is not None else []
        self.lock = lock
        self.nstart = 0
        self.nfinish = 0

    def _add(self, ev):
        if self.lock is not None:
            with self.lock:
                self.events.append(ev)
        else:
            self.events.append(ev)

    def start(self, dsk):
        self.nstart += 1

    def pretask(self, k, dsk, state):
        self._add({"e": "pre", "k": _k(k), "s": project(state)})

    def posttask(self, k, res, dsk, state, wid):
        self._add({"e": "post", "k": _k(k), "v": fmt(res), "s": project(state)})

    def finish(self, dsk, state, failed):
        self.nfinish += 1
        self._add({"e": "finish", "failed": bool(failed), "s": project(state)})

    def as_tuple(self):
        return (self.start, None, self.pretask, self.posttask, self.finish)


def run_controlled(cfg, schedule=None, chooser=None, style="legacy", fail_kind="exc"):
    """One real get_async call under the controlled executor.  Returns an observation dict."""
    global _TRACE
    import dask.local as L
    del EXEC_LOG[:]
    ctl = Controlled(schedule, chooser)
    rec = Recorder()
    _TRACE = rec.events              # task executions are logged into the same event stream
    g = real_graph(cfg, style, fail_kind)
    old = L.queue_get
    L.queue_get = ctl.queue_get
    obs = {"ret": None, "raised": None, "exc_type": "", "exc_msg": "", "hang": False, "diverged": ""}
    try:
        kw = {}
        if cfg.get("pack"):
            from dask.threaded import pack_exception      # what threaded.get passes
            kw["pack_exception"] = pack_exception
        if cfg.get("stale"):
            kw["cache"] = user_cache(cfg)
        out = L.get_async(ctl.submit, cfg["nw"], g, real_request(cfg["req"]), chunksize=cfg["cs"],
                          callbacks=[rec.as_tuple()], **kw)
        obs["ret"] = fmt_result(cfg["req"], out)
    except Hang as e:
        obs["hang"] = True
        obs["exc_msg"] = str(e)
    except Diverged as e:
        obs["diverged"] = str(e)
    except BaseException as e:  # noqa: BLE001 - includes BaseBoom
        obs["exc_type"] = type(e).__name__
        obs["exc_msg"] = str(e)
        m = str(e)
        if m.startswith("boom k") and m[6:].isdigit():
            obs["raised"] = int(m[6:])
    finally:
        L.queue_get = old
        _TRACE = None
    obs["events"] = rec.events
    obs["nstart"] = rec.nstart
    obs["nfinish"] = rec.nfinish
    obs["exec"] = [int(x[1:]) for x in EXEC_LOG]
    obs["completed"] = [_k(h) for h in ctl.completed]
    obs["leftover"] = len(ctl.parked)
    obs["submitted"] = [[_k(x) for x in b] for b in ctl.submitted]
    return obs


def compare_behaviour(cfg, beh, obs, fail_kind="exc"):
    """Compare one model behaviour (terminal `out` record of LocalSchedulerMC in Export mode) with
    the observation of the real run driven by the same schedule.  Returns a list of
    (property, clause, detail)."""
    bad = []
    if obs["diverged"]:
        return [("C02", "Diverged", obs["diverged"])]
    if obs["hang"]:
        return [("C04", "Hang", obs["exc_msg"])]
    mlog, rlog = beh["log"], [e for e in obs["events"] if e["e"] != "exec"]
    n = min(len(mlog), len(rlog))
    for i in range(n):
        m, r = mlog[i], rlog[i]
        if m["e"] != r["e"] or (m["e"] != "finish" and m["k"] != r["k"]):
            cl = "C04" if "finish" in (m["e"], r["e"]) else "C02"
            bad.append((cl, "EventOrder", "step %d: model %s %s, code %s %s" % (i, m["e"], m["k"], r["e"], r.get("k"))))
            break
        ms, rs = norm_model_state(m["s"]), r["s"]
        for fld, prop in (("ready", "C02"), ("running", "C02"), ("waiting", "C02"), ("finished", "C02"),
                          ("wdata", "C03"), ("cache", "C03"), ("released", "C03")):
            if ms[fld] != rs[fld]:
                bad.append((prop, "State." + fld, "step %d (%s %s): model %r, code %r" % (i, m["e"], m["k"], ms[fld], rs[fld])))
        if m["e"] == "post" and m["v"] != r["v"]:
            bad.append(("C01", "Value", "step %d: key %s model %s code %s" % (i, m["k"], m["v"], r["v"])))
        if m["e"] == "finish" and (beh["pc"] == "failed") != r["failed"]:
            bad.append(("C04", "FinishFlag", "model failed=%s code failed=%s" % (beh["pc"] == "failed", r["failed"])))
        if bad:
            break
    if not bad and len(mlog) != len(rlog):
        extra = rlog[n]["e"] if len(rlog) > n else mlog[n]["e"]
        bad.append(("C04" if extra == "finish" else "C02", "EventCount", "model %d events, code %d" % (len(mlog), len(rlog))))
    # C01: returned value
    if beh["pc"] == "done":
        if obs["ret"] is None:
            bad.append(("C04", "SpuriousRaise", "%s: %s" % (obs["exc_type"], obs["exc_msg"])))
        elif obs["ret"] != beh["ret"]:
            bad.append(("C01", "Result", "model %s code %s" % (beh["ret"], obs["ret"])))
    else:
        if obs["ret"] is not None:
            bad.append(("C04", "FailureSwallowed", "model raises k%s, code returned %s" % (beh["raised"], obs["ret"])))
        else:
            if obs["raised"] != beh["raised"]:
                bad.append(("C04", "RaisedKey", "model k%s code %r (%s: %s)" % (beh["raised"], obs["raised"], obs["exc_type"], obs["exc_msg"])))
            if obs["exc_type"] != FAIL_KINDS[fail_kind].__name__:
                bad.append(("C04", "RaisedType", "expected %s got %s" % (FAIL_KINDS[fail_kind].__name__, obs["exc_type"])))
    # C02: executions
    # (alias nodes are executed by the scheduler without calling a user function: not observable)
    mexec = [i + 1 for i, c in enumerate(beh["exec"]) for _ in range(c) if cfg["nodes"][i]["kind"] == "task"]
    if sorted(mexec) != sorted(obs["exec"]):
        bad.append(("C02", "ExecCounts", "model %r code %r" % (sorted(mexec), sorted(obs["exec"]))))
    # C04 / C05: finish exactly once
    if obs["nfinish"] != 1 or obs["nstart"] != 1:
        bad.append(("C04", "FinishOnce", "start=%d finish=%d" % (obs["nstart"], obs["nfinish"])))
    return bad
