"""Sibling pairs for C13 (specs/graph/KeySpaceMC.tla, SibOps): two collections built from the SAME base
by the SAME operation with ONE differing argument.

Every operation of the table is ONE function  op(L, x, s)  evaluated twice:
   lazily  : L = dask module of the kind (dask.array / dask.bag / dask.delayed / dask.dataframe), x = the dask base
   eagerly : L = the reference library (numpy / this module's list helpers / None / pandas), x = the eager base
`s` is the text of the varied argument exactly as the specification wrote it.  The eager value is the
REFERENCE: a case is judged only when both lazy values, each computed alone, equal their references (anything
else belongs to the properties about single collections), and the two references tell whether the results
differ.  No equality decision is taken here: fingerprints are compared by TLC."""
from __future__ import annotations

import operator

import numpy as np


# ---- importable task functions (tokenised by reference) and closures (tokenised by value)
def inc(v):
    return v + 1


def dec(v):
    return v - 1


def neg(v):
    return -v


def addk(v, k=0):
    return v + k


def addpos(v, k):
    return v + k


def add2(p, q, k=0):
    return p + q + k


def mod3(v):
    return v % 3


def even(v):
    return v % 2 == 0


def odd(v):
    return v % 2 == 1


def pos(v):
    return v > 0


def pair(p, q=0, **kw):
    return ("pair", p, q, tuple(sorted(kw.items())))


def two(p, q):
    return (p, q)


def part_list(part):
    return list(part)


def part_rev(part):
    return list(part)[::-1]


def part_len1(part):
    return [sum(1 for _ in part)]


def part_addk(part, k=0):
    return [v + k for v in part]


def frame_addk(df, k=0):
    return df + k


def closure(k):
    return lambda v: v + k


FUNCS = {"inc": inc, "dec": dec, "neg": neg}
PREDS = {"even": even, "odd": odd, "pos": pos}
BINOPS = {"add": operator.add, "mul": operator.mul, "max": max}
REDUCERS = {"sum": sum, "max": max, "min": min}
PARTF = {"list": part_list, "rev": part_rev, "len1": part_len1}


def _ints(s):
    return [int(t) for t in s.split(",")]


def _num(s):
    return float(s) if "." in s else int(s)


def _slice(s):
    a = [None if t == "" else int(t) for t in s.split(":")]
    return slice(*a)


def _axis(s):
    return None if s == "None" else int(s)


def lazy(x):
    return hasattr(x, "dask") or hasattr(x, "__dask_graph__")


def mb(x, f, *a, **kw):
    """map_blocks on a dask array, plain call on an ndarray (the functions used are elementwise)."""
    return x.map_blocks(f, *a, dtype=x.dtype, **kw) if lazy(x) else f(x, *a, **kw)


def _setitem(x, index, value):
    y = x.copy()
    y[index] = value
    return y


def _rowlike(L, x, v):
    """A value array with the shape of x[0], filled with v (a dask array with unit chunks on the lazy side)."""
    shape = x.shape[1:]
    arr = np.full(shape, v, dtype="i8")
    return L.from_array(arr, chunks=1) if lazy(x) and shape else arr


ARRAY_OPS = {
    "array.setitem.value": lambda L, x, s: _setitem(x, 0, int(s)),
    "array.setitem.arrayvalue": lambda L, x, s: _setitem(x, 0, _rowlike(L, x, int(s))),
    "array.setitem.index": lambda L, x, s: _setitem(x, int(s), -1),
    "array.setitem.slice": lambda L, x, s: _setitem(x, (Ellipsis, _slice(s)), -1),
    "array.setitem.mask": lambda L, x, s: _setitem(x, x > int(s), -1),
    "array.stack.axis": lambda L, x, s: L.stack([x, x + 10], axis=int(s)),
    "array.concatenate.axis": lambda L, x, s: L.concatenate([x, x + 10], axis=int(s)),
    "array.getitem.int": lambda L, x, s: x[int(s)],
    "array.getitem.slice": lambda L, x, s: x[_slice(s)],
    "array.getitem.list": lambda L, x, s: x[_ints(s)],
    "array.getitem.lastaxis": lambda L, x, s: x[..., int(s)],
    "array.getitem.newaxis": lambda L, x, s: x[(slice(None),) * int(s) + (None,)],
    "array.sum.axis": lambda L, x, s: x.sum(axis=_axis(s)),
    "array.sum.keepdims": lambda L, x, s: x.sum(axis=0, keepdims=bool(int(s))),
    "array.sum.dtype": lambda L, x, s: x.sum(axis=0, dtype=s),
    "array.max.axis": lambda L, x, s: x.max(axis=int(s)),
    "array.argmax.axis": lambda L, x, s: x.argmax(axis=int(s)),
    "array.cumsum.axis": lambda L, x, s: x.cumsum(axis=int(s)),
    "array.mean.axis": lambda L, x, s: x.mean(axis=_axis(s)),
    "array.var.ddof": lambda L, x, s: x.var(axis=0, ddof=int(s)),
    "array.map_blocks.func": lambda L, x, s: mb(x, FUNCS[s]),
    "array.map_blocks.closure": lambda L, x, s: mb(x, closure(int(s))),
    "array.map_blocks.kwargs": lambda L, x, s: mb(x, addk, k=int(s)),
    "array.map_blocks.args": lambda L, x, s: mb(x, addpos, int(s)),
    "array.elemwise.add": lambda L, x, s: x + _num(s),
    "array.elemwise.mul": lambda L, x, s: x * int(s),
    "array.elemwise.rsub": lambda L, x, s: int(s) - x,
    "array.elemwise.pow": lambda L, x, s: x ** int(s),
    "array.elemwise.cmp": lambda L, x, s: x > int(s),
    "array.elemwise.arrayoperand": lambda L, x, s: x + np.full(x.shape[-1:], int(s), dtype="i8"),
    "array.where.cond": lambda L, x, s: L.where(x > int(s), x, -1),
    "array.where.x": lambda L, x, s: L.where(x > 1, int(s), x),
    "array.where.y": lambda L, x, s: L.where(x > 1, x, int(s)),
    "array.astype.dtype": lambda L, x, s: x.astype(s),
    "array.transpose.axes": lambda L, x, s: x.transpose(tuple(_ints(s))),
    "array.reshape.target": lambda L, x, s: x.reshape(tuple(_ints(s))),
    "array.roll.shift": lambda L, x, s: L.roll(x, int(s)),
    "array.roll.axis": lambda L, x, s: L.roll(x, 1, axis=int(s)),
    "array.pad.width": lambda L, x, s: L.pad(x, int(s)),
    "array.pad.mode": lambda L, x, s: L.pad(x, 1, mode=s),
    "array.pad.cval": lambda L, x, s: L.pad(x, 1, constant_values=int(s)),
    "array.clip.max": lambda L, x, s: L.clip(x, 0, int(s)),
    "array.flip.axis": lambda L, x, s: L.flip(x, int(s)),
    "array.repeat.repeats": lambda L, x, s: L.repeat(x, int(s), axis=0),
    "array.repeat.axis": lambda L, x, s: L.repeat(x, 2, axis=int(s)),
    "array.tile.reps": lambda L, x, s: L.tile(x, int(s)),
    "array.expand_dims.axis": lambda L, x, s: L.expand_dims(x, int(s)),
    "array.rot90.k": lambda L, x, s: L.rot90(x, int(s)),
    "array.tril.k": lambda L, x, s: L.tril(x, int(s)),
    "array.diagonal.offset": lambda L, x, s: L.diagonal(x, int(s)),
    "array.take.indices": lambda L, x, s: L.take(x, _ints(s), axis=0),
    "array.take.axis": lambda L, x, s: L.take(x, [0, 1], axis=int(s)),
    "array.isin.values": lambda L, x, s: L.isin(x, _ints(s)),
    "array.full_like.fill": lambda L, x, s: L.full_like(x, int(s)),
    "array.broadcast_to.shape": lambda L, x, s: L.broadcast_to(x, (int(s),) + tuple(x.shape)),
    "array.rechunk.target": lambda L, x, s: x.rechunk(int(s)) if lazy(x) else x,
    "array.dot.operand": lambda L, x, s: L.dot(x, np.full((x.shape[-1],), int(s), dtype="i8")),
    "array.diff.n": lambda L, x, s: L.diff(x, n=int(s), axis=-1),
    "array.squeezeexpand.axis": lambda L, x, s: L.expand_dims(x, int(s)).sum(axis=int(s)),
}


# ---- bags: the eager base is a list; eager helpers mirror the dask.bag methods used
def _bag(x, method, *a, **kw):
    return getattr(x, method)(*a, **kw)


def _b_map(L, x, f, *a, **kw):
    return x.map(f, *a, **kw) if lazy(x) else [f(v, *a, **kw) for v in x]


def _pairs(x):
    """A base of 2-tuples (v, v * v) for pluck / starmap."""
    return x.map(lambda v: (v, v * v)) if lazy(x) else [(v, v * v) for v in x]


BAG_OPS = {
    "bag.map.func": lambda L, x, s: _b_map(L, x, FUNCS[s]),
    "bag.map.closure": lambda L, x, s: _b_map(L, x, closure(int(s))),
    "bag.map.kwargs": lambda L, x, s: _b_map(L, x, addk, k=int(s)),
    "bag.map.args": lambda L, x, s: _b_map(L, x, addpos, int(s)),
    "bag.filter.pred": lambda L, x, s: x.filter(PREDS[s]) if lazy(x) else [v for v in x if PREDS[s](v)],
    "bag.remove.pred": lambda L, x, s: x.remove(PREDS[s]) if lazy(x) else [v for v in x if not PREDS[s](v)],
    # (fold / accumulate / foldby apply `initial` once per partition: no simple eager reference -> None)
    "bag.fold.initial": lambda L, x, s: x.fold(operator.add, initial=int(s)) if lazy(x) else None,
    "bag.fold.binop": lambda L, x, s: x.map(inc).fold(BINOPS[s]) if lazy(x) else __import__("functools").reduce(BINOPS[s], [v + 1 for v in x]),
    "bag.reduction.func": lambda L, x, s: x.reduction(REDUCERS[s], REDUCERS[s]) if lazy(x) else REDUCERS[s](x),
    "bag.topk.k": lambda L, x, s: x.topk(int(s)) if lazy(x) else sorted(x, reverse=True)[:int(s)],
    "bag.pluck.key": lambda L, x, s: _pairs(x).pluck(int(s)) if lazy(x) else [t[int(s)] for t in _pairs(x)],
    "bag.pluck.default": lambda L, x, s: _pairs(x).pluck(5, int(s)) if lazy(x) else [int(s) for _ in x],
    "bag.map_partitions.func": lambda L, x, s: x.map_partitions(PARTF[s]) if lazy(x) else None,
    "bag.map_partitions.kwargs": lambda L, x, s: x.map_partitions(part_addk, k=int(s)) if lazy(x) else [v + int(s) for v in x],
    "bag.starmap.kwargs": lambda L, x, s: _pairs(x).starmap(add2, k=int(s)) if lazy(x) else [add2(p, q, k=int(s)) for p, q in _pairs(x)],
    "bag.accumulate.initial": lambda L, x, s: x.accumulate(operator.add, initial=int(s)) if lazy(x) else None,
    "bag.foldby.initial": lambda L, x, s: x.foldby(even, operator.add, initial=int(s)) if lazy(x) else None,
    "bag.groupby.key": lambda L, x, s: (x.groupby({"even": even, "mod3": mod3}[s], shuffle="tasks").map(lambda kv: (kv[0], sorted(kv[1]))) if lazy(x) else None),
    "bag.repartition.n": lambda L, x, s: x.repartition(npartitions=int(s)) if lazy(x) else list(x),
}


# ---- delayed: L is dask.delayed on the lazy side, None on the eager side; the base is the integer 5
def _d(L, f, **opts):
    return L(f, pure=True, **opts) if L is not None else f


def _dv(L, v):
    return L(v, pure=True) if L is not None else v


DELAYED_OPS = {
    "delayed.call.args": lambda L, x, s: _d(L, pair)(5, _num(s)),
    "delayed.call.kwargs": lambda L, x, s: _d(L, pair)(5, k=int(s)),
    "delayed.call.kwname": lambda L, x, s: _d(L, pair)(5, **{s: 1}),
    "delayed.call.func": lambda L, x, s: _d(L, FUNCS[s])(5),
    "delayed.call.closure": lambda L, x, s: _d(L, closure(int(s)))(5),
    "delayed.call.listarg": lambda L, x, s: _d(L, pair)(5, [int(s), 0]),
    "delayed.call.dictarg": lambda L, x, s: _d(L, pair)(5, {"k": int(s)}),
    "delayed.call.delayedarg": lambda L, x, s: _d(L, pair)(5, _dv(L, int(s))),
    "delayed.call.nout": lambda L, x, s: (_d(L, two, nout=2)(5, 6)[int(s)] if L is not None else two(5, 6)[int(s)]),
    "delayed.value": lambda L, x, s: _dv(L, _num(s)),
    "delayed.getitem": lambda L, x, s: _dv(L, [10, 20, 30])[int(s)],
    "delayed.attr": lambda L, x, s: getattr(_dv(L, complex(1, 2)), s),
    "delayed.method.args": lambda L, x, s: _dv(L, [1, 2, 2]).count(int(s)),
    "delayed.operator.const": lambda L, x, s: _dv(L, 5) + int(s),
}


# ---- dataframes: the pandas API is the reference
def _mp(x, f, **kw):
    return x.map_partitions(f, **kw) if lazy(x) else f(x, **kw)


FRAME_OPS = {
    "frame.add.const": lambda L, x, s: x + int(s),
    "frame.getitem.col": lambda L, x, s: x[s],
    "frame.getitem.cols": lambda L, x, s: x[s.split(",")],
    "frame.assign.value": lambda L, x, s: x.assign(c=int(s)),
    "frame.loc.start": lambda L, x, s: x.loc[int(s):],
    "frame.clip.upper": lambda L, x, s: x.clip(upper=int(s)),
    "frame.shift.periods": lambda L, x, s: x.shift(int(s)),
    "frame.map_partitions.kwargs": lambda L, x, s: _mp(x, frame_addk, k=int(s)),
    "frame.astype.dtype": lambda L, x, s: x.astype(s),
    "frame.rename.col": lambda L, x, s: x.rename(columns={"a": s}),
    "frame.isin.values": lambda L, x, s: x["a"].isin([int(s)]),
    "frame.series.map.func": lambda L, x, s: x["a"].map(FUNCS[s], meta=("a", "i8")) if lazy(x) else x["a"].map(FUNCS[s]),
    "frame.filter.threshold": lambda L, x, s: x[x["a"] > int(s)],
    "frame.sum.axis": lambda L, x, s: x.sum(axis=int(s)),
    "frame.drop.col": lambda L, x, s: x.drop(columns=[s]),
    "frame.fillna.value": lambda L, x, s: x.where(x > 2).fillna(int(s)),
}

OPS = {}
for _t in (ARRAY_OPS, BAG_OPS, DELAYED_OPS, FRAME_OPS):
    OPS.update(_t)


def make_base(case):
    """-> (lazy library, lazy base, eager library, eager base)"""
    kind, shape, chunks = case["ckind"], tuple(case["shape"]), case["chunks"]
    if kind == "array":
        import dask.array as da
        n = int(np.prod(shape))
        eager = np.arange(n, dtype="i8").reshape(shape)
        return da, da.from_array(eager, chunks=tuple(tuple(c) for c in chunks)), np, eager
    if kind == "bag":
        import dask.bag as db
        eager = list(range(shape[0]))
        sizes = chunks[0]
        if len(set(sizes)) == 1:
            base = db.from_sequence(eager, partition_size=sizes[0])
        else:                                         # uneven partitions: one delayed list per partition
            from dask import delayed
            parts, posn = [], 0
            for sz in sizes:
                parts.append(delayed(eager[posn:posn + sz], pure=True))
                posn += sz
            base = db.from_delayed(parts)
        return db, base, None, eager
    if kind == "delayed":
        from dask import delayed
        return delayed, None, None, None
    if kind == "frame":
        import pandas as pd

        from .frames import dd
        ddm = dd()
        eager = pd.DataFrame({"a": [1, 2, 3, 4], "b": [8, 7, 6, 5]})
        return ddm, ddm.from_pandas(eager, npartitions=len(chunks[0]), sort=True), pd, eager
    raise ValueError(kind)
