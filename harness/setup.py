"""./check --setup : verify the tool chain offline, parse every specification, validate MANIFEST.json."""
import glob, json, os, subprocess, sys
from . import tlc as T
ROOT = os.path.dirname(os.path.dirname(os.path.abspath(__file__)))


def main():
    ok = True
    for tool in ("java",):
        if subprocess.run(["which", tool], capture_output=True).returncode:
            print("missing tool:", tool); ok = False
    sys.path.insert(0, os.environ.get("VERIF_REPO", "/repo"))
    import dask, numpy, pandas  # noqa: F401
    print("dask from", dask.__file__)
    n = 0
    for path in sorted(glob.glob(os.path.join(ROOT, "specs", "*", "*.tla"))):
        try:
            T.sany(path); n += 1
        except Exception as ex:  # noqa: BLE001
            print(ex); ok = False
    print("SANY accepted %d modules" % n)
    try:
        import jsonschema
        man = json.load(open(os.path.join(ROOT, "MANIFEST.json")))
        jsonschema.validate(man, json.load(open("/root/.vp/MANIFEST.schema.json")))
        print("MANIFEST.json validates")
    except ImportError:
        print("jsonschema not importable; MANIFEST not schema-checked")
    except FileNotFoundError as ex:
        print("schema or manifest missing:", ex)
    os.makedirs(os.path.join(ROOT, "evidence"), exist_ok=True)
    os.makedirs(os.path.join(ROOT, "replays"), exist_ok=True)
    return 0 if ok else 2


if __name__ == "__main__":
    sys.exit(main())
