"""Access to dask.dataframe in a sandbox without pyarrow, and observation helpers for
the frame specifications (Pattern C over specs/common/Frames.tla)."""
from __future__ import annotations

import os
import sys

_READY = False


def dd():
    """Import dask.dataframe through the inert pyarrow shim.  Returns the module."""
    global _READY
    import pandas  # noqa: F401  (must be imported before the shim is visible)
    import dask
    if not _READY:
        shim = os.path.join(os.path.dirname(os.path.abspath(__file__)), "shims")
        try:
            import pyarrow  # noqa: F401
        except ImportError:
            sys.path.append(shim)
        dask.config.set({"dataframe.convert-string": False})
        _READY = True
    import dask.dataframe as ddm
    return ddm


def is_shim_error(exc):
    return type(exc).__name__ == "ShimError" or "pyarrow shim" in str(exc)


def from_parts(parts, divisions=None):
    """Build a dask DataFrame/Series with EXACTLY the given per-partition pandas objects
    (arbitrary partitionings, empty partitions allowed).  divisions=None -> unknown."""
    ddm = dd()
    import dask
    meta = parts[0].iloc[:0]
    delayed = [dask.delayed(p, pure=False) for p in parts]
    return ddm.from_delayed(delayed, meta=meta, divisions=divisions, verify_meta=False)


def split_rows(pdf, sizes):
    """Split a pandas object into consecutive partitions of the given row counts."""
    out, pos = [], 0
    for n in sizes:
        out.append(pdf.iloc[pos:pos + n])
        pos += n
    assert pos == len(pdf)
    return out


def partitions_of(coll):
    """Compute every partition separately (sync scheduler) -> list of pandas objects."""
    import dask
    (opt,) = dask.optimize(coll)
    keys = opt.__dask_keys__()
    from dask.local import get_sync
    return list(get_sync(dict(opt.__dask_graph__()), keys))
