"""Observation of a dask array in the vocabulary of specs/array/ArrayMeta.tla (used by C19, C21, C25):

    obs = {lshape, chunks, dt, raised,
           blocks: [{i: block index taken from the key, s: shape, dt: dtype, c: value codes}],
           whole:  {s, dt, c}}

Every block is computed through its own key (after dask's normal optimization, synchronous
scheduler) and the whole array through .compute().  Value codes are small integers with
"equal codes <=> equal values" (NaN equals NaN), so TLC can decide the reassembly clause for any
dtype.  `meta_clauses` is the Python mirror of ArrayMeta!MetaClauses, used where verdicts are taken
in Python (TLC-enumerated cases); drivers cross-check it against TLC."""
from __future__ import annotations

import contextlib
import inspect
import itertools
import math
import textwrap

import numpy as np

from .arrays import _flatten, assemble


def _nan_to(x, v=-1):
    try:
        return v if (isinstance(x, float) and math.isnan(x)) else int(x)
    except (TypeError, ValueError):
        return v


class Codes:
    """Intern values as small integers (deterministic: order of first appearance)."""

    def __init__(self):
        self.map = {}

    def code(self, v):
        try:
            if v != v:
                v = "nan"
        except Exception:  # noqa: BLE001
            v = repr(v)
        try:
            hash(v)
        except TypeError:
            v = repr(v)
        if isinstance(v, complex) and v.imag == 0:
            v = v.real
        key = (type(v).__name__ if isinstance(v, (str, bytes)) else "num", v)
        if key not in self.map:
            self.map[key] = len(self.map)
        return self.map[key]

    def of(self, arr):
        a = np.asarray(arr)
        if isinstance(arr, np.ma.MaskedArray):
            a = np.ma.filled(arr.astype(object), "masked")
        return [self.code(v) for v in a.ravel().tolist()]


def compute_keys(y):
    """[(block index from the key, value)] for every key of the collection, plus y.compute()."""
    import dask
    from dask.local import get_sync
    (yo,) = dask.optimize(y)
    flat = list(_flatten(yo.__dask_keys__()))
    vals = get_sync(dict(yo.__dask_graph__()), flat)
    return [(tuple(int(i) for i in k[1:]), v) for k, v in zip(flat, vals)]


def observe_full(y, whole=True, codes=True):
    """Returns (obs, full).  full = blocks concatenated by block index (None if they do not form
    the declared grid or do not fit together).  Exceptions of dask propagate to the caller.
    codes=False: all value codes are 0 (for results with don't-care cells, e.g. the uninitialised
    cells of ufunc where= without out=, which differ from one computation to the next)."""
    lshape = [_nan_to(s) for s in y.shape]
    chunks = [[_nan_to(c) for c in ax] for ax in y.chunks]
    kv = compute_keys(y)
    cd = Codes()
    w = np.asarray(y.compute(scheduler="sync")) if whole else None
    blocks = []
    bydx = {}
    for idx, v in kv:
        a = v if isinstance(v, np.ma.MaskedArray) else np.asarray(v)
        bydx[idx] = a
        blocks.append({"i": list(idx), "s": [int(n) for n in a.shape], "dt": str(a.dtype), "c": None, "_a": a})
    numblocks = tuple(len(c) for c in y.chunks)
    full = None
    if len(bydx) == len(kv) and set(bydx) == set(itertools.product(*[range(n) for n in numblocks])):
        try:
            full = assemble(bydx, numblocks)
        except Exception:  # noqa: BLE001 - blocks that do not fit together
            full = None
    if w is None and full is not None:
        w = np.asarray(full)
    wobs = {"s": [int(n) for n in w.shape], "dt": str(w.dtype), "c": cd.of(w) if codes else [0] * int(w.size)} if w is not None \
        else {"s": [-2], "dt": "?", "c": []}
    for b in blocks:
        a = b.pop("_a")
        b["c"] = cd.of(a) if codes else [0] * int(a.size)
    obs = {"lshape": lshape, "chunks": chunks, "dt": str(np.dtype(y.dtype)), "raised": "",
           "blocks": blocks, "whole": wobs}
    return obs, full


def raised_obs(exc):
    return {"lshape": [], "chunks": [], "dt": "", "raised": type(exc).__name__, "blocks": [],
            "whole": {"s": [], "dt": "", "c": []}}


def numpy_obs(a):
    """The observation a NumPy array would give (one block): used for reference-guard records."""
    a = np.asarray(a)
    cd = Codes()
    c = cd.of(a)
    sh = [int(n) for n in a.shape]
    return {"lshape": sh, "chunks": [[n] for n in sh], "dt": str(a.dtype), "raised": "",
            "blocks": [{"i": [0] * a.ndim, "s": sh, "dt": str(a.dtype), "c": c}],
            "whole": {"s": sh, "dt": str(a.dtype), "c": c}}


# ---------------------------------------------------------------- Python mirror of ArrayMeta.tla
def _prod(s):
    p = 1
    for n in s:
        p *= n
    return p


def meta_clauses(obs, check_codes=True):
    """Names of the ArrayMeta clauses the observation violates (mirror of MetaClauses)."""
    bad = []
    chunks, blocks, whole = obs["chunks"], obs["blocks"], obs["whole"]
    nd = len(chunks)
    nb = [len(c) for c in chunks]
    grid = set(itertools.product(*[range(n) for n in nb]))
    keys_ok = len(blocks) == _prod(nb) and {tuple(b["i"]) for b in blocks} == grid
    if not keys_ok:
        bad.append("Keys")
    if keys_ok:
        ok = True
        for b in blocks:
            if len(b["s"]) != nd or len(b["i"]) != nd:
                ok = False
                break
            for a in range(nd):
                c = chunks[a][b["i"][a]]
                if c >= 0 and b["s"][a] != c:
                    ok = False
        if not ok:
            bad.append("BlockShape")
    ok = len(obs["lshape"]) == len(whole["s"]) == nd
    if ok:
        for a in range(nd):
            if obs["lshape"][a] >= 0 and obs["lshape"][a] != whole["s"][a]:
                ok = False
            if all(c >= 0 for c in chunks[a]) and (sum(chunks[a]) != whole["s"][a] or obs["lshape"][a] != whole["s"][a]):
                ok = False
    if not ok:
        bad.append("LazyShape")
    if whole["dt"] != obs["dt"] or any(b["dt"] != obs["dt"] for b in blocks):
        bad.append("Dtype")
    if keys_ok and not _reassembles(obs, nd, nb, check_codes):
        bad.append("Reassemble")
    return bad


ORDER = ["Shape", "Kind", "Content", "Keys", "BlockShape", "LazyShape", "Dtype", "Reassemble"]


def trim_clauses(bad, order=ORDER):
    """Mirror of ArrayMeta!TrimClauses."""
    sel = [c for c in order if c in bad]
    return sorted(bad) if len(sel) <= 3 else sorted(sel[:3] + ["More"])


def _reassembles(obs, nd, nb, check_codes):
    blocks, whole = obs["blocks"], obs["whole"]
    if len(whole["s"]) != nd or any(len(b["s"]) != nd for b in blocks):
        return False
    if check_codes and (len(whole["c"]) != _prod(whole["s"]) or any(len(b["c"]) != _prod(b["s"]) for b in blocks)):
        return False
    ext = [dict() for _ in range(nd)]
    for b in blocks:
        for a in range(nd):
            if ext[a].setdefault(b["i"][a], b["s"][a]) != b["s"][a]:
                return False
    off = []
    for a in range(nd):
        o, acc = {}, 0
        for j in range(nb[a]):
            o[j] = acc
            acc += ext[a][j]
        if acc != whole["s"][a]:
            return False
        off.append(o)
    if not check_codes:
        return True
    W = np.array(whole["c"], dtype=np.int64).reshape(whole["s"])
    for b in blocks:
        sl = tuple(slice(off[a][b["i"][a]], off[a][b["i"][a]] + b["s"][a]) for a in range(nd))
        if not np.array_equal(W[sl], np.array(b["c"], dtype=np.int64).reshape(b["s"])):
            return False
    return True


# ---------------------------------------------------------------- in-memory mutants (self-tests)
@contextlib.contextmanager
def source_mutant(module, funcname, old, new, count=1, also=()):
    """Recompile module.funcname with `old` replaced by `new` (which must occur `count` times) inside
    this process only - /repo is never written - and restore the original on exit.  `also`: other
    modules that re-export the function under the same name (e.g. dask.array)."""
    orig = getattr(module, funcname)
    src = textwrap.dedent(inspect.getsource(orig))
    if src.count(old) != count:
        raise RuntimeError("mutant anchor %r occurs %d times in %s.%s (expected %d)"
                           % (old, src.count(old), module.__name__, funcname, count))
    ns = module.__dict__
    exec(compile(src.replace(old, new), "<mutant %s.%s>" % (module.__name__, funcname), "exec"), ns)
    saved = [(m, getattr(m, funcname)) for m in also]
    for m in also:
        setattr(m, funcname, ns[funcname])
    try:
        yield ns[funcname]
    finally:
        setattr(module, funcname, orig)
        for m, o in saved:
            setattr(m, funcname, o)
