"""Shared machinery of the divisions drivers (C41 / C44 / C45): building source collections of a
given index dtype from the specification's (idx, layout, sdivs) triples, projecting observations to
integer labels, and letting ONE TLC run (specs/frame/DivisionsTrace.tla) decide a pool of records."""
from __future__ import annotations

import json

import numpy as np
import pandas as pd

from .frameobs import NA, UNKNOWN, int_label, observe, plain, rank_map, raised_obs, time_limit, to_rank
from .frames import dd, is_shim_error, split_rows

KINDS = ["int", "float", "str", "datetime"]


# ----------------------------------------------------------------------------- labels
def label_of(rank, kind):
    """The index label that stands for integer `rank` (>= -5) under index dtype `kind`; order preserving."""
    if kind == "int":
        return int(rank)
    if kind == "float":
        return rank * 0.5 + 0.25
    if kind == "str":
        return "k%03d" % (rank + 10)
    if kind == "datetime":
        return pd.Timestamp("2020-01-01") + pd.Timedelta(days=int(rank))
    raise ValueError(kind)


def index_of(ranks, kind):
    labels = [label_of(r, kind) for r in ranks]
    if kind == "int":
        return pd.Index(labels, dtype="i8")
    if kind == "datetime":
        return pd.DatetimeIndex(labels)
    if kind == "float":
        return pd.Index(labels, dtype="f8")
    return pd.Index(labels)


def frame_of(idx, kind="int"):
    """The canonical source frame of a case: row i has rid i and the i-th label."""
    return pd.DataFrame({"rid": np.arange(len(idx), dtype="i8")}, index=index_of(idx, kind))


def parts_collection(parts, divisions=None, key=""):
    """Like harness.frames.from_parts (a collection with EXACTLY the given per-partition pandas objects), but
    with deterministic task names derived from `key`: dask seeds the random percentiles of its quantile
    divisions (set_index, _repartition_quantiles) from the tokens of the expression, and from_parts' random
    uuid names would make those results differ from run to run."""
    import hashlib
    import dask
    ddm = dd()
    tok = hashlib.md5(repr(key).encode()).hexdigest()[:16]
    delayed = [dask.delayed(p, name="verif-src-%s-%d" % (tok, i)) for i, p in enumerate(parts)]
    return ddm.from_delayed(delayed, meta=parts[0].iloc[:0], divisions=divisions, verify_meta=False)


def source_of(idx, layout, sdivs, kind="int"):
    """dask collection with EXACTLY the given partitions and declared divisions ([] = unknown)."""
    pdf = frame_of(idx, kind)
    divs = tuple(label_of(d, kind) for d in sdivs) if sdivs else None
    return parts_collection(split_rows(pdf, layout), divs, key=("src", list(idx), list(layout), list(sdivs), kind))


# ----------------------------------------------------------------------------- observation
def observe_as_ranks(coll, kind, known_ranks, whole_too=True):
    """Observation record of `coll` with every label expressed as an integer.

    kind == "int": labels are their own integers (records equal the enumerated case verbatim).
    otherwise: `known_ranks` = the integer ranks used to build the inputs; observed labels that are
    none of them (interpolated divisions) are placed between them order-preservingly: the function
    returns (obs, remap) where remap maps an input rank to its rank in the joint order, and the
    caller re-expresses the inputs of the record with it."""
    if kind == "int":
        return observe(coll, int_label, whole_too), (lambda r: r)
    raw = observe(coll, plain, whole_too)
    values = [label_of(r, kind) for r in known_ranks]
    seen = list(raw["divs"]) + [row["idx"] for p in raw["parts"] for row in p]
    ranks = rank_map(values, [v for v in seen if v is not None])
    conv = lambda v: to_rank(v, ranks)      # noqa: E731
    obs = dict(raw)
    obs["divs"] = [conv(v) for v in raw["divs"]]
    obs["parts"] = [[{"rid": row["rid"], "idx": conv(row["idx"])} for row in p] for p in raw["parts"]]
    return obs, (lambda r: conv(label_of(r, kind)))


def guarded(fn, limit=60):
    """Run fn() -> observation; every exception becomes an observation (or a skip)."""
    try:
        with time_limit(limit):
            return fn()
    except NotImplementedError as ex:
        return {"skip": "NotImplementedError: " + str(ex)[:60]}
    except Exception as ex:  # noqa: BLE001 - an exception from dask is an observation
        if is_shim_error(ex):
            return {"skip": "pyarrow shim"}
        o = raised_obs(ex)
        o["msg"] = str(ex)[:200]
        return o


class patched_attr:
    """Temporarily replace attributes of modules / classes (in-memory mutants).  The raw attribute is
    saved from the owner's __dict__, so staticmethods / cached_properties are restored unchanged."""

    def __init__(self, targets, name, value):
        self.targets, self.name, self.value = list(targets), name, value

    def __enter__(self):
        self.saved = [vars(t)[self.name] for t in self.targets]
        for t in self.targets:
            setattr(t, self.name, self.value)
        return self

    def __exit__(self, *a):
        for t, v in zip(self.targets, self.saved):
            setattr(t, self.name, v)


def mutate(fn, old, new):
    """A copy of function `fn` (plain function, staticmethod or cached_property) whose source has `old`
    replaced by `new` (exactly one occurrence), compiled in a copy of the function's globals.  Returns
    the same kind of object (decorators are part of the source)."""
    import functools
    import inspect
    import textwrap
    from .core import MachineryError
    raw = fn.func if isinstance(fn, functools.cached_property) else getattr(fn, "__func__", fn)
    src = textwrap.dedent(inspect.getsource(raw))
    if src.count(old) != 1:
        raise MachineryError("mutation site %r not found exactly once in %s" % (old, raw.__name__))
    g = dict(raw.__globals__)
    exec(compile(src.replace(old, new), "<mutant of %s>" % raw.__name__, "exec"), g)   # noqa: S102
    out = g[raw.__name__]
    if isinstance(out, functools.cached_property):
        out = functools.cached_property(out.func)
        out.__set_name__(None, raw.__name__)
    return out


# ----------------------------------------------------------------------------- TLC runs side by side
def parallel_tlc_cases(ctx, jobs, workers=2, timeout=3000):
    """jobs: [(label, spec_path, cfg_path)] -> [cases of job 1, cases of job 2, ...].

    TLC generates initial states on a single thread, so independent case enumerations are run as separate
    TLC processes side by side (at most four).  Only the subprocesses run concurrently; the bookkeeping of
    the run context (state counts, tlc_runs) is done afterwards on the calling thread, exactly as
    Ctx.tlc / Ctx.tlc_cases do it."""
    import os
    from concurrent.futures import ThreadPoolExecutor
    from . import tlc as T
    from .core import ROOT, MachineryError

    def one(ij):
        i, (label, spec, cfg) = ij
        return T.run(spec, cfg, workers=workers, scratch=os.path.join(ctx.scratch, "job%d" % i), dump=True, timeout=timeout)

    with ThreadPoolExecutor(min(4, max(1, len(jobs)))) as ex:
        results = list(ex.map(one, enumerate(jobs)))
    out = []
    for (label, spec, cfg), r in zip(jobs, results):
        ctx.states += r.distinct
        ctx.transitions += r.generated
        ctx.tlc_runs.append({"spec": os.path.relpath(spec, ROOT), "cfg": os.path.basename(cfg), "label": label,
                             "distinct": r.distinct, "generated": r.generated, "depth": r.depth,
                             "wall_s": round(r.wall_s, 2), "ok": r.ok, "violated": r.violated})
        cases = T.read_dump_json(r.dump, "out")
        try:
            os.remove(r.dump)
        except OSError:
            pass
        if not cases:
            raise MachineryError("no cases exported by %s" % spec)
        out.append(cases)
    return out


# ----------------------------------------------------------------------------- TLC verdicts
class Verdicts:
    """Collects call records and lets ONE TLC run of DivisionsTrace decide them.  Records with identical
    judged fields (same call, same result) share one verdict; only the first two members of each class
    are kept (memory), the rest are counted."""

    def __init__(self, judged, clause_names):
        self.judged, self.clause_names = tuple(judged), list(clause_names)
        self.uniq, self.members, self.n = {}, {}, 0

    def add(self, recs):
        for r in recs:
            self.n += 1
            key = json.dumps({k: r[k] for k in self.judged if k in r}, sort_keys=True)
            if key not in self.uniq:
                self.uniq[key] = "u%d" % len(self.uniq)
            m = self.members.setdefault(self.uniq[key], [0, []])
            m[0] += 1
            if len(m[1]) < 2:
                m[1].append(r)

    def clauses(self, text):
        return [c for c in self.clause_names + ["UnknownOp"] if '"%s"' % c in text]

    def decide(self, ctx, label, batch=25000):
        """-> [(record, clauses, multiplicity)] for the rejected classes (one entry per kept member)."""
        if not self.uniq:
            return []
        spec, cfg = ctx.model(ctx.spec("frame", "DivisionsTrace.tla"), {})
        ulist = [dict(json.loads(key), id=uid) for key, uid in self.uniq.items()]
        bad = []
        for lo in range(0, len(ulist), batch):
            rej = ctx.tlc_validate(spec, ulist[lo:lo + batch], cfg, label=label, timeout=2400)
            for uid, texts in rej.items():
                cnt, kept = self.members[uid]
                for j, r in enumerate(kept):
                    bad.append((r, self.clauses(" ".join(texts)), 1 if j else cnt - len(kept) + 1))
        ctx.traces += self.n - len(ulist)      # identical call records share one TLC verdict
        return bad


__all__ = ["KINDS", "NA", "UNKNOWN", "Verdicts", "dd", "frame_of", "guarded", "index_of", "label_of", "mutate", "observe_as_ranks",
           "parallel_tlc_cases", "parts_collection", "patched_attr", "source_of"]
