"""Worker for C30: executes array pipelines in THIS interpreter (started with or without
DASK_ARRAY__QUERY_PLANNING=True) and writes the observations.  Usage:
    python -m harness.exprworker cases.json out.json"""
from __future__ import annotations

import json
import sys

import numpy as np

NONE = 99


def _sl(c):
    f = lambda v: None if v == NONE else v
    return slice(f(c["a"]), f(c["b"]), c["st"])


def py_index(comps):
    return tuple(_sl(c) if c["k"] == "s" else (None if c["k"] == "n" else c["i"]) for c in comps)


def rechunk_target(shape, how):
    out = []
    for s in shape:
        if how == "one":
            out.append((s,))
        elif how == "ones":
            out.append((0,) if s == 0 else (1,) * s)
        else:
            out.append((s,) if s <= 1 else (1, s - 1))
    return tuple(out)


def apply(xp, x, o, is_dask):
    op = o["op"]
    if op == "slice":
        return x[py_index(o["comps"])]
    if op == "addk":
        return x + o["k"]
    if op == "mulk":
        return x * o["k"]
    if op == "neg":
        return -x
    if op == "mapb":
        return x.map_blocks(lambda b: 2 * b + 1, dtype=x.dtype) if is_dask else 2 * x + 1
    if op == "addself":
        return x + x
    if op == "addrev":
        idx = (slice(None),) * (x.ndim - 1) + (slice(None, None, -1),)
        return x + x[idx]
    if op in ("sum", "max", "min"):
        ax = None if o["axis"] == 0 else o["axis"] - 1
        return getattr(x, op)(axis=ax)
    if op == "T":
        return x.T
    if op == "rechunk":
        return x.rechunk(rechunk_target(x.shape, o["how"])) if is_dask else x
    if op == "concat":
        return xp.concatenate([x, x], axis=o["axis"] - 1)
    if op == "stack":
        return xp.stack([x, x])
    if op == "perm":
        return x.transpose([a - 1 for a in o["axes"]])      # (the function form da.transpose is not implemented by the engine)
    if op == "concatr":
        y = x.rechunk(rechunk_target(x.shape, o["how"])) if is_dask else x
        return xp.concatenate([x, y], axis=o["axis"] - 1)
    raise ValueError(op)


def observe(y):
    """lazy shape/chunks, every block through its own key, assembled content"""
    import itertools
    import math

    import dask
    from dask.local import get_sync
    nan = lambda v: -1 if (isinstance(v, float) and math.isnan(v)) else int(v)
    lshape = [nan(s) for s in y.shape]
    chunks = [[nan(c) for c in ax] for ax in y.chunks]
    # (dask.optimize() does not lower expression collections that need lowering - that defect belongs
    #  to C14; the collection's own optimize() does)
    yo = y.optimize() if "_array_expr" in type(y).__module__ else dask.optimize(y)[0]
    keys = yo.__dask_keys__()

    def flat(k):
        if isinstance(k, list):
            for z in k:
                yield from flat(z)
        else:
            yield k
    fk = list(flat(keys))
    vals = get_sync(dict(yo.__dask_graph__()), fk)
    blocks = {tuple(k[1:]): np.asarray(v) for k, v in zip(fk, vals)}
    nb = tuple(len(c) for c in y.chunks)
    want = set(itertools.product(*[range(n) for n in nb]))
    ok = set(blocks) == want
    full = None
    if ok:
        for idx, b in blocks.items():
            if b.ndim != len(nb) or any(chunks[d][i] >= 0 and b.shape[d] != chunks[d][i] for d, i in enumerate(idx)):
                ok = False
        if nb == ():
            full = blocks[()]
        else:
            def rec(prefix, axis):
                if axis == len(nb):
                    return blocks[tuple(prefix)]
                return np.concatenate([rec(prefix + [i], axis + 1) for i in range(nb[axis])], axis=axis)
            try:
                full = rec([], 0)
            except Exception:  # noqa: BLE001
                ok = False
    whole = np.asarray(y.compute(scheduler="sync"))
    if full is None or whole.shape != full.shape or not np.array_equal(whole, full):
        ok = False
        full = whole
    return {"raised": "", "lshape": lshape, "chunks": chunks, "cshape": list(full.shape), "blocksok": bool(ok),
            "cells": [int(v) for v in full.ravel()], "kind": np.dtype(y.dtype).kind}


def run_case(case, engine_expected):
    import dask.array as da
    shape = tuple(case["shape"])
    src = np.arange(int(np.prod(shape)) if shape else 1, dtype="i8").reshape(shape)
    out = {"id": case["id"]}
    # NumPy reference (guard)
    try:
        r = src
        for o in case["pipe"]:
            r = apply(np, r, o, False)
        r = np.asarray(r)
        out["np"] = {"raised": "", "cshape": list(r.shape), "cells": [int(v) for v in r.ravel()]}
    except Exception as e:  # noqa: BLE001
        out["np"] = {"raised": type(e).__name__}
    try:
        x = da.from_array(src, chunks=tuple(tuple(c) for c in case["chunks"]))
        out["engine"] = type(x).__module__
        for o in case["pipe"]:
            x = apply(da, x, o, True)
        if not hasattr(x, "chunks"):
            x = da.asarray(x)
        out["obs"] = observe(x)
        try:
            out["rewritten"] = bool(getattr(x, "expr", None) is not None and x.expr.optimize()._name != x.expr._name)
        except Exception:  # noqa: BLE001
            out["rewritten"] = False
    except NotImplementedError as e:
        out["obs"] = {"skip": "NotImplementedError: " + str(e)[:60]}
    except Exception as e:  # noqa: BLE001
        out["obs"] = {"raised": type(e).__name__, "msg": str(e)[:160], "lshape": [], "chunks": [], "cshape": [], "blocksok": True,
                      "cells": [], "kind": ""}
    return out


def install_mutant(name):
    """Binding self-test: an in-memory mutant of the expression engine, in this interpreter only."""
    if name == "rechunk-noop-by-numblocks":
        from dask.array._array_expr import _rechunk as R
        orig = R.Rechunk._lower

        def bad(self):
            if tuple(map(len, self.chunks)) == self.array.numblocks:      # "nothing to do" judged by block counts
                return self.array
            return orig(self)
        R.Rechunk._lower = bad
    elif name == "transpose-block-axes-reversed":
        from dask.array._array_expr import _blockwise as B
        B.Transpose.kwargs = property(lambda self: {"axes": tuple(self.axes)[::-1]})
    else:
        raise ValueError(name)


def main():
    cases = json.load(open(sys.argv[1]))
    import os

    import dask
    if os.environ.get("VERIF_EXPR_MUTANT") and dask.config.get("array.query-planning", False):
        install_mutant(os.environ["VERIF_EXPR_MUTANT"])
    expr = bool(dask.config.get("array.query-planning", False))
    res = [run_case(c, expr) for c in cases]
    json.dump({"expr": expr, "results": res}, open(sys.argv[2], "w"))


if __name__ == "__main__":
    main()
