"""C22 - reductions and scans equal NumPy for every chunking and split_every.

spec -> code: TLC enumerates (specs/array/ReductionsMC.tla) every (data fill, operation, parameters, axis
selection, keepdims) of the bounded space together with ALL chunkings of the shape and the result the TLA+
reference semantics (specs/array/Reductions.tla, exact rationals from specs/common/Rational.tla) demands;
every case is run on the real dask array for every chunking (quick: a seeded sample), with split_every in
{None, 2, 3, per-axis dict} / scan method in {sequential, blelloch}, every output block computed through
its own key.  code -> spec: seeded random calls on larger arrays (3-d, many blocks, empty chunks) are
recorded and TLC decides every record (ReductionsTrace.tla).  NumPy is only the reference *guard*.

Floats: dask's float results are converted with fractions.Fraction and compared with the exact rational of
the specification within 2^-40 * n * max(1, |expected|) (n = number of cells; the summation-order tolerance);
std is compared by its square.  For recorded calls the float is replaced by the rational with a small
denominator next to it (limit_denominator) when it is within that tolerance of it - TLC then decides equality
of exact rationals - and flagged `close = false` otherwise (TLC rejects the record)."""
from __future__ import annotations

import math
import warnings
from fractions import Fraction

import numpy as np

from ..arrays import observe, py_chunks, raised
from ..core import TLA, MachineryError
from ..par import pmap
from .. import tlc as T

META = {
    "title": "Array reductions and scans equal NumPy for every chunking and split_every",
    "design_ref": "DESIGN.md §4.3 C22",
    "technique": "TLA+ reference semantics of NumPy reductions/scans over lanes with exact rationals; TLC enumerates "
                 "operations x axes x keepdims x all chunkings of small shapes and checks the reference against "
                 "transcriptions of dask's tree reduction and Blelloch scan; replay into dask + TLC validation of recorded calls",
    "level_text": "Small-scope exhaustive: for seeded data fills (values 0..3 with ties, NaN cells, int and float) of every shape "
                  "with <= 2 axes and extents <= 3 (thorough: <= 4, 1-d <= 6), TLC computes the result of sum/prod/min/max/any/all/"
                  "mean/var/std/moment, the nan-variants, argmin/argmax (+nan), cumsum/cumprod (+nan), topk/argtopk, median/"
                  "nanmedian/quantile (5 methods) for every axis selection and keepdims; dask is replayed on every chunking "
                  "(incl. chunkings with an empty chunk) x split_every in {None,2,3,dict} / method in {sequential, blelloch}, "
                  "block by block. Random larger 1-3-d cases are decided by TLC from recorded calls.",
    "level_note": "Trusted: TLC, the TLA+ reference (cross-checked against NumPy on every case; a disagreement is a machinery "
                  "error, not a violation), the block-assembly projection, Fraction conversion of floats with tolerance "
                  "2^-40*n*max(1,|x|). Data fills are seeded samples (not all 4^n fills); inf/overflow and float rounding are NumPy's.",
}

NONE = 99
NAN = -1
RAT_OPS = {"mean", "var", "std", "moment", "median", "quantile", "nanmean", "nanvar", "nanstd", "nanmedian",
           "nanquantile", "nanpercentile"}      # the last two are used by C32
SQUARED = {"std", "nanstd"}
DDOF_OPS = {"var", "std", "nanvar", "nanstd"}
SE_VARIANTS = ["none", "2", "3", "dict"]
CUM_VARIANTS = ["sequential", "blelloch"]


# ----------------------------------------------------------------------------- case -> Python
def np_array(case):
    cells = case["cells"]
    if case["kind"] == "f":
        a = np.array([np.nan if v == NAN else float(v) for v in cells], dtype="f8")
    else:
        a = np.array(cells, dtype="i8")
    return a.reshape(tuple(case["shape"]))


def py_axis(ax):
    if ax == [NONE]:
        return None
    if len(ax) == 1:
        return ax[0]
    return tuple(ax)


def reduced_axes(case):
    nd = len(case["shape"])
    ax = case["ax"]
    if ax == [NONE]:
        return list(range(nd))
    return sorted({a + nd if a < 0 else a for a in ax})


def split_every(case, variant):
    if variant == "none":
        return None
    if variant in ("2", "3"):
        return int(variant)
    red = reduced_axes(case)
    return {a: (2 if i % 2 == 0 else 3) for i, a in enumerate(red)}


def q_values(case):
    qs = [q[0] / q[1] for q in case["q"]]
    return qs[0] if case["sq"] else qs


def variants_of(case):
    fam = case["fam"]
    if fam == "cum":
        return CUM_VARIANTS
    if fam == "quant":
        return ["-"]
    return SE_VARIANTS


def apply_op(mod, x, case, variant, is_dask):
    """The call under test (mod = dask.array) or the NumPy reference call (mod = numpy)."""
    fam, op = case["fam"], case["op"]
    axis = py_axis(case["ax"])
    kw = {}
    if is_dask and fam in ("fold", "arg", "topk"):
        kw["split_every"] = split_every(case, variant)
    if fam == "fold":
        if op == "moment":
            if is_dask:
                return mod.moment(x, case["p"], axis=axis, keepdims=case["kd"], **kw)
            with np.errstate(all="ignore"):
                d = x - x.mean(axis=axis, keepdims=True)
                return (d ** case["p"]).mean(axis=axis, keepdims=case["kd"])
        if op in DDOF_OPS:
            kw["ddof"] = case["p"]
        return getattr(mod, op)(x, axis=axis, keepdims=case["kd"], **kw)
    if fam == "arg":
        return getattr(mod, op)(x, axis=axis, keepdims=case["kd"], **kw)
    if fam == "cum":
        if is_dask:
            return getattr(mod, op)(x, axis=axis, method=variant)
        return getattr(mod, op)(x, axis=axis)
    if fam == "topk":
        k = case["k"]
        if is_dask:
            return getattr(mod, op)(x, k, axis=axis, **kw)
        s = np.sort(x, axis=axis)
        if k > 0:
            s = np.flip(s, axis=axis)
        return np.take(s, range(min(abs(k), x.shape[axis])), axis=axis)     # values, also for argtopk
    if fam == "quant":
        if op in ("median", "nanmedian"):
            return getattr(mod, op)(x, axis=axis, keepdims=case["kd"])
        return mod.quantile(x, q_values(case), axis=axis, method=case["method"], keepdims=case["kd"])
    raise MachineryError("unknown family %r" % fam)


# ----------------------------------------------------------------------------- values
def tolerance(case, e):
    n = max(1, int(np.prod(case["shape"])) if case["shape"] else 1)
    return Fraction(n, 2 ** 40) * max(1, abs(e))


def exp_value(case, e):
    """Expected cell of the specification as Fraction, or None for NaN."""
    if case["op"] in RAT_OPS:
        return None if e[1] == 0 else Fraction(e[0], e[1])
    return None if e == NAN else Fraction(e)


def same_value(case, e, v, exact):
    """v: observed Python float/int/bool; e: expected Fraction or None (NaN)."""
    try:
        fv = float(v)
    except (TypeError, ValueError):
        return False
    if e is None:
        return math.isnan(fv)
    if math.isnan(fv) or math.isinf(fv):
        return False
    fr = Fraction(fv) if not isinstance(v, (int, np.integer, bool, np.bool_)) else Fraction(int(v))
    if case["op"] in SQUARED:
        fr = fr * fr
    if exact:
        return fr == e
    return abs(fr - e) <= tolerance(case, e) * (2 if case["op"] in SQUARED else 1)


def content_ok(case, exp, full, src):
    """Does the assembled result `full` carry the expected cells?  (argtopk: the selected positions must be
    distinct along the axis and hold exactly the expected values - ties are free.)"""
    flat = list(np.asarray(full).ravel())
    want = [exp_value(case, e) for e in exp["cells"]]
    if len(flat) != len(want):
        return False
    if case["op"] == "argtopk":
        idx = np.asarray(full)
        if idx.dtype.kind not in "iu":
            return False
        axis = py_axis(case["ax"])
        n = src.shape[axis]
        if idx.size and (idx.min() < 0 or idx.max() >= n):
            return False
        s = np.sort(idx, axis=axis)
        if s.shape[axis] > 1 and bool((np.diff(s, axis=axis) == 0).any()):
            return False
        flat = list(np.take_along_axis(src, idx, axis=axis).ravel())
    exact = case["op"] not in RAT_OPS
    return all(same_value(case, e, v, exact) for e, v in zip(want, flat))


# ----------------------------------------------------------------------------- reference guard
def guard(case, exp):
    """Compare the TLA+ expected result with NumPy.  Returns None or a description of the disagreement."""
    src = np_array(case)
    try:
        with warnings.catch_warnings():
            warnings.simplefilter("ignore")
            with np.errstate(all="ignore"):
                r = np.asarray(apply_op(np, src, case, None, False))
    except Exception as ex:  # noqa: BLE001
        return None if exp["err"] else "numpy raises %s: %s, spec has a value" % (type(ex).__name__, ex)
    if exp["err"]:
        return "spec says NumPy raises, numpy returns %r" % (r,)
    if list(r.shape) != list(exp["shape"]):
        return "shape: numpy %r spec %r" % (r.shape, exp["shape"])
    kind = r.dtype.kind
    if case["op"] != "argtopk" and kind != exp["kind"]:
        return "dtype kind: numpy %r spec %r" % (kind, exp["kind"])
    refcase = dict(case, op="topk") if case["op"] == "argtopk" else case
    want = [exp_value(refcase, e) for e in exp["cells"]]
    flat = list(r.ravel())
    if len(flat) != len(want) or not all(same_value(refcase, e, v, False) for e, v in zip(want, flat)):
        return "cells: numpy %r spec %r" % (flat, exp["cells"])
    return None


# ----------------------------------------------------------------------------- dask
def run_dask(case, chunks, variant):
    """Apply the case to a real dask array; returns (obs, full ndarray or None)."""
    import dask.array as da
    src = np_array(case)
    try:
        with warnings.catch_warnings():
            warnings.simplefilter("ignore")
            with np.errstate(all="ignore"):
                x = da.from_array(src, chunks=py_chunks(chunks))
                y = apply_op(da, x, case, variant, True)
                obs, full = observe(y, whole_too=case.get("whole", False))
        if full is not None:
            obs["ckind"] = np.asarray(full).dtype.kind
        return obs, full
    except NotImplementedError as ex:
        return {"skip": "NotImplementedError: " + str(ex)[:60]}, None
    except Exception as ex:  # noqa: BLE001 - every other exception is an observation
        o = raised(ex)
        o["msg"] = str(ex)[:200]
        return o, None


def judge(case, exp, obs, full):
    """Compare one observation with the expected result of the specification.  Returns clause or None."""
    if "skip" in obs:
        return None
    if exp["err"]:
        return None if obs["raised"] else "ErrorExpected"     # NumPy has no result; any exception is accepted
    if obs["raised"]:
        return "UnexpectedRaise"
    if full is None or obs["cshape"] != list(exp["shape"]):
        return "Shape"
    if not content_ok(case, exp, full, np_array(case)):
        return "Content"
    if obs["kind"] != exp["kind"] or obs.get("ckind") != exp["kind"]:
        return "Kind"
    for a, ch in enumerate(obs["chunks"]):
        if all(c >= 0 for c in ch):
            if sum(ch) != obs["cshape"][a] or obs["lshape"][a] != obs["cshape"][a]:
                return "Meta"
    if len(obs["chunks"]) != len(obs["cshape"]) or not obs["blocksok"]:
        return "Meta"
    return None


def has_zero_chunk(case, chunks):
    return any(0 in ch and s > 0 for ch, s in zip(chunks, case["shape"]))


def classify(case, chunks, clause, variant):
    """Signature of a violation: the call site (family / operation class), the failing clause and the structural
    class of the input - never concrete numbers.  The input classes behind recorded known findings come first
    (one root cause each, whatever clause it surfaces under)."""
    fam, op = case["fam"], case["op"]
    shape = case["shape"]
    nd = len(shape)
    size = int(np.prod(shape)) if shape else 1
    zero = has_zero_chunk(case, chunks)
    multi = [len(ch) > 1 for ch in chunks]
    if op == "moment" and case.get("p", 2) < 2 and case.get("kd") and clause == "Shape":
        return "moment:order<2:keepdims"
    if fam == "fold" and op in ("min", "max", "nanmin", "nanmax"):
        if size == 0:
            return "minmax:empty-array"
        if zero and nd >= 2:
            return "minmax:zero-chunk"
    if fam == "fold" and op in ("var", "std", "nanvar", "nanstd", "moment") and zero and clause == "Content":
        return "var:zero-chunk:combine"
    if fam == "arg" and zero:
        return "arg:zero-chunk"
    if fam == "arg" and case["ax"] == [NONE] and nd >= 2 and any(multi[1:]) and clause == "Content":
        return "arg:flat:tie-order"
    if fam == "topk":
        nax = shape[case["ax"][0]]
        a = case["ax"][0]
        if (op == "argtopk" and multi[a] and clause == "UnexpectedRaise"
                and (abs(case["k"]) >= nax or 0 in chunks[a])):     # k >= number of candidates left at the last step
            return "argtopk:k>=n:blocks"
        if abs(case["k"]) > nax and clause == "Meta":
            return "topk:k>n:meta"
    if fam == "quant" and zero and len(case["ax"]) >= 2 and len(case["ax"]) < nd and clause == "UnexpectedRaise":
        return "quant:multi-axis:zero-chunk"
    if op == "nanmedian" and zero and clause == "UnexpectedRaise":
        return "nanmedian:zero-chunk"
    if fam == "cum":
        if case["ax"] == [NONE] and nd >= 2 and (zero or size == 0):
            return "cum:flatten:empty-block"
        if zero and variant == "sequential":
            return "cum:sequential:zero-chunk"
    feats = []
    if zero:
        feats.append("zero-chunk")
    if size == 0:
        feats.append("empty")
    if NAN in case["cells"]:
        feats.append("nan")
    if case["ax"] == []:
        feats.append("axis=()")
    if fam == "cum":
        feats.append(str(variant))
    site = {"argmin": "arg", "argmax": "arg", "nanargmin": "nanarg", "nanargmax": "nanarg"}.get(op, op)
    return "%s:%s:%s:%s" % (fam, site, clause, "+".join(feats) or "plain")


def _work(item):
    case, exp, chunks, variants = item
    g = guard(case, exp)
    if g is not None:
        return [("GUARD", None, g)]
    res = []
    for v in variants:
        obs, full = run_dask(case, chunks, v)
        if "skip" in obs:
            res.append(("SKIP", v, obs["skip"]))
            continue
        cl = judge(case, exp, obs, full)
        det = None
        if cl:
            det = {"obs": obs, "got": None if full is None else repr(np.asarray(full).tolist())}
        res.append((cl, v, det))
    return res


# ----------------------------------------------------------------------------- fills / TLC constants
def gen_fill(rng, shape, kind, nans=0, nan_row=False, alphabet=(0, 1, 2, 3)):
    n = int(np.prod(shape)) if shape else 1
    cells = [rng.choice(alphabet) for _ in range(n)]
    if kind == "f" and n:
        if nan_row and len(shape) == 2:
            r = rng.randrange(shape[0])
            for j in range(shape[1]):
                cells[r * shape[1] + j] = NAN
        for p in rng.sample(range(n), min(nans, n)):
            cells[p] = NAN
    return {"shape": list(shape), "cells": cells, "kind": kind}


def make_fills(ctx):
    rng = ctx.rng
    top = ctx.pick(3, 4)
    shapes1 = [(n,) for n in range(0, ctx.pick(3, 6) + 1)]
    shapes2 = [(a, b) for a in range(1, top + 1) for b in range(1, top + 1)] + [(0, 2), (2, 0)]
    fills = []
    for sh in shapes1 + shapes2:
        n = int(np.prod(sh))
        fills.append(gen_fill(rng, sh, "i"))
        if n == 0:
            fills.append(gen_fill(rng, sh, "f"))
            continue
        fills.append(gen_fill(rng, sh, "f", nans=1 if n < 4 else 2))
        if not ctx.quick or n in (4, 9):
            fills.append(gen_fill(rng, sh, "f", alphabet=(0, 1, 3)) if n > 1 else gen_fill(rng, sh, "f", nans=1))
        if len(sh) == 2 and sh[0] >= 2 and (not ctx.quick or n in (4, 6)):
            fills.append(gen_fill(rng, sh, "f", nan_row=True))
    # distinct
    seen, out = set(), []
    for f in fills:
        key = (tuple(f["shape"]), tuple(f["cells"]), f["kind"])
        if key not in seen:
            seen.add(key)
            out.append(f)
    return out


def tla_fill(f):
    return '[shape |-> %s, cells |-> %s, kind |-> "%s"]' % (T.tla_value(f["shape"]), T.tla_value(f["cells"]), f["kind"])


INVARIANTS = ["CellCount", "SumPreserved", "Within", "NonNegative", "ArgFirst", "NanArgSkipsNaN", "ScanLast", "TopKSorted",
              "KeepdimsShapeOnly", "TreeIndependent", "ArgTreeIndependent", "BlellochEqualsScan"]


QVEC = "<< <<0, 1>>, <<1, 4>>, <<1, 2>>, <<1, 1>> >>"
QFORMS_Q = "{[q |-> << <<3, 4>> >>, sq |-> TRUE, kd |-> TRUE], [q |-> %s, sq |-> FALSE, kd |-> FALSE]}" % QVEC
QFORMS_T = ("{[q |-> << <<1, 2>> >>, sq |-> TRUE, kd |-> FALSE], [q |-> << <<3, 4>> >>, sq |-> TRUE, kd |-> TRUE], "
            "[q |-> %s, sq |-> FALSE, kd |-> FALSE], [q |-> %s, sq |-> FALSE, kd |-> TRUE]}" % (QVEC, QVEC))


def nan_base(ctx):
    """NaN-free float fills on which TLC enumerates every NaN placement (2^cells of them)."""
    shapes = [(3, 2), (2, 3)] + ([] if ctx.quick else [(2, 2), (4, 2), (2, 4)])
    return [gen_fill(ctx.rng, sh, "f") for sh in shapes]


def long_fills(ctx):
    """Fills with a long axis (arg-reductions and scans only): up to 8 (thorough: 9) blocks, irregular chunkings."""
    rng = ctx.rng
    out = [gen_fill(rng, (5,), "i"), gen_fill(rng, (8,), "f", nans=1), gen_fill(rng, (4, 2), "i")]
    if not ctx.quick:
        out += [gen_fill(rng, (8,), "i"), gen_fill(rng, (9,), "f", nans=2), gen_fill(rng, (2, 5), "f", nans=2), gen_fill(rng, (7,), "i")]
    return out


def enumerate_cases(ctx, fills, fam="all", orders="{0, 1, 3, 4}", label="design+cases", qforms=None, nanbase=(), longfills=()):
    consts = {"Fam": fam, "Fills": TLA("{" + ", ".join(tla_fill(f) for f in fills) + "}"), "ZeroChunks": True,
              "NanBase": TLA("{" + ", ".join(tla_fill(f) for f in nanbase) + "}"),
              "LongFills": TLA("{" + ", ".join(tla_fill(f) for f in longfills) + "}"),
              "Orders": TLA(orders), "EmptyAxes": True, "QForms": TLA(qforms or ctx.pick(QFORMS_Q, QFORMS_T))}
    # KeepdimsShapeOnly evaluates the reference twice per case: thorough tier (and selftest) only
    invs = [i for i in INVARIANTS if not (ctx.quick and i == "KeepdimsShapeOnly")]
    spec, cfg = ctx.model(ctx.spec("array", "ReductionsMC.tla"), consts, invariants=invs)
    cases, r = ctx.tlc_cases(spec, cfg, label=label, timeout=3000)
    return [c for c in cases if c], r


def replay_cases(ctx, items, on_violation=None):
    """Run (case, exp, chunks, variants) items through dask; feed counts / violations into ctx.  Returns #violations."""
    nviol = 0
    results = pmap(_work, items, chunk=32)
    for (case, exp, chunks, _v), res in zip(items, results):
        for cl, variant, detail in res:
            if cl == "GUARD":
                raise MachineryError("TLA+ reference disagrees with NumPy on %r: %s (spec=%r)" % (case, detail, exp))
            if cl == "SKIP":
                ctx.skip(detail)
                continue
            nontrivial = (not exp["err"]) and len(exp["cells"]) > 0 and sum(len(c) for c in chunks) > len(chunks)
            ctx.count((slim(case), chunks, variant), nontrivial)
            if cl:
                nviol += 1
                sig = classify(case, chunks, cl, variant)
                if on_violation:
                    on_violation(sig, cl, case, chunks, variant)
                else:
                    ctx.violation(sig, "%s: dask disagrees with the reference on %s(%s)" % (cl, case["fam"], case["op"]),
                                  {"case": slim(case), "chunks": chunks, "expected": exp, "variant": variant, "observed": detail})
    return nviol


def slim(case):
    return {k: v for k, v in case.items() if k not in ("chunkings", "grp")}


# ----------------------------------------------------------------------------- code -> spec
def random_chunks(rng, shape, zero_p=0.12):
    chunks = []
    for s in shape:
        ch, left = [], s
        while left > 0:
            c = rng.randint(1, min(left, 3)) if rng.random() < 0.6 else rng.randint(1, left)
            ch.append(c)
            left -= c
        if not ch:
            ch = [0]
        elif rng.random() < zero_p:
            ch.insert(rng.randint(0, len(ch)), 0)
        chunks.append(ch)
    return chunks


def random_case(rng):
    fam = rng.choice(["fold"] * 5 + ["arg"] * 2 + ["cum"] * 3 + ["topk"] * 2 + ["quant"] * 2)
    nd = rng.choice([1, 1, 2, 2, 3])
    if nd == 1:
        shape = [rng.randint(1, 12)]
    elif nd == 2:
        shape = [rng.randint(1, 6), rng.randint(1, 5)]
    else:
        shape = [rng.randint(1, 4), rng.randint(1, 3), rng.randint(1, 3)]
    n = int(np.prod(shape))
    kind = rng.choice(["i", "f", "f"])
    case = {"fam": fam, "shape": shape, "kind": kind}
    singles = list(range(-nd, nd))
    if fam == "fold":
        op = rng.choice(["sum", "prod", "min", "max", "any", "all", "mean", "var", "std", "moment", "nansum", "nanprod",
                         "nanmin", "nanmax", "nanmean", "nanvar", "nanstd"])
        axes = [[NONE]] + [[a] for a in singles]
        if nd >= 2:
            axes += [[0, 1], [-1, 0]]
        if nd == 3:
            axes += [[0, 2], [2, 1], [0, 1, 2]]
        ax = rng.choice(axes)
        case.update(op=op, ax=ax, kd=rng.random() < 0.4,
                    p=(rng.choice([0, 1]) if op in DDOF_OPS else (rng.choice([0, 1, 2] + ([3] if n <= 16 else []) + ([4] if n <= 12 else [])) if op == "moment" else 0)))
    elif fam == "arg":
        case.update(op=rng.choice(["argmin", "argmax", "nanargmin", "nanargmax"]), ax=rng.choice([[NONE]] + [[a] for a in singles]),
                    kd=rng.random() < 0.4)
    elif fam == "cum":
        case.update(op=rng.choice(["cumsum", "cumprod", "nancumsum", "nancumprod"]), ax=rng.choice([[NONE]] + [[a] for a in singles]))
    elif fam == "topk":
        case.update(op=rng.choice(["topk", "argtopk"]), ax=[rng.choice(singles)], k=rng.choice([1, 2, 3, -1, -2, -3, 7, -7]))
    else:
        op = rng.choice(["median", "nanmedian", "quantile", "quantile"])
        axes = [[a] for a in singles] + ([[0, 1]] if nd >= 2 else [])
        case.update(op=op, ax=rng.choice(axes), kd=rng.random() < 0.4, q=[[1, 2]], sq=True, method="linear")
        if op == "quantile":
            vec = rng.random() < 0.5
            case.update(q=[[0, 1], [1, 4], [1, 2], [1, 1]] if vec else [rng.choice([[1, 2], [1, 4], [3, 4], [0, 1], [1, 1]])],
                        sq=not vec, method=rng.choice(["linear", "lower", "higher", "midpoint", "nearest"]))
    op = case["op"]
    prodlike = "prod" in op
    alphabet = (1, 1, 1, 2, 0, 3) if prodlike else (0, 1, 2, 3)
    cells = [rng.choice(alphabet) for _ in range(n)]
    if prodlike:
        big = 1
        for i, v in enumerate(cells):
            if v > 1:
                big *= v
                if big > 2 ** 20:
                    cells[i] = 1
    nan_ok = kind == "f" and fam != "topk" and op != "moment"
    if nan_ok and rng.random() < 0.6:
        for p in rng.sample(range(n), min(n, rng.choice([1, 1, 2, 3]))):
            cells[p] = NAN
    if fam == "arg" and kind == "f" and nd >= 2 and case["ax"] != [NONE] and rng.random() < 0.5:
        # a lane that is NaN on a leading stretch (all-NaN inside its first blocks, not in the whole array)
        # next to a lane with a NaN ahead of its extreme value
        a = np.array(cells, dtype="i8").reshape(shape)
        ax = case["ax"][0] % nd
        v = np.moveaxis(a, ax, 0).reshape(shape[ax], -1)        # rows: position along the axis, columns: lanes
        if v.shape[0] >= 2 and v.shape[1] >= 2:
            la, lb = rng.sample(range(v.shape[1]), 2)
            v[:rng.randint(1, v.shape[0] - 1), la] = NAN
            v[0, lb] = NAN
            a = np.moveaxis(v.reshape((shape[ax],) + tuple(s for i, s in enumerate(shape) if i != ax)), 0, ax)
            cells = [int(t) for t in a.ravel()]
    case["cells"] = cells
    case["chunks"] = random_chunks(rng, shape)
    case["variant"] = rng.choice(variants_of(case))
    case["whole"] = True
    return case


def rat_cell(case, v):
    """Observed float -> ([num, den], close)."""
    fv = float(v)
    if math.isnan(fv):
        return [0, 0], True
    if math.isinf(fv):
        return [1, 0], False
    fr = Fraction(fv)
    if case["op"] in SQUARED:
        fr = fr * fr
    small = fr.limit_denominator(1 << 20)
    close = abs(fr - small) <= tolerance(case, small) * (2 if case["op"] in SQUARED else 1) and abs(small.numerator) < 2 ** 30
    if not close:
        small = Fraction(0)
    return [small.numerator, small.denominator], close


def int_cell(v):
    fv = float(v)
    if math.isnan(fv):
        return NAN, True
    if math.isinf(fv) or fv != int(fv) or abs(fv) >= 2 ** 30:
        return 0, False
    return int(fv), True


def _record(item):
    i, case = item
    obs, full = run_dask(case, case["chunks"], case["variant"])
    if "skip" in obs:
        return None
    obs = dict(obs)
    obs.pop("msg", None)
    cells, close = [], True
    if full is not None:
        for v in np.asarray(full).ravel():
            c, ok = rat_cell(case, v) if case["op"] in RAT_OPS else int_cell(v)
            cells.append(c)
            close = close and ok
    obs["cells"] = cells
    obs["close"] = bool(close)
    obs.setdefault("ckind", "")
    rec = {k: v for k, v in case.items() if k != "whole"}
    rec["id"] = "r%d" % i
    rec["obs"] = obs
    return rec


def validate_records(ctx, recs, on_violation=None):
    spec, cfg = ctx.model(ctx.spec("array", "ReductionsTrace.tla"), {})
    nviol = 0
    for lo in range(0, len(recs), 4000):
        part = recs[lo:lo + 4000]
        rej = ctx.tlc_validate(spec, part, cfg, timeout=1800)
        byid = {r["id"]: r for r in part}
        for r in part:
            ctx.count(("rec", slim({k: v for k, v in r.items() if k not in ("obs", "id")})),
                      r["obs"]["raised"] == "" and len(r["obs"]["cells"]) > 0)
        for rid, clauses in rej.items():
            r = byid[rid]
            cl = clauses[0].strip("{}\" ").split('"')[0] or "Rejected"
            sig = classify(r, r["chunks"], cl, r["variant"])
            nviol += 1
            if on_violation:
                on_violation(sig, cl, r, r["chunks"], r["variant"])
            else:
                ctx.violation(sig, "TLC rejects a recorded reduction call (%s)" % clauses[0], {"record": r, "clauses": clauses})
    return nviol


# ----------------------------------------------------------------------------- entry points
def run(ctx):
    thorough = not ctx.quick
    fills = make_fills(ctx)
    cases, _ = enumerate_cases(ctx, fills, orders=ctx.pick("{1, 3}", "{0, 1, 3, 4}"), nanbase=nan_base(ctx),
                               longfills=long_fills(ctx))
    # share one chunking list per shape (the dump repeats it in every case)
    shared = {}
    for c in cases:
        key = tuple(c["c"]["shape"])
        c["c"]["chunkings"] = shared.setdefault(key, c["c"]["chunkings"])
    # (case, chunking) pairs, sampled per stratum (family; the NaN-placement family is its own stratum)
    caps = ctx.pick({"fold": 2000, "arg": 450, "nanplace": 1100, "longarg": 300, "longcum": 350, "cum": 350, "topk": 350, "quant": 700},
                    {"fold": 44000, "arg": 8000, "nanplace": 13000, "longarg": 5000, "longcum": 5000, "cum": 6000, "topk": 6000,
                     "quant": 14000})
    strata = {}
    for c in cases:
        strata.setdefault(c["c"].get("grp", c["c"]["fam"]), []).append(c)
    items, total_pairs, sampled = [], 0, False
    for grp in sorted(strata):
        cs = strata[grp]
        counts = [len(c["c"]["chunkings"]) for c in cs]
        total = sum(counts)
        total_pairs += total
        cap = caps[grp]
        if total > cap:
            sampled = True
            picks = sorted(ctx.rng.sample(range(total), cap))
        else:
            picks = range(total)
        ci, base = 0, 0
        for p in picks:
            while p >= base + counts[ci]:
                base += counts[ci]
                ci += 1
            c = cs[ci]
            vs = variants_of(c["c"])
            if not thorough and len(vs) > 2:
                vs = ctx.rng.sample(vs, 2)
            items.append((c["c"], c["e"], c["c"]["chunkings"][p - base], vs))
    replay_cases(ctx, items)
    for fam in ("fold", "arg", "cum", "topk", "quant"):
        for it in items:
            if it[0]["fam"] == fam:
                ctx.sample({"case": slim(it[0]), "chunks": it[2], "expected": it[1]})
                break
    # code -> spec
    nrec = ctx.pick(700, 8000)
    recs = [r for r in pmap(_record, [(i, random_case(ctx.rng)) for i in range(nrec)], chunk=32) if r is not None]
    validate_records(ctx, recs)
    ctx.exhaustive = not sampled
    ctx.rule = ("cases = TLC-enumerated (data fill, operation, parameters, axis, keepdims) x every chunking of the shape x "
                "split_every/method variants, plus recorded random calls; non-trivial = the reference result is non-empty, not an "
                "expected error, and the array has more than one block; distinct by (case, chunking, variant)")
    ctx.extra["cases_enumerated_by_tlc"] = len(cases)
    ctx.extra["case_x_chunking_pairs"] = total_pairs
    ctx.extra["pairs_replayed"] = len(items)
    ctx.extra["data_fills"] = len(fills)
    ctx.assumptions = ["NumPy per-block kernels are correct", "TLC evaluates the reference semantics correctly",
                       "data fills are seeded samples over values 0..3 and NaN; shapes bounded as listed",
                       "float results compared within 2^-40*n*max(1,|x|) of the exact rational"]


def replay(ctx, obj):
    c = obj["case"]
    if "record" in c:
        r = c["record"]
        case = {k: v for k, v in r.items() if k not in ("obs", "id")}
        case["whole"] = True
        rec = _record((int(r["id"][1:]), case))
        spec, cfg = ctx.model(ctx.spec("array", "ReductionsTrace.tla"), {})
        rej = ctx.tlc_validate(spec, [rec], cfg)
        print("observed:", rec["obs"], "rejected:", rej)
        return bool(rej)
    case, exp, chunks, variant = c["case"], c["expected"], c["chunks"], c["variant"]
    obs, full = run_dask(case, chunks, variant)
    cl = judge(case, exp, obs, full)
    print("case:", case, "\nchunks:", chunks, "variant:", variant, "\nexpected:", exp, "\nobserved:", obs,
          None if full is None else np.asarray(full).tolist(), "\nclause:", cl)
    return cl is not None


# ----------------------------------------------------------------------------- selftest
def _mutate(modules, funcname, old, new):
    """In-memory source mutant of modules[0].funcname (never touches /repo): re-executes the function's source
    with `old` replaced by `new` in its defining module and rebinds the name in every listed module."""
    import inspect
    home = modules[0]
    orig = getattr(home, funcname)
    src = inspect.getsource(orig)
    if src.count(old) != 1:
        raise MachineryError("selftest mutant: %r not found exactly once in %s" % (old, funcname))
    ns = home.__dict__
    exec(compile(src.replace(old, new), "<mutant %s>" % funcname, "exec"), ns)      # noqa: S102
    mutant = ns[funcname]
    for m in modules[1:]:
        setattr(m, funcname, mutant)

    def restore():
        for m in modules:
            setattr(m, funcname, orig)
    return restore


def selftest(ctx):
    import dask.array._reductions_generic as G
    import dask.array.reductions as R
    rng = ctx.rng
    fills = [{"shape": [5], "cells": [2, 0, 3, 0, 1], "kind": "i"},
             {"shape": [4], "cells": [1, 3, 3, 0], "kind": "f"},
             {"shape": [2, 3], "cells": [1, 3, 0, 1, 0, 3], "kind": "i"}]
    cases, _ = enumerate_cases(ctx, fills, orders="{3}", label="selftest cases", qforms=QFORMS_Q)
    known = set(ctx.known)

    def items_for(pred, limit=45):
        pairs = [(c, ch) for c in cases if pred(c["c"]) for ch in c["c"]["chunkings"]
                 if not has_zero_chunk(c["c"], ch)]
        pairs = rng.sample(pairs, min(limit, len(pairs)))
        return [(c["c"], c["e"], ch, variants_of(c["c"])) for c, ch in pairs]

    def new_violations(items):
        found = []
        replay_cases(ctx, items, on_violation=lambda sig, cl, case, ch, v: found.append((sig, cl)))
        return [f for f in found if f[0] not in known]

    mutants = [
        ("arg_reduction: block offsets computed as if chunks were regular (index * first chunk size)",
         [R], "arg_reduction", "accumulate(operator.add, bd[:-1], 0)", "(i * bd[0] for i in range(len(bd)))",
         lambda c: c["fam"] == "arg"),
        ("prefixscan_blelloch: down-sweep starts one block late (off-by-one in the pairing)",
         [R], "prefixscan_blelloch", "range(stride2 + stride - 1, n_vals, stride2)", "range(stride2 + stride, n_vals, stride2)",
         lambda c: c["fam"] == "cum" and len(c["shape"]) == 1),
        ("cumreduction (sequential): carries the first instead of the last element of the previous block",
         [R], "cumreduction", "(slice(-1, None),)", "(slice(0, 1),)",
         lambda c: c["fam"] == "cum"),
        ("_tree_reduce: depth of the combine tree one level short (last partial groups never combined)",
         [G, R], "_tree_reduce", "for _ in range(depth - 1):", "for _ in range(depth - 2):",
         lambda c: c["fam"] == "fold" and c["op"] in ("sum", "max", "mean", "nansum")),
        ("moment_agg: ddof dropped from the divisor",
         [R], "moment_agg", "denominator = n.sum(axis=axis, **kwargs) - ddof", "denominator = n.sum(axis=axis, **kwargs)",
         lambda c: c["fam"] == "fold" and c["op"] in ("var", "std", "nanvar") and c["p"] == 1),
        ("arg_chunk: flat offset of a block dropped for axis=None",
         [R], "arg_chunk", "total_ind = tuple(o + i for (o, i) in zip(offset, ind))", "total_ind = tuple(i for (o, i) in zip(offset, ind))",
         lambda c: c["fam"] == "arg" and c["ax"] == [NONE]),
    ]
    ok = True
    for what, mods, fn, old, new, pred in mutants:
        items = items_for(pred)
        base = new_violations(items)
        restore = _mutate(mods, fn, old, new)
        try:
            got = new_violations(items)
        finally:
            restore()
        good = not base and len(got) > 0
        ok = ok and good
        print("selftest mutant [%s]: %s -> %s (%d evaluations of %d cases flagged, e.g. %s; unmutated: %d)"
              % (fn, what, "DETECTED" if good else "MISSED", len(got), len(items), got[0][0] if got else "-", len(base)))
    # (ii) corrupted recorded fields are rejected by the trace specification
    recs = []
    i = 0
    while len(recs) < 32 and i < 300:
        case = random_case(rng)
        i += 1
        if has_zero_chunk(case, case["chunks"]) or case["fam"] == "topk" and abs(case["k"]) >= case["shape"][case["ax"][0]]:
            continue
        r = _record((i, case))
        if r is not None and r["obs"]["raised"] == "" and len(r["obs"]["cells"]) > 1:
            recs.append(r)
    spec, cfg = ctx.model(ctx.spec("array", "ReductionsTrace.tla"), {})
    import copy
    corrupt = []
    for j, r in enumerate(recs):
        c = copy.deepcopy(r)
        kind = j % 4
        if kind == 0:          # one cell of the recorded content changed
            cell = c["obs"]["cells"][-1]
            c["obs"]["cells"][-1] = [cell[0] + 1, max(1, cell[1])] if isinstance(cell, list) else (cell + 1 if cell != NAN else 0)
            c["want"] = "Content"
        elif kind == 1:        # an output block was dropped from the record
            c["obs"]["blocksok"] = False
            c["want"] = "Meta"
        elif kind == 2:        # recorded dtype class changed
            c["obs"]["kind"] = "b" if c["obs"]["kind"] != "b" else "i"
            c["want"] = "Kind"
        else:                  # recorded shape changed
            c["obs"]["cshape"] = c["obs"]["cshape"] + [1]
            c["want"] = "Shape"
        c["id"] = "x" + r["id"]
        corrupt.append(c)
    rej = ctx.tlc_validate(spec, recs + corrupt, cfg)         # one TLC run decides originals and corrupted copies
    rej0 = {k: v for k, v in rej.items() if not k.startswith("x")}
    clean = [r for r in recs if r["id"] not in rej0]
    corrupt = [c for c in corrupt if c["id"][1:] not in rej0]
    missed = [c["id"] for c in corrupt if c["id"] not in rej or c["want"] not in rej[c["id"]][0]]
    good = bool(clean) and not missed and len(rej0) <= len(recs) // 4
    ok = ok and good
    print("selftest trace: %d recorded calls accepted (%d rejected before corruption); %d corrupted copies "
          "(content / dropped block / dtype class / shape) -> %d rejected with the expected clause: %s"
          % (len(clean), len(rej0), len(corrupt), len(corrupt) - len(missed), "DETECTED" if good else "MISSED %r" % missed[:3]))
    print("C22 selftest: %s" % ("ok" if ok else "FAILED"))
    return 0 if ok else 1
