"""C52 - local diagnostics report every executed task faithfully.

Profiler: runs of scheduler configurations (the C01-C04 universe, failing tasks included) inside a
`with Profiler()` block on the sync and threaded schedulers; what the profiler reports is recorded
next to what an independent recording callback saw, and TLC decides the clauses
(specs/sched/DiagnosticsTrace.tla).  Cache: specs/sched/DiagnosticsMC.tla is the state machine of
cached runs over one graph (Run / Evict); TLC explores all bounded histories, every history is
replayed on the real dask.cache.Cache (over a dict-backed cachey stand-in whose evictions the
history dictates), and longer random histories are validated by TLC."""
from __future__ import annotations

import os
import random
import sys
from functools import partial

from .. import sched as S
from .. import schedrun as R
from ..core import TLA, MachineryError
from ..par import pmap

META = {
    "title": "Local diagnostics report every executed task faithfully",
    "design_ref": "DESIGN.md §4.1 C52",
    "technique": "TLA+ state machine of cached runs (Run/Evict) model-checked and replayed on dask.cache.Cache; Profiler reports "
                 "validated by TLC against independently recorded scheduler events",
    "level_text": "Cache: all histories of <= 3 runs with arbitrary evictions in between over every graph of <= 3 keys (tasks, data, "
                  "aliases, tasks returning key names) and requests of 1-2 keys are model-checked (result unchanged, store sound) and "
                  "replayed on the real Cache; random histories on 4-8 key graphs are validated by TLC. Profiler: one entry per completed "
                  "task, start<=end, cleared on re-entry, over seeded configurations incl. failing tasks on sync and threaded schedulers.",
    "level_note": "Trusted: TLC; the dict-backed cachey stand-in (cachey itself is not installed; its cost-based eviction is "
                  "over-approximated by arbitrary eviction between runs). ResourceProfiler/CacheProfiler/ProgressBar rendering are "
                  "not modelled (not in the statement). Time stamps are compared only as start <= end.",
}

SHIMS = os.path.join(os.path.dirname(os.path.dirname(os.path.abspath(__file__))), "shims_cachey")


def namer(label, *args):
    return label


def graph_of(cfg, style="legacy"):
    """real graph; 'namer' nodes are tasks that return the name of a key"""
    c2 = dict(cfg, nodes=[{"kind": "task", "args": []} if nd["kind"] == "namer" else nd for nd in cfg["nodes"]])
    g = S.real_graph(c2, style)
    for i, nd in enumerate(cfg["nodes"], 1):
        if nd["kind"] == "namer":
            lab = S.key(nd["args"][0]["n"])
            if style == "legacy":
                g[S.key(i)] = (partial(namer, lab),)
            else:
                from dask._task_spec import Task
                g[S.key(i)] = Task(S.key(i), partial(namer, lab))
    return g


# --------------------------------------------------------------------------- profiler

def profiler_record(item):
    i, cfg = item
    import dask.local
    import dask.threaded
    from dask.callbacks import Callback
    from dask.diagnostics import Profiler
    posted = []
    watcher = Callback(posttask=lambda k, v, d, s, w: posted.append(S._k(k)))
    g = S.real_graph(cfg, "legacy" if i % 2 else "taskspec", ["exc", "base", "value"][i % 3])
    req = S.real_request(cfg["req"])
    prof = Profiler()
    # every fourth run has a second, globally registered profiler active in the same scheduler call
    prof2 = Profiler() if i % 4 == 1 else None
    if prof2 is not None:
        prof2.register()
    raised = False
    err = ""
    try:
        with prof, watcher:
            try:
                if i % 3 == 0:
                    dask.threaded.get(g, req, num_workers=cfg["nw"], chunksize=cfg["cs"])
                else:
                    dask.local.get_sync(g, req, chunksize=cfg["cs"])
            except BaseException as e:  # noqa: BLE001
                raised = True
                if not str(e).startswith("boom k"):
                    err = "%s: %s" % (type(e).__name__, str(e)[:100])
        results = [S._k(t.key) for t in prof.results]
        ordered = all(t.start_time <= t.end_time for t in prof.results)
        with prof:
            cleared = len(prof.results) == 0
    except Exception as e:  # noqa: BLE001 - the profiler itself raised
        return [{"id": "p%d" % i, "kind": "profiler", "cfg": cfg, "posted": posted, "results": [-1], "ordered": False,
                 "cleared": False, "err": "%s: %s" % (type(e).__name__, str(e)[:100])}]
    finally:
        if prof2 is not None:
            try:
                prof2.unregister()
            except Exception:  # noqa: BLE001
                pass
    out = [{"id": "p%d" % i, "kind": "profiler", "cfg": cfg, "posted": posted, "results": results, "ordered": bool(ordered),
            "cleared": bool(cleared), "err": err, "raised": raised}]
    if prof2 is not None:
        out.append({"id": "p%db" % i, "kind": "profiler", "cfg": cfg, "posted": posted,
                    "results": [S._k(t.key) for t in prof2.results],
                    "ordered": all(t.start_time <= t.end_time for t in prof2.results), "cleared": True, "err": err, "raised": raised,
                    "second_profiler": True})
    return out


# --------------------------------------------------------------------------- cache

def cache_graph_universe(rng, n_graphs):
    """graphs over <= 3 keys incl. namer nodes (a task returning the name of a smaller key)"""
    out = []
    for n in (2, 3):
        for g in S.all_graphs(n, ("flat", "lit")):
            out.append({"n": n, "nodes": g})
            for k in range(2, n + 1):
                for j in range(1, k):
                    g2 = [dict(x) for x in g]
                    g2[k - 1] = {"kind": "namer", "args": [{"n": j}]}
                    out.append({"n": n, "nodes": g2})
    seen, uniq = set(), []
    for c in out:
        s = repr(c)
        if s not in seen:
            seen.add(s)
            uniq.append(c)
    rng.shuffle(uniq)
    # keep every namer graph family represented
    namers = [c for c in uniq if any(nd["kind"] == "namer" for nd in c["nodes"])]
    plain = [c for c in uniq if c not in namers]
    pick = namers[: n_graphs // 2] + plain[: n_graphs - min(len(namers), n_graphs // 2)]
    for c in pick:
        c.update({"req": {"k": 1}, "nw": 1, "cs": 1, "fails": [], "pack": True, "prio": list(range(c["n"]))})
    return pick


def run_cache_history(cfg, hist, style="legacy", threaded=False):
    """Execute a Run/Evict history on the real dask.cache.Cache; returns observed runs."""
    if SHIMS not in sys.path:
        sys.path.append(SHIMS)
    import dask.local
    import dask.threaded
    from dask.cache import Cache
    cache = Cache(1e9)
    obs = []
    for st in hist:
        if st["op"] == "evict":
            cache.cache.evict([S.key(k) for k in st["keys"]])
            continue
        g = graph_of(cfg, style)
        req = S.real_request(st["req"])
        o = {"req": st["req"], "ret": "", "raised": False, "err": ""}
        try:
            with cache:
                if threaded:
                    out = dask.threaded.get(g, req, num_workers=2)
                else:
                    out = dask.local.get_sync(g, req)
            o["ret"] = S.fmt_result(st["req"], out)
        except Exception as e:  # noqa: BLE001
            o["raised"] = True
            o["err"] = "%s: %s" % (type(e).__name__, str(e)[:150])
        obs.append(o)
    return obs


def _replay_cache(item):
    cfg, hist, i = item
    obs = run_cache_history(cfg, hist, "legacy" if i % 2 else "taskspec", threaded=i % 3 == 0)
    runs = [h for h in hist if h["op"] == "run"]
    for h, o in zip(runs, obs):
        if o["raised"]:
            return "CacheRaised", obs
        if o["ret"] != h["ret"]:
            return "ResultUnchangedByCache", obs
    return None, None


def classify(cfg, clause):
    kinds = sorted({nd["kind"] for nd in cfg["nodes"]})
    return "%s:%s" % (clause, "value-names-a-key" if "namer" in kinds else "plain")


def random_cache_record(item):
    i, cfg, seed = item
    rng = random.Random(seed)
    n = cfg["n"]
    hist = []
    for _ in range(rng.randint(2, 5)):
        ks = rng.sample(range(1, n + 1), rng.randint(1, min(3, n)))
        hist.append({"op": "run", "req": {"x": [{"k": k} for k in ks]}})
        if rng.random() < 0.6:
            hist.append({"op": "evict", "keys": rng.sample(range(1, n + 1), rng.randint(1, n))})
    obs = run_cache_history(cfg, hist, "legacy" if i % 2 else "taskspec", threaded=i % 2 == 0)
    return {"id": "c%d" % i, "kind": "cache", "cfg": cfg, "runs": [{"req": o["req"], "ret": o["ret"], "raised": o["raised"]} for o in obs],
            "hist": hist}


def core(ctx, rng, n_prof, n_graphs, n_rand, maxruns):
    before = len(ctx.violations)
    # ---- profiler (code -> spec)
    cfgs = R.prepare(ctx, R.universe(rng, 4, n_prof, "some") + R.structured_configs(rng, n_prof // 3, "some"))
    # in forked children only: a thread pool created in this process before a later fork would leave
    # the forked workers with a dead pool
    recs = [r for rs in pmap(profiler_record, list(enumerate(cfgs)), chunk=10, always=True) for r in rs]
    spec, cfg = ctx.model(ctx.spec("sched", "DiagnosticsTrace.tla"), {})
    for r in recs:
        ctx.count(("prof", r["cfg"]), len(r["posted"]) >= 2)
        if r["err"]:
            ctx.violation("ProfilerRaised", "an unexpected exception under the Profiler: " + r["err"], {"kind": "profiler", "cfg": r["cfg"]})
    good = [{k: v for k, v in r.items() if k not in ("err", "raised", "second_profiler")} for r in recs if not r["err"]]
    rej = ctx.tlc_validate(spec, good, cfg, label="profiler-records", timeout=900)
    byid = {r["id"]: r for r in recs}
    for rid, clauses in rej.items():
        cl = clauses[0].strip('{} "').split('"')[0]
        ctx.violation("Profiler:%s:%s%s" % (cl, "failing-run" if byid[rid].get("raised") else "ok-run",
                                            ":two-profilers" if byid[rid].get("second_profiler") or rid + "b" in byid else ""),
                      "TLC rejects a Profiler report: %s" % clauses[0], {"kind": "profiler", "record": byid[rid]})
    if recs:
        ctx.sample({"profiler": {"posted": recs[0]["posted"], "results": recs[0]["results"]}})
    # ---- cache design + replay
    graphs = cache_graph_universe(rng, n_graphs)
    path = R.write_configs(ctx, graphs, "cache-configs.ndjson")
    specm, cfgm = ctx.model(ctx.spec("sched", "DiagnosticsMC.tla"), {"Wrapped": True, "MaxRuns": maxruns},
                            invariants=["ResultUnchangedByCache", "StoreSound"])
    cases, _ = ctx.tlc_cases(specm, cfgm, env={"CONFIG_FILE": path}, label="cache design+histories (values wrapped as data)", timeout=1200)
    # vacuity / evidence: without wrapping, TLC finds the key-name hazard
    specu, cfgu = ctx.model(ctx.spec("sched", "DiagnosticsMC.tla"), {"Wrapped": False, "MaxRuns": 2}, invariants=["ResultUnchangedByCache"])
    ru = ctx.tlc(specu, cfgu, env={"CONFIG_FILE": path}, allow_violation=True, count=False, label="cache design (raw write-back) must fail")
    if "ResultUnchangedByCache" not in ru.violated:
        raise MachineryError("vacuity: the raw write-back model no longer shows the key-name hazard")
    cap = ctx.pick(1000, 40000)
    if len(cases) > cap:
        cases = rng.sample(cases, cap)
    items = [(graphs[c["cid"] - 1], c["hist"], i) for i, c in enumerate(cases)]
    res = pmap(_replay_cache, items, chunk=100, always=True)
    for (g, h, i), (cl, obs) in zip(items, res):
        ctx.count(("cachehist", g["nodes"], h), sum(1 for s in h if s["op"] == "run") >= 2)
        if cl:
            ctx.violation(classify(g, cl), "replay of a cached-run history on dask.cache.Cache: %s" % cl,
                          {"kind": "cache", "cfg": g, "hist": h, "observed": obs})
    ctx.traces += len(items)
    if items:
        ctx.sample({"cache_history": items[0][1]})
    # ---- cache code -> spec
    big = [c for c in R.prepare(ctx, R.universe(rng, 4, n_rand, "none") + R.structured_configs(rng, n_rand // 2, "none"))]
    crecs = pmap(random_cache_record, [(i, c, ctx.seed * 7919 + i) for i, c in enumerate(big)], chunk=20, always=True)
    rej = ctx.tlc_validate(spec, [{k: v for k, v in r.items() if k != "hist"} for r in crecs], cfg, label="cache-records", timeout=900)
    byid = {r["id"]: r for r in crecs}
    for r in crecs:
        ctx.count(("cacherec", r["cfg"], r["hist"]), True)
    for rid, clauses in rej.items():
        cl = clauses[0].strip('{} "').split('"')[0]
        ctx.violation(classify(byid[rid]["cfg"], cl), "TLC rejects a recorded cached-run history: %s" % clauses[0],
                      {"kind": "cache", "cfg": byid[rid]["cfg"], "hist": byid[rid]["hist"]})
    return len(ctx.violations) - before


def run(ctx):
    core(ctx, ctx.rng, ctx.pick(240, 3000), ctx.pick(40, 60), ctx.pick(120, 1500), ctx.pick(2, 3))
    ctx.rule = ("cases = Profiler reports of seeded scheduler configurations; TLC-enumerated Run/Evict histories over small graphs "
                "replayed on dask.cache.Cache; seeded random cached histories on larger graphs; non-trivial = >= 2 completed tasks / "
                ">= 2 runs")
    ctx.exhaustive = False


def replay(ctx, obj):
    c = obj["case"]
    if c["kind"] == "cache":
        obs = run_cache_history(c["cfg"], c["hist"])
        print(obs)
        spec, cfg = ctx.model(ctx.spec("sched", "DiagnosticsTrace.tla"), {})
        rej = ctx.tlc_validate(spec, [{"id": "c0", "kind": "cache", "cfg": c["cfg"],
                                       "runs": [{"req": o["req"], "ret": o["ret"], "raised": o["raised"]} for o in obs]}], cfg)
        return bool(rej)
    rs = profiler_record((1, c.get("cfg") or c["record"]["cfg"]))
    print(rs)
    return any(bool(r["err"]) or sorted(r["results"]) != sorted(r["posted"]) for r in rs)


def selftest(ctx):
    import dask.cache as DC
    import dask.diagnostics.profile as DP

    from ..mutate import source_mutant
    ok = True
    rng = random.Random(11)
    with _patch_profiler_finish():
        n = core(ctx, rng, 60, 20, 10, 2)
    print("mutant profiler-keeps-unfinished: %s (%d)" % ("DETECTED" if n else "MISSED", n)); ok &= n > 0
    orig = DC.Cache._posttask

    def bad_post(self, key, value, dsk, state, id):
        deps = sorted(state["dependencies"][key])
        orig(self, key, value, dsk, state, id)
        if deps:                       # also "refreshes" a dependency's entry - with this task's value
            self.cache.put(deps[0], value, cost=1, nbytes=1)
    DC.Cache._posttask = bad_post
    try:
        n = core(ctx, rng, 20, 30, 30, 3)
    finally:
        DC.Cache._posttask = orig
    print("mutant cache-stores-under-wrong-key: %s (%d)" % ("DETECTED" if n else "MISSED", n)); ok &= n > 0
    import glob
    for f in glob.glob(os.path.join(os.path.dirname(os.path.dirname(SHIMS)), "replays", "C52-*.json")):
        os.remove(f)
    return 0 if ok else 1


class _patch_profiler_finish:
    def __enter__(self):
        import dask.diagnostics.profile as DP
        self.orig = DP.Profiler._finish

        def bad(prof, dsk, state, failed):
            from itertools import starmap
            results = {k: (v + (0, None))[:5] for k, v in prof._results.items() if len(v) >= 3}
            prof.results += list(starmap(DP.TaskData, results.values()))
            prof._results.clear()
        DP.Profiler._finish = bad

    def __exit__(self, *a):
        import dask.diagnostics.profile as DP
        DP.Profiler._finish = self.orig
