"""C31 - tensor products equal NumPy for any chunking; decompositions: structure, triangularity, reconstruction.

Pattern C.  specs/array/Tensor.tla defines tensordot / dot / inner / outer / vdot / matmul (broadcasting
batch axes, 1-d promotion) / einsum (explicit and implicit output, ellipsis, repeated letters, extent-1
broadcasting) as integer sums of products over element ids.  spec -> code: TLC enumerates
(specs/array/TensorMC.tla) every case of the bounded space - all ordered pairs of operand shapes, every
axes specification of tensordot, a menu of einsum subscripts - with the result the reference demands
(and checks the reference against itself: tensordot / matmul / outer are the einsums they should be), and
every chunking of every operand shape; each case runs on real dask arrays under those chunkings, every
output block computed through its own key.  code -> spec: seeded random larger cases (random shapes,
chunkings incl. zero-width chunks, random axes / random einsum subscripts) are recorded and TLC decides
every record (TensorTrace.tla).  NumPy is only the reference *guard*.

qr / svd / tsqr / sfqr: the factors themselves are floating-point linear algebra that an integer model cannot
compute.  The specification gives the documented domain of each function (which chunkings are supported), the
factor shapes and the chunk-consistency clause; TLC enumerates every row chunking (incl. row blocks shorter than the
matrix is wide) x one-block / split column chunking of small tall, square and fat matrices; inside the domain the
real call must not raise, the factors must have the specified shapes, every block must match .chunks, R must be
exactly upper triangular, and the errors of the reconstruction, of Q'Q = I and of the singular values - computed by
the harness from the real factors of a small integer matrix and reported as integers - must stay below 1e-6 (TLC
decides every record).  lstsq / solve / inv / lu / cholesky need scipy, which is absent: not decided."""
from __future__ import annotations

import itertools

import numpy as np

from ..arrays import cells, observe, py_chunks, raised
from ..core import TLA, MachineryError
from ..par import pmap

META = {
    "title": "Tensor products equal NumPy for any chunking; qr / svd are defined, well-shaped, triangular and reconstruct their input",
    "design_ref": "DESIGN.md §4.3 C31",
    "technique": "TLA+ reference semantics of tensordot/dot/inner/outer/vdot/matmul/einsum as integer sums of products over element "
                 "ids; TLC enumerates shapes x axes specifications x einsum subscripts and all chunkings; replay into dask + TLC "
                 "validation of recorded calls",
    "level_text": "Small-scope exhaustive: TLC enumerates all ordered pairs of 6 (quick) / 8 (thorough) operand shapes with <= 3 axes and extents <= 3 for "
                  "tensordot (every axes specification: 0..3 contracted pairs in every order, negative spelling, integer axes, failing "
                  "ones), dot, inner, outer, vdot, matmul (1-d promotion, broadcasting batch axes), and a menu of 44 einsum subscripts "
                  "(contractions, 3 operands, transposes/sums, traces and diagonals, ellipsis broadcasts, extent-1 broadcasts, implicit "
                  "output, NumPy errors; thorough: also with extents 2 and 3 exchanged); the TLA+ reference gives shape, content and "
                  "error and is checked against itself (tensordot/matmul/outer = the corresponding einsum). Every case is replayed on "
                  "dask under all chunkings of the operands (thorough; capped per case) or a seeded sample of them (quick), block by "
                  "block. Random larger cases are decided by TLC from recorded calls. Decompositions: qr / tsqr / sfqr / svd on tall, "
                  "square and fat matrices up to 6x3 (quick) / 8x4 (thorough), every chunking of the long axis (row blocks shorter than "
                  "the matrix is wide included) x one-block or split short axis: inside the documented domain (given by the "
                  "specification) no exception, factor shapes (m,k)(k,n) [(m,k)(k)(k,n)], blocks consistent with the declared chunks, "
                  "R exactly upper triangular, reconstruction / orthonormality / singular values within 1e-6 (error measures computed "
                  "from the real factors, decided by TLC).",
    "level_note": "Decompositions: the factors are floating-point linear algebra an explicit-state integer model cannot compute; the "
                  "specification decides domain, shapes, chunk consistency, and thresholds on error measures that the harness computes "
                  "with NumPy from the real factors of ONE small integer matrix per shape (so numerical quality on other data, "
                  "conditioning, sign conventions are not decided). lstsq / solve / inv / lu / cholesky / solve_triangular need "
                  "scipy (absent): not decided; svd_compressed (randomized) not decided. Trusted: TLC, the TLA+ reference "
                  "(cross-checked against NumPy on every case; a disagreement is a machinery error), the block-assembly projection, "
                  "NumPy's per-block kernels. da.inner does not exist in this dask (np.inner falls back to NumPy): inner cases are "
                  "skipped. einsum with a letter repeated in one operand is run only with equal chunking on the repeated axes "
                  "(which dask requires). Integer ids only: dtype promotion and floating-point summation order are not examined.",
}

INVS = ["TensorDotIsEinsum", "MatrixProductsAgree", "MatMulIsEinsum", "OuterIsEinsum", "CellsSane", "DecompSane"]
OPS = ["tensordot", "dot", "inner", "outer", "vdot", "matmul", "einsum"]
ELL = 0


def operands(shapes):
    out, base = [], 0
    for s in shapes:
        n = int(np.prod(s)) if len(s) else 1
        out.append(np.arange(base + 1, base + n + 1, dtype="i8").reshape(tuple(s)))
        base += n
    return out


def sub_text(sub):
    return "".join("..." if v == ELL else chr(96 + v) for v in sub)


def subscripts(case):
    s = ",".join(sub_text(x) for x in case["ins"])
    return s if case["impl"] else s + "->" + sub_text(case["out"])


def apply_numpy(case, ops):
    op = case["op"]
    if op == "tensordot":
        return np.tensordot(ops[0], ops[1], axes=(list(case["la"]), list(case["ra"])))
    if op == "tensordotn":
        return np.tensordot(ops[0], ops[1], axes=case["n"])
    if op == "dot":
        return np.dot(ops[0], ops[1])
    if op == "inner":
        return np.inner(ops[0], ops[1])
    if op == "outer":
        return np.outer(ops[0], ops[1])
    if op == "vdot":
        return np.vdot(ops[0], ops[1])
    if op == "matmul":
        return np.matmul(ops[0], ops[1])
    if op == "einsum":
        return np.einsum(subscripts(case), *ops)
    raise MachineryError("unknown op %r" % op)


def np_reference(case):
    try:
        r = np.asarray(apply_numpy(case, operands(case["shapes"])))
        return {"err": False, "shape": list(r.shape), "cells": cells(r)}
    except Exception:  # noqa: BLE001 - NumPy raises: the reference has no value
        return {"err": True}


def run_dask(case, chunks, variant=0):
    """Apply the case to real dask arrays cut into `chunks` (one chunking per operand); -> (obs, cells or None)"""
    import warnings
    import dask.array as da
    warnings.simplefilter("ignore")           # PerformanceWarning (many small chunks), FutureWarning of np.inner
    op = case["op"]
    if op == "inner" and not hasattr(da, "inner"):
        return {"skip": "da.inner is not implemented by this dask (np.inner falls back to NumPy)"}, None
    try:
        src = operands(case["shapes"])
        xs = [da.from_array(a, chunks=py_chunks(c)) for a, c in zip(src, chunks)]
        if variant % 4 == 3 and op in ("tensordot", "tensordotn", "matmul", "einsum") and len(xs) >= 2:
            xs[1] = src[1]                    # a NumPy operand next to the dask one
        a, b = xs[0], (xs[1] if len(xs) > 1 else None)
        if op == "tensordot":
            la, ra = list(case["la"]), list(case["ra"])
            if len(la) == 1 and variant % 2:
                axes = (la[0], ra[0])
            elif variant % 3 == 1:
                axes = (tuple(la), tuple(ra))
            else:
                axes = (la, ra)
            y = da.tensordot(a, b, axes=axes)
        elif op == "tensordotn":
            y = da.tensordot(a, b, axes=case["n"])
        elif op == "dot":
            y = (lambda: da.dot(a, b), lambda: a.dot(b), lambda: np.dot(a, b))[variant % 3]()
        elif op == "inner":
            y = da.inner(a, b)
        elif op == "outer":
            y = (lambda: da.outer(a, b), lambda: np.outer(a, b))[variant % 2]()
        elif op == "vdot":
            y = (lambda: da.vdot(a, b), lambda: np.vdot(a, b))[variant % 2]()
        elif op == "matmul":
            y = (lambda: da.matmul(a, b), lambda: a @ b, lambda: np.matmul(a, b))[0 if isinstance(b, np.ndarray) else variant % 3]()
        elif op == "einsum":
            kw = {}
            if variant % 5 == 1:
                kw["split_every"] = 2
            if variant % 5 == 2:
                kw["optimize"] = "greedy"
            y = da.einsum(subscripts(case), *xs, **kw)
        else:
            raise MachineryError("unknown op %r" % op)
        if not isinstance(y, da.Array):
            return {"skip": "the call did not return a dask array (NumPy fallback)"}, None
        obs, full = observe(y, whole_too=True)
        return obs, (cells(full) if full is not None else None)
    except NotImplementedError as ex:
        return {"skip": "NotImplementedError: " + str(ex)[:60]}, None
    except MachineryError:
        raise
    except Exception as ex:  # noqa: BLE001 - every other exception is an observation
        o = raised(ex)
        o["msg"] = str(ex)[:200]
        return o, None


def judge(exp, obs, got):
    """clause of the property the observation breaks, or None"""
    if "skip" in obs:
        return None
    if exp["err"]:
        return None if obs["raised"] else "ErrorExpected"     # NumPy has no result; any exception is accepted
    if obs["raised"]:
        return "UnexpectedRaise"
    if obs["cshape"] != list(exp["shape"]):
        return "Shape"
    if got != list(exp["cells"]):
        return "Content"
    if len(obs["chunks"]) != len(obs["cshape"]) or len(obs["lshape"]) != len(obs["cshape"]) or not obs["blocksok"]:
        return "Meta"
    for a, ch in enumerate(obs["chunks"]):
        if all(c >= 0 for c in ch) and (sum(ch) != obs["cshape"][a] or obs["lshape"][a] != obs["cshape"][a]):
            return "Meta"
    return None


def repeated_axes(case):
    """for einsum: per operand, the groups of axes that carry the same letter"""
    out = []
    for sub in case.get("ins", []):
        groups = {}
        for d, v in enumerate(sub):
            if v != ELL:
                groups.setdefault(v, []).append(d)
        out.append([g for g in groups.values() if len(g) > 1])
    return out


def features(case):
    op = case["op"]
    f = []
    if op == "einsum":
        if any(ELL in s for s in case["ins"]):
            f.append("ellipsis")
        if any(g for g in repeated_axes(case)):
            f.append("repeated-letter")
        if case["impl"]:
            f.append("implicit")
        if len(case["ins"]) >= 3:
            f.append("3-operands")
        if len(case["ins"]) == 1:
            f.append("1-operand")
        if any(1 in s for s in case["shapes"]):
            f.append("extent-1")
    elif op == "tensordot":
        f.append("n=%d" % len(case["la"]))
        if any(v < 0 for v in case["ra"]):
            f.append("negative-right-axis")
    elif op == "tensordotn":
        f.append("n=%d" % case["n"])
    else:
        f.append("x".join("%dd" % len(s) for s in case["shapes"]))
        if op == "matmul" and any(1 in s for s in case["shapes"]):
            f.append("extent-1")
    return f


def contracted_pairs(case):
    """the (left extent, right extent) pairs the operation contracts"""
    op, sh = case["op"], case["shapes"]
    try:
        sa, sb = sh[0], sh[1]
        if op == "tensordot":
            return [(sa[x], sb[y]) for x, y in zip(case["la"], case["ra"])]
        if op == "tensordotn":
            n = case["n"]
            return [(sa[len(sa) - n + i], sb[i]) for i in range(n)]
        if op in ("dot", "matmul"):
            return [(sa[-1], sb[0] if len(sb) == 1 else sb[-2])]
        if op == "inner":
            return [(sa[-1], sb[-1])]
    except (IndexError, KeyError):
        pass
    return []


def classify(case, clause, chunks):
    if clause == "ErrorExpected" and any(x != y and 1 in (x, y) for x, y in contracted_pairs(case)):
        # one root cause: blockwise broadcasts a contracted axis of extent 1 against the other extent
        return "%s:contracted-extent-1-broadcast" % case["op"].replace("tensordotn", "tensordot")
    zero = any(0 in c and n > 0 for s, ch in zip(case["shapes"], chunks) for c, n in zip(ch, s))
    if zero and case["op"] in ("outer", "vdot") and any(len(s) >= 2 and any(0 in c for c in ch) for s, ch in zip(case["shapes"], chunks)):
        # outer / vdot flatten their operands: reshape of an array with a zero-width chunk (not this property's code)
        return "%s:flatten:zero-chunk" % case["op"]
    if case["op"] == "tensordot" and any(v < 0 for v in case["la"]):
        # one root cause under several clauses: the placeholder axis is inserted at a negative position
        return "tensordot:negative-left-axis" + (":zero-chunk" if zero else "")
    return "%s:%s:%s%s" % (case["op"], clause, "+".join(features(case)) or "plain", ":zero-chunk" if zero else "")


def chunk_choices(case, chunkings, zero=False):
    """per operand the admissible chunkings (einsum: equal chunking on axes that share a letter)"""
    rep = repeated_axes(case) if case["op"] == "einsum" else [[] for _ in case["shapes"]]
    out = []
    for k, s in enumerate(case["shapes"]):
        lst = chunkings[tuple(s)]["zero" if zero else "all"]
        groups = rep[k] if k < len(rep) else []
        if groups and len(case["ins"][k]) == len(s):
            lst = [c for c in lst if all(all(list(c[g[0]]) == list(c[d]) for d in g) for g in groups)]
        out.append(lst)
    return out


def make_runs(case, chunkings, rng, n, all_cap, zero_rate):
    lists = chunk_choices(case, chunkings)
    total = 1
    for lst in lists:
        total *= len(lst)
    if total <= all_cap:
        combos = [list(c) for c in itertools.product(*lists)]
    else:
        combos = [[rng.choice(lst) for lst in lists] for _ in range(n)]
        combos[0] = [lst[0] for lst in lists]
    runs = [(c, rng.randrange(60)) for c in combos]
    if rng.random() < zero_rate:
        zl = chunk_choices(case, chunkings, zero=True)
        k = rng.randrange(len(zl))
        if zl[k]:
            c = [rng.choice(lst) for lst in lists]
            c[k] = rng.choice(zl[k])
            runs.append((c, rng.randrange(60)))
    return runs, total <= all_cap


def _work(item):
    case, exp, runs = item
    ref = np_reference(case)
    if ref["err"] != exp["err"] or (not ref["err"] and (ref["shape"] != list(exp["shape"]) or ref["cells"] != list(exp["cells"]))):
        return [("GUARD", None, ref)]
    res = []
    for chunks, variant in runs:
        obs, got = run_dask(case, chunks, variant)
        if "skip" in obs:
            res.append(("SKIP", (chunks, variant), obs["skip"]))
            continue
        cl = judge(exp, obs, got)
        res.append((cl, (chunks, variant), {"obs": obs, "got": got} if cl else None))
    return res


def procs_for(nitems):
    """forked workers only pay off for large batches (measured: on a busy machine they are 2-3x slower than inline)"""
    import os
    return 1 if nitems < 20000 else min(int(os.environ.get("VERIF_PROCS", "14")), 6)


def replay_cases(ctx, cases, chunkings, n, all_cap, zero_rate, violation, count, skip):
    items, complete = [], True
    for c in cases:
        runs, full = make_runs(c["c"], chunkings, ctx.rng, n, all_cap, zero_rate)
        complete &= full
        items.append((c["c"], c["e"], runs))
    for (case, exp, runs), res in zip(items, pmap(_work, items, procs=procs_for(sum(len(it[2]) for it in items)), chunk=16)):
        for cl, run, detail in res:
            if cl == "GUARD":
                raise MachineryError("TLA+ reference disagrees with NumPy on %r: numpy=%r spec=%r" % (case, detail, exp))
            if cl == "SKIP":
                skip(detail)
                continue
            nb = sum(int(np.prod([len(a) for a in ch])) for ch in run[0])
            count((case, run), (not exp["err"]) and nb > len(run[0]))
            if cl:
                violation(classify(case, cl, run[0]), "%s: dask disagrees with the reference on %s" % (cl, case["op"]),
                          {"case": case, "expected": exp, "chunks": run[0], "variant": run[1], "observed": detail})
    return items, complete


# ------------------------------------------------------------------ code -> spec: random larger cases
def _comp(rng, n, zero=False):
    out, left = [], n
    while left > 0:
        c = rng.randint(1, left)
        out.append(c)
        left -= c
    if zero:
        out.insert(rng.randint(0, len(out)), 0)
    return out


def random_case(rng):
    op = rng.choice(["tensordot", "tensordot", "tensordotn", "dot", "outer", "vdot", "matmul", "matmul", "einsum", "einsum", "einsum"])
    ext = lambda: rng.choice([1, 2, 2, 3, 3, 4])
    if op in ("tensordot", "tensordotn"):
        nda, ndb = rng.randint(1, 3), rng.randint(1, 3)
        sa, sb = [ext() for _ in range(nda)], [ext() for _ in range(ndb)]
        if op == "tensordotn":
            n = rng.randint(0, min(nda, ndb))
            for i in range(n):
                sb[i] = sa[nda - n + i]
            return {"op": op, "shapes": [sa, sb], "n": n}
        n = rng.randint(0, min(nda, ndb))
        la, ra = rng.sample(range(nda), n), rng.sample(range(ndb), n)
        for x, y in zip(la, ra):
            sb[y] = sa[x]
        if rng.random() < 0.3:
            la = [x - nda for x in la]
        if rng.random() < 0.3:
            ra = [y - ndb for y in ra]
        return {"op": op, "shapes": [sa, sb], "la": la, "ra": ra}
    if op in ("dot", "matmul"):
        nda, ndb = rng.randint(1, 3), rng.randint(1, 3)
        sa, sb = [ext() for _ in range(nda)], [ext() for _ in range(ndb)]
        sb[0 if ndb == 1 else ndb - 2] = sa[-1]
        if op == "matmul" and nda == 3 and ndb == 3:
            sb[0] = rng.choice([sa[0], 1]) if rng.random() < 0.8 else sb[0]
        return {"op": op, "shapes": [sa, sb]}
    if op == "outer":
        return {"op": op, "shapes": [[ext() for _ in range(rng.randint(1, 2))], [ext() for _ in range(rng.randint(1, 2))]]}
    if op == "vdot":
        sa = [ext() for _ in range(rng.randint(1, 2))]
        sb = list(sa) if rng.random() < 0.5 else [int(np.prod(sa))]
        return {"op": op, "shapes": [sa, sb]}
    # einsum: random letters over i..l with fixed extents, 1-3 operands, random output (subset, permuted) or implicit
    extents = {9: rng.choice([2, 3]), 10: rng.choice([2, 3, 4]), 11: rng.choice([2, 3]), 12: rng.choice([1, 2])}
    nops = rng.choice([1, 2, 2, 2, 3])
    ins = []
    for _ in range(nops):
        k = rng.randint(1, 3)
        if rng.random() < 0.15 and k >= 2:
            sub = rng.sample(list(extents), k - 1)
            sub.insert(rng.randrange(k), rng.choice(sub))       # a letter twice in one operand
        else:
            sub = rng.sample(list(extents), k)
        ins.append(sub)
    letters = sorted({v for s in ins for v in s})
    impl = rng.random() < 0.2
    out = [] if impl else rng.sample(letters, rng.randint(0, min(3, len(letters))))
    return {"op": "einsum", "ins": ins, "out": out, "impl": impl, "shapes": [[extents[v] for v in s] for s in ins]}


def random_items(rng, n):
    items = []
    for i in range(n):
        case = random_case(rng)
        rep = repeated_axes(case) if case["op"] == "einsum" else [[] for _ in case["shapes"]]
        chunks = []
        for k, s in enumerate(case["shapes"]):
            zero = rng.random() < 0.06
            zax = rng.randrange(len(s)) if s else 0
            ch = [_comp(rng, e, zero and d == zax) for d, e in enumerate(s)]
            for g in (rep[k] if k < len(rep) else []):
                for d in g[1:]:
                    ch[d] = list(ch[g[0]])
            chunks.append(ch)
        items.append(("r%d" % i, case, chunks, rng.randrange(60)))
    return items


def _record(item):
    rid, case, chunks, variant = item
    obs, got = run_dask(case, chunks, variant)
    if "skip" in obs:
        return None
    obs = dict(obs)
    obs.pop("msg", None)
    obs["cells"] = got if got is not None else []
    return {"id": rid, "c": case_record(case), "chunks": chunks, "variant": variant, "obs": obs}


def case_record(case):
    """every record has all fields (TLC compares records field by field)"""
    return {"op": case["op"], "shapes": case["shapes"], "la": list(case.get("la", [])), "ra": list(case.get("ra", [])),
            "n": case.get("n", 0), "ins": case.get("ins", []), "out": case.get("out", []), "impl": bool(case.get("impl", False))}


def first_clause(text):
    names = [x for x in text.strip("{} ").replace('"', "").split(", ") if x and x != "More"]
    return names[0] if names else "Rejected"


def record(rng, n, prefix="r"):
    items = random_items(rng, n)
    items = [(prefix + it[0][1:],) + it[1:] for it in items]
    recs = [r for r in pmap(_record, items, procs=procs_for(len(items)), chunk=64) if r is not None]
    return items, recs


def decide(ctx, items, recs, violation, count):
    """code -> spec: TLC decides every record"""
    spec, cfg = ctx.model(ctx.spec("array", "TensorTrace.tla"), {})
    byitem = {it[0]: it for it in items}

    def go():
        out = []
        for lo in range(0, len(recs), 6000):
            part = recs[lo:lo + 6000]
            out.append((part, ctx.tlc_validate(spec, part, cfg, timeout=1800)))
        return out

    def finish(results):
        for part, rej in results:
            for r in part:
                count(("rec", r["c"], r["chunks"], r["variant"]), r["obs"]["raised"] == "" and len(r["obs"]["cells"]) > 0)
            for rid, clauses in rej.items():
                _id, case, chunks, variant = byitem[rid]
                violation(classify(case, first_clause(clauses[0]), chunks), "TLC rejects a recorded %s call (%s)" % (case["op"], clauses[0]),
                          {"record": next(r for r in part if r["id"] == rid), "case": case, "clauses": clauses})
    return go, finish


# ------------------------------------------------------------------ decompositions: structural clauses
DECOMP = ("qr", "tsqr", "sfqr", "svd")
UNIT = 1e-10          # error measures are reported to TLC as integers in this unit (relative to max |A|)


def matrix(m, n):
    """the matrix that is decomposed: small integers, full rank for the shapes used"""
    return np.array([[((i * 7 + j * 3 + i * j) % 11) + (5 if i == j else 0) for j in range(n)] for i in range(m)], dtype="f8")


def _units(err, scale):
    v = float(err) / (scale * UNIT) if scale else float(err) / UNIT
    return int(min(v, 1e9)) if v == v else 10 ** 9


def run_decomp(item):
    """one decomposition of the real code -> record for TensorTrace (DecompBad)"""
    import warnings
    import dask.array as da
    from dask.array import linalg as L
    rid, case, variant = item
    warnings.simplefilter("ignore")
    (m, n), op, dch = case["shapes"][0], case["op"], case["dch"]
    rec = {"id": rid, "c": {"op": op, "shapes": [[m, n]], "dch": [list(dch[0]), list(dch[1])]}, "variant": variant,
           "raised": "", "f": [], "rlow": 0, "recon": 0, "orth": 0, "sv": 0}
    a = matrix(m, n)
    try:
        x = da.from_array(a, chunks=(tuple(dch[0]), tuple(dch[1])))
        if op == "qr":
            fs = L.qr(x) if variant % 2 == 0 else da.linalg.qr(x)
        elif op == "tsqr":
            fs = L.tsqr(x)
        elif op == "sfqr":
            fs = L.sfqr(x)
        else:
            if variant % 3 == 1 and len(dch[1]) == 1:
                fs = L.tsqr(x, compute_svd=True)
                if m < n:                      # (svd() itself removes the surplus singular vectors)
                    fs = L.svd(x)
            elif variant % 3 == 2:
                fs = L.svd(x, coerce_signs=False)
            else:
                fs = L.svd(x)
        vals = []
        for f in fs:
            obs, full = observe(f, whole_too=True)
            obs = {k: obs[k] for k in ("lshape", "chunks", "cshape", "blocksok")}
            rec["f"].append(obs)
            vals.append(np.asarray(full, dtype="f8") if full is not None else None)
        k = min(m, n)
        if all(v is not None for v in vals) and [list(v.shape) for v in vals] == ([[m, k], [k, n]] if op != "svd" else [[m, k], [k], [k, n]]):
            scale = float(np.abs(a).max()) or 1.0
            if op == "svd":
                u, sv, vt = vals
                rec["recon"] = _units(np.abs((u * sv) @ vt - a).max(initial=0), scale)
                rec["orth"] = _units(max(np.abs(u.T @ u - np.eye(k)).max(initial=0), np.abs(vt @ vt.T - np.eye(k)).max(initial=0)), 1.0)
                rec["sv"] = _units(np.abs(sv - np.linalg.svd(a, compute_uv=False)).max(initial=0), scale)
            else:
                q, r = vals
                rec["rlow"] = int(np.count_nonzero(np.tril(r, -1)))
                rec["recon"] = _units(np.abs(q @ r - a).max(initial=0), scale)
                rec["orth"] = _units(np.abs(q.T @ q - np.eye(k)).max(initial=0), 1.0)
    except Exception as ex:  # noqa: BLE001 - an observation (judged only inside the documented domain)
        rec["raised"] = "%s: %s" % (type(ex).__name__, str(ex)[:100].replace("\n", " "))
        rec["f"] = []
    return rec


def decomp_class(case):
    (m, n), dch = case["shapes"][0], case["dch"]
    f = ["tall" if m > n else "fat" if m < n else "square"]
    if len(dch[0]) > 1 and len(dch[1]) == 1 and any(c < n for c in dch[0][:-1]):
        f.append("short-row-block")
    elif len(dch[0]) > 1 and len(dch[1]) == 1 and dch[0][-1] < n:
        f.append("short-last-row-block")
    if len(dch[1]) > 1 and len(dch[0]) == 1 and any(c < m for c in dch[1]):
        f.append("narrow-column-block")
    return "+".join(f)


def decomp_clause_py(exp, rec):
    """the clauses that need no TLC: outside the documented domain nothing is judged"""
    if not exp["dom"]:
        return None
    if rec["raised"]:
        return "UnexpectedRaise"
    if [o["cshape"] for o in rec["f"]] != [list(x) for x in exp["fshapes"]]:
        return "FactorShapes"
    return None


def replay_decomps(ctx_rng, dcases, violation, count, skip, prefix="d"):
    items = [("%s%d" % (prefix, i), c["c"], ctx_rng.randrange(60)) for i, c in enumerate(dcases)]
    recs = pmap(run_decomp, items, procs=procs_for(len(items) * 8), chunk=32)
    for c, rec in zip(dcases, recs):
        case, exp = c["c"], c["e"]
        if not exp["dom"]:
            skip("%s outside its documented domain (%s)" % (case["op"], "raises" if rec["raised"] else "returns"))
            continue
        count(("decomp", case, rec["variant"]), len(case["dch"][0]) + len(case["dch"][1]) > 2)
        cl = decomp_clause_py(exp, rec)
        if cl:
            violation("%s:%s:%s" % (case["op"], cl, decomp_class(case)), "%s: %s of a chunked matrix%s" % (cl, case["op"], (": " + rec["raised"]) if rec["raised"] else ""),
                      {"decomp": case, "expected": exp, "variant": rec["variant"], "observed": rec})
    return recs


def decide_decomps(ctx, recs, violation):
    """TLC decides every decomposition record (all clauses)"""
    if not recs:
        return
    spec, cfg = ctx.model(ctx.spec("array", "TensorTrace.tla"), {})
    rej = ctx.tlc_validate(spec, recs, cfg, timeout=1800, label="trace-validation: decompositions")
    byid = {r["id"]: r for r in recs}
    for rid, clauses in rej.items():
        r = byid[rid]
        case = {"op": r["c"]["op"], "shapes": r["c"]["shapes"], "dch": r["c"]["dch"]}
        violation("%s:%s:%s" % (case["op"], first_clause(clauses[0]), decomp_class(case)),
                  "TLC rejects a recorded %s (%s)%s" % (case["op"], clauses[0], (": " + r["raised"]) if r["raised"] else ""),
                  {"decomp": case, "variant": r["variant"], "observed": r, "clauses": clauses})


# ------------------------------------------------------------------ the check
def enumerate_cases(ctx, ops, shapes, mmshapes, swapped, label, dshapes="{}"):
    """-> a job for sidebyside.in_parallel returning (cases, chunkings)"""
    import json
    spec, cfg = ctx.model(ctx.spec("array", "TensorMC.tla"),
                          {"Ops": set(ops), "Shapes": TLA(shapes), "MMShapes": TLA(mmshapes), "Swapped": swapped, "DShapes": TLA(dshapes)},
                          invariants=INVS)

    def go():
        cases, _ = ctx.tlc_cases(spec, cfg, label="design+cases:" + label, timeout=2400)
        cases.sort(key=lambda c: json.dumps(c["c"], sort_keys=True))        # TLC's dump order depends on its worker threads
        chunkings = {tuple(c["c"]["shape"]): {"all": sorted(c["e"]["all"]), "zero": sorted(c["e"]["zero"])}
                     for c in cases if c["c"]["op"] == "chunkings"}
        return [c for c in cases if c["c"]["op"] != "chunkings"], chunkings
    return go


def split_cases(cases):
    return [c for c in cases if c["c"]["op"] not in DECOMP], [c for c in cases if c["c"]["op"] in DECOMP]


class _Rng:
    def __init__(self, rng):
        self.rng = rng


def run(ctx):
    import gc
    from ..sidebyside import in_parallel
    gc.collect()
    gc.freeze()
    shapes = ctx.pick("{<<2>>, <<3>>, <<1, 2>>, <<2, 3>>, <<3, 2>>, <<2, 3, 2>>}",
                      "{<<2>>, <<3>>, <<1, 2>>, <<2, 3>>, <<3, 2>>, <<3, 3>>, <<2, 3, 2>>, <<3, 2, 3>>}")
    mm = ctx.pick("{<<3>>, <<2>>, <<1, 2>>, <<2, 3>>, <<3, 2>>, <<2, 2, 3>>, <<1, 3, 2>>, <<2, 3, 2>>}",
                  "{<<3>>, <<2>>, <<1, 2>>, <<2, 3>>, <<3, 2>>, <<3, 3>>, <<2, 2, 3>>, <<1, 3, 2>>, <<2, 3, 2>>, <<3, 1, 3>>, <<3, 2, 3>>}")
    # the recording forks worker processes: do it before any thread exists, then run both JVMs side by side
    ritems, recs = record(ctx.rng, ctx.pick(1200, 6000))
    dshapes = ctx.pick("{<<4, 2>>, <<5, 2>>, <<6, 3>>, <<3, 3>>, <<2, 4>>, <<3, 5>>}",
                       "{<<4, 2>>, <<5, 2>>, <<6, 2>>, <<5, 3>>, <<6, 3>>, <<7, 3>>, <<8, 4>>, <<3, 3>>, <<2, 4>>, <<2, 5>>, <<3, 6>>, <<3, 7>>}")
    enum = enumerate_cases(ctx, OPS + list(DECOMP), shapes, mm, not ctx.quick, "tensor", dshapes)
    go, finish = decide(ctx, ritems, recs, ctx.violation, ctx.count)
    (cases, chunkings), verdicts = in_parallel([enum, go])
    cases, dcases = split_cases(cases)
    drecs = replay_decomps(ctx.rng, dcases, ctx.violation, ctx.count, ctx.skip)
    items, complete = replay_cases(ctx, cases, chunkings, ctx.pick(6, 24), ctx.pick(8, 96), ctx.pick(0.15, 1.0),
                                   ctx.violation, ctx.count, ctx.skip)
    finish(verdicts)
    decide_decomps(ctx, drecs, ctx.violation)
    ctx.sample({"decomposition": dcases[len(dcases) // 3]["c"], "expected": dcases[len(dcases) // 3]["e"]})
    for it in (items[0], items[len(items) // 2], items[-1]):
        ctx.sample({"case": it[0], "expected": it[1], "chunks_of_first_run": it[2][0][0]})
    if recs:
        ctx.sample({"recorded_call": {k: recs[0][k] for k in ("c", "chunks", "variant")}})
    ctx.exhaustive = complete
    ctx.rule = ("cases = TLC-enumerated (operation, operand shapes, axes / subscripts) x TLC-enumerated chunkings of every operand x "
                "spelling variant, plus recorded random calls; non-trivial = NumPy returns a value and some operand has more than one "
                "block; distinct by (case, chunkings, variant)")
    ctx.extra["cases_enumerated_by_tlc"] = len(cases)
    ctx.extra["chunkings_enumerated_by_tlc"] = sum(len(v["all"]) + len(v["zero"]) for v in chunkings.values())
    ctx.extra["decomposition_cases"] = len(dcases)
    ctx.extra["not_decided"] = ("the numerical content of Q / R / U / S / V beyond reconstruction, orthonormality and singular values within "
                                "1e-6 on one small integer matrix per shape; lstsq / solve / inv / lu / cholesky (need scipy, absent)")
    ctx.assumptions = ["NumPy per-block kernels (tensordot, matmul, einsum, outer) are correct", "TLC evaluates the reference correctly",
                       "operand shapes bounded as listed in the tlc_runs constants; integer element ids only"]


def replay(ctx, obj):
    c = obj["case"]
    if "decomp" in c:
        rec = run_decomp(("d0", c["decomp"], c["variant"]))
        spec, cfg = ctx.model(ctx.spec("array", "TensorTrace.tla"), {})
        rej = ctx.tlc_validate(spec, [rec], cfg)
        print("decomposition:", c["decomp"], "\nobserved:", rec, "\nrejected:", rej)
        return bool(rej)
    if "record" in c:
        r = c["record"]
        rec = _record((r["id"], c["case"], r["chunks"], r["variant"]))
        spec, cfg = ctx.model(ctx.spec("array", "TensorTrace.tla"), {})
        rej = ctx.tlc_validate(spec, [rec], cfg) if rec is not None else {}
        print("observed:", rec["obs"], "\nrejected:", rej)
        return bool(rej)
    case, exp = c["case"], c["expected"]
    obs, got = run_dask(case, c["chunks"], c["variant"])
    cl = judge(exp, obs, got)
    print("case:", case, "\nchunks:", c["chunks"], "\nexpected:", exp, "\nobserved:", obs, got, "\nclause:", cl)
    return cl is not None


# ------------------------------------------------------------------ selftest
def selftest(ctx):
    import copy
    import random
    import dask.array as da
    import dask.array.einsumfuncs as E
    import dask.array.routines as R
    from ..arrayobs import source_mutant
    from ..sidebyside import in_parallel
    ok = True
    rng = random.Random(7)
    ritems, recs = record(random.Random(3), 100, "base")
    (cases, chunkings), = in_parallel([enumerate_cases(ctx, OPS + list(DECOMP), "{<<2>>, <<3>>, <<2, 3>>, <<3, 2>>, <<2, 3, 2>>}",
                                                       "{<<3>>, <<2, 3>>, <<3, 2>>, <<2, 2, 3>>}", False, "selftest",
                                                       "{<<5, 2>>, <<3, 5>>, <<3, 3>>}")])
    cases, dcases = split_cases(cases)
    dcases = [c for c in dcases if c["e"]["dom"]]

    def attempt_decomp(tag):
        sigs = []
        drecs = replay_decomps(random.Random(9), dcases, lambda sig, what, rp: sigs.append(sig), lambda k, n: None, lambda r: None, tag)
        return sigs, drecs
    import dask.array.linalg as LA
    dbase, dbase_recs = attempt_decomp("dbase")
    print("selftest baseline (unchanged tree): %d violations on %d decompositions inside the documented domain" % (len(dbase), len(dcases)))
    ok &= not dbase
    dmut = []
    for i, (name, fn, old, new) in enumerate([
            ("tsqr cuts the second-stage Q into n-row pieces (short row blocks ignored)", "tsqr",
             "q2_block_sizes = [min(e, n) for e in data.chunks[0]]", "q2_block_sizes = [n for e in data.chunks[0]]"),
            ("svd forgets to drop the surplus singular vectors of a wide matrix chunked by rows", "svd", "if truncate:", "if truncate and False:"),
            ("sfqr multiplies the remaining blocks by Q instead of Q'", "sfqr", "Rs.append(Q.T.dot(A_rest))", "Rs.append(Q.dot(A_rest))")]):
        with source_mutant(LA, fn, old, new, count=1, also=[]):
            dmut.append((name,) + attempt_decomp("dm%d-" % i))

    def attempt(ops, seed=5):
        sigs = []
        sub = [c for c in cases if c["c"]["op"] in ops]
        if len(sub) > 60:
            sub = random.Random(seed).sample(sub, 60)
        replay_cases(_Rng(random.Random(seed)), sub, chunkings, 2, 0, 0.0,
                     lambda sig, what, rp: sigs.append(sig), lambda k, n: None, lambda r: None)
        return sigs

    base = attempt(OPS) + attempt(["tensordot"], 6)
    known = {"tensordot:negative-left-axis"}
    print("selftest baseline (unchanged tree): %d violations on the case sample %s" % (len(base), sorted(set(base))))
    ok &= set(base) <= known
    mutants = [
        ("dot contracts the last axis of b (b.ndim - 2 -> b.ndim - 1)", R, "dot", "(b.ndim - 2,)", "(b.ndim - 1,)", 1, ["dot"]),
        ("tensordot(axes=n) contracts the first n axes of lhs", R, "tensordot", "tuple(range(lhs.ndim - axes, lhs.ndim))",
         "tuple(range(0, axes))", 1, ["tensordotn"]),
        ("matmul sums the wrong axis of the blockwise product (-2 -> -1)", R, "matmul", "_sum_wo_cat(out, axis=-2)", "_sum_wo_cat(out, axis=-1)", 1,
         ["matmul"]),
        ("outer flattens b in column-major order", R, "outer", "b = b.flatten()", "b = b.T.flatten()", 1, ["outer"]),
        ("einsum aligns an ellipsis to the left", E, "parse_einsum_input", "ellipse_inds[-ellipse_count:]", "ellipse_inds[:ellipse_count]", 1,
         ["einsum"]),
        ("einsum builds the implicit output in reverse alphabetical order", E, "parse_einsum_input", "sorted(set(tmp_subscripts))",
         "sorted(set(tmp_subscripts), reverse=True)", 2, ["einsum"]),
        ("einsum forgets to sum the contracted axes when there is only one", E, "einsum", "if ncontract_inds > 0:", "if ncontract_inds > 1:", 1,
         ["einsum"]),
    ]
    mrecs, mitems = [], []
    for i, (name, mod, fn, old, new, cnt, ops) in enumerate(mutants):
        with source_mutant(mod, fn, old, new, count=cnt, also=[da] if hasattr(da, fn) else []):
            sigs = attempt(ops)
            its, rs = record(random.Random(3), 60, "m%d-" % i)
        mitems += its
        mrecs.append((i, name, sigs, rs))
    # recorded calls, corrupted by hand
    good = next(r for r in recs if r["obs"]["raised"] == "" and len(r["obs"]["cells"]) >= 2 and len(r["obs"]["cshape"]) >= 1)

    def corrupt(name, fn):
        r = copy.deepcopy(good)
        r["id"] = "c-" + name
        fn(r)
        return r

    def bad_cell(r):
        r["obs"]["cells"][-1] += 1

    def bad_shape(r):
        r["obs"]["cshape"][0] += 1

    def bad_chunks(r):
        r["obs"]["chunks"][0] = r["obs"]["chunks"][0] + [1]

    def swapped_operand_axes(r):
        r["c"]["shapes"] = [list(reversed(s)) for s in r["c"]["shapes"]]

    def says_raised(r):
        r["obs"]["raised"] = "ValueError"
    hand = [(corrupt("untouched-copy", lambda r: None), False), (corrupt("corrupted-cell", bad_cell), True),
            (corrupt("corrupted-shape", bad_shape), True), (corrupt("corrupted-lazy-chunks", bad_chunks), True),
            (corrupt("claims-an-exception", says_raised), True)]
    spec, cfg = ctx.model(ctx.spec("array", "TensorTrace.tla"), {})
    gooddec = next(r for r in dbase_recs if r["c"]["op"] == "qr" and not r["raised"] and len(r["c"]["dch"][0]) > 1)

    def corrupt_dec(name, fn):
        r = copy.deepcopy(gooddec)
        r["id"] = "c-" + name
        fn(r)
        return r
    hand += [(corrupt_dec("decomposition-untouched", lambda r: None), False),
             (corrupt_dec("R-not-triangular", lambda r: r.update(rlow=1)), True),
             (corrupt_dec("QR-differs-from-A", lambda r: r.update(recon=10 ** 6)), True),
             (corrupt_dec("Q-has-a-surplus-column", lambda r: r["f"][0]["cshape"].__setitem__(1, r["f"][0]["cshape"][1] + 1)), True),
             (corrupt_dec("R-block-contradicts-its-chunks", lambda r: r["f"][1].update(blocksok=False)), True)]
    allrecs = recs + [r for _i, _n, _s, rs in mrecs for r in rs] + [r for r, _w in hand] + dbase_recs + [r for _n, _s, rs in dmut for r in rs]
    rej = ctx.tlc_validate(spec, allrecs, cfg, timeout=1200)
    byitem = {it[0]: it for it in ritems + mitems}

    def sig_of(rid):
        _id, case, chunks, _v = byitem[rid]
        return classify(case, first_clause(rej[rid][0]), chunks)
    base_rej = {sig_of(r["id"]) for r in recs if r["id"] in rej}
    print("selftest baseline (unchanged tree): TLC rejects %d of %d recorded calls %s" % (len([r for r in recs if r["id"] in rej]), len(recs),
                                                                                         sorted(base_rej)))
    for i, name, sigs, rs in mrecs:
        new = sorted(set(s for s in sigs if s not in set(base) | known))
        trej = sorted({sig_of(r["id"]) for r in rs if r["id"] in rej} - base_rej)
        print("selftest mutant [%s]: replay %s (%d violations, e.g. %s); recorded calls %s (%s)"
              % (name, "DETECTED" if new else "MISSED", len(sigs), new[:2], "REJECTED" if trej else "accepted", trej[:2]))
        ok &= bool(new)
    ok &= any(sorted({sig_of(r["id"]) for r in rs if r["id"] in rej} - base_rej) for _i, _n, _s, rs in mrecs)
    ok &= not any(r["id"] in rej for r in dbase_recs)
    for name, sigs, rs in dmut:
        trej = sorted({first_clause(rej[r["id"]][0]) for r in rs if r["id"] in rej})
        print("selftest mutant [%s]: replay %s (%d violations, e.g. %s); TLC rejects %d of %d decomposition records %s"
              % (name, "DETECTED" if sigs or trej else "MISSED", len(sigs), sorted(set(sigs))[:2], len([r for r in rs if r["id"] in rej]), len(rs), trej))
        ok &= bool(sigs or trej) and bool(trej)
    for r, want in hand:
        got = r["id"] in rej
        print("selftest trace [%s]: %s %s" % (r["id"][2:], "rejected" if got else "accepted", rej.get(r["id"], "")))
        ok &= got == want
    print("selftest C31:", "OK" if ok else "FAILED")
    return 0 if ok else 1
