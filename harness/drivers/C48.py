"""C48 - bag operations equal their Python reference.

specs/bag/BagOps.tla defines every bag operation as the plain-Python computation on the
concatenation of the partitions, and says per operation whether order is promised.
spec -> code: TLC (BagOpsMC.tla) enumerates every sequence over {0..3} up to a length bound x every
operation variant with the demanded result, and all partitionings into <= 4 consecutive partitions
(empty ones included); the real dask.bag is built with exactly those partitions and run for
(case, partitioning, split_every, shuffle method, constructor) combinations.  code -> spec: larger
random bags (more partitions, deeper reduction / shuffle trees) are recorded and TLC decides every
record with the same operators (BagOpsTrace.tla).  Plain Python is only the reference *guard*."""
from __future__ import annotations

import collections
import functools
import itertools
import operator
import random
import statistics
import time
import warnings
from fractions import Fraction

from ..core import TLA, MachineryError
from ..par import pmap

META = {
    "title": "Bag operations equal their Python reference",
    "design_ref": "DESIGN.md §4.5 C48",
    "technique": "TLA+ reference semantics of bag operations on the concatenated sequence; TLC enumerates all small sequences x "
                 "operation variants and all partitionings (empty partitions included); replay into dask.bag + TLC validation of "
                 "recorded calls",
    "level_text": "Small-scope: TLC enumerates every sequence over {0,1,2,3} of length <= 4 plus a seeded sample of length 5 "
                  "(thorough: every sequence of length <= 6) x 117 operation variants (map, starmap, filter, remove, map_partitions, "
                  "pluck, flatten, distinct, frequencies, topk, fold, reduction, foldby, groupby, join, product, accumulate, take, "
                  "repartition, zip, concat, count/sum/min/max/any/all/mean/var/std, 13 two- and three-stage pipelines) with the result "
                  "the reference demands, and every partitioning into <= 4 partitions; the invariants prove the reference a "
                  "homomorphism of the partitioning. dask.bag is run on every (sequence of length <= 1 [thorough <= 2], partitioning, "
                  "variant), on a seeded sample of the rest and on a stratum of two-level reduction trees (npartitions > split_every) for "
                  "every variant whose per-partition function differs from its combine function, x split_every in {None,2,3} x "
                  "groupby(shuffle in {tasks, disk}, "
                  "max_branch 2, npartitions) x two bag constructors. Random bags of up to 14 elements in up to 8 partitions are "
                  "recorded and decided by TLC.",
    "level_note": "Trusted: TLC, the TLA+ reference (cross-checked against plain Python on every case; a disagreement is a machinery "
                  "error), the transcription of the user functions F, G, Pred, KeyOf, Binop in the driver, toolz/itertools kernels "
                  "inside one partition. Float results (mean, var, std) are compared with the exact rational within 1e-9. Order is "
                  "demanded only where the API defines the result through it (elementwise operations, accumulate, take, zip, concat, "
                  "repartition, topk); fold with a non-commutative binop is compared as a multiset; distinct(key=) must keep the FIRST "
                  "element of every key class (toolz.unique), compared as a multiset; free: which of several equal-key elements "
                  "topk(key=) keeps, the order of elements inside a groupby group, the order of foldby / frequencies pairs. Not decided: to_textfiles/"
                  "to_avro/to_dataframe, repartition(partition_size=), string accessor, multiprocessing/threaded schedulers.",
}

SPLIT_OPS = {"frequencies", "topk", "fold", "reduction", "foldby", "count", "sum", "min", "max", "any", "all"}
SPLIT_PIPES = {"map.filter.sum", "filter.max", "filter.foldby", "mappart.topk", "filter.freq", "filter.fold0", "filter.count",
               "accumulate.sum"}
SHUFFLES = [("tasks", None), ("tasks", 2), ("disk", None), ("disk", 1), ("disk", 3)]
# operation variants whose per-partition function differs from the function that merges partial results (binop != combine,
# perpartition != aggregate): a tree reduction with >= 2 levels (npartitions > split_every) is the only place where an
# intermediate level that merges with the wrong one of the two shows - an explicit stratum of the case plan
DEEP_VARIANTS = {("foldby", "cnt"), ("foldby", "sq"), ("foldby", "add00"), ("fold", "cnt"), ("fold", "sq"), ("fold", "cat"),
                 ("reduction", "len"), ("reduction", "uniq"), ("frequencies", ""), ("frequencies", "sort"), ("count", ""),
                 ("topk", "half"), ("pipe", "filter.count"), ("pipe", "filter.freq")}

# ------------------------------------------------------------------ the user functions (BagOps.tla: F, G, Pred, KeyOf, Binop)


def F(x):
    return 2 * x + 1


def G(x, y):
    return 4 * x + y


def _ge(x, p):
    return x >= p


def _key(x, m):
    return x if m == 0 else x % m


def _nc(a, x):
    return (2 * a + x) % 5


def _inc(acc, x):
    return acc + 1


def _addsq(acc, x):
    return acc + x * x


def _half(x):
    return x // 2


def _append(acc, x):
    return acc + (x,)


def _concat(a, b):
    return a + b


def _count_part(part):
    return sum(1 for _ in part)


def _uniq(part):
    return sorted(set(part))


def _uniq_agg(parts):
    return sorted(set(x for p in parts for x in p))


def _mp_f(part):
    return [F(x) for x in part]


def _mp_bag(part, other):
    return [G(x, y) for x, y in zip(part, other)]


def _mp_item(part, c=0):
    return [G(x, c) for x in part]


def _neg(x):
    return -x


def _kv_len(kv):
    return (kv[0], len(kv[1]))


def pred(p):
    return functools.partial(_ge, p=p)


def keyf(m):
    return functools.partial(_key, m=m)


def binop(w):
    return operator.add if w == "add" else _nc


def second(s):
    return [(x + i) % 4 for i, x in enumerate(s, 1)]


def pairs(s):
    return [(x, (x + i) % 3) for i, x in enumerate(s, 1)]


def nest(s):
    return [[x + j for j in range(x % 3)] for x in s]


def split_by(s, layout):
    out, pos = [], 0
    for n in layout:
        out.append(list(s[pos:pos + n]))
        pos += n
    return out


# ------------------------------------------------------------------ plain-Python reference (the guard)

def py_pipe(w, s):
    if w == "filter.acc":
        return "seq", list(itertools.accumulate([x for x in s if x >= 2], operator.add))
    if w == "map.filter.sum":
        return "int", sum(y for y in map(F, s) if y >= 4)
    if w == "filter.max":
        return "int", max(x for x in s if x >= 2)
    if w == "flatten.distinct":
        return "mset", list(dict.fromkeys(itertools.chain.from_iterable(nest(s))))
    if w == "map.repart.take":
        return "seq", list(map(F, s))[:2]
    if w == "remove.mean":
        r = [x for x in s if not x >= 2]
        return "rat", Fraction(sum(r), len(r))
    if w == "filter.groupby.len":
        return "mset", [[k, v] for k, v in collections.Counter(x % 2 for x in s if x >= 1).items()]
    if w == "filter.foldby":
        d = {}
        for x in s:
            if x >= 2:
                d[x % 2] = d.get(x % 2, 0) + x
        return "mset", [[k, v] for k, v in d.items()]
    if w == "mappart.topk":
        return "seq", sorted(map(F, s), reverse=True)[:2]
    if w == "filter.freq":
        return "mset", [[k, v] for k, v in collections.Counter(x for x in s if x >= 2).items()]
    if w == "filter.fold0":
        return "int", functools.reduce(operator.add, [x for x in s if x >= 3], 0)
    if w == "filter.count":
        return "int", len([x for x in s if x >= 3])
    if w == "accumulate.sum":
        return "int", sum(itertools.accumulate(s, operator.add))
    raise MachineryError("unknown pipeline %r" % w)


def py_ref(o, s, layout):
    """(kind, value) by plain Python on the concatenated sequence; ("err", 0) when Python raises."""
    op, w, p, q = o["op"], o["w"], o["p"], o["q"]
    t = second(s)
    try:
        if op == "map":
            y = {"f": None, "const": [3] * len(s), "bag": t, "kw": [len(s)] * len(s)}[w]
            return "seq", [F(x) for x in s] if w == "f" else [G(x, b) for x, b in zip(s, y)]
        if op == "starmap":
            return "seq", list(itertools.starmap(G, pairs(s)))
        if op == "filter":
            return "seq", list(filter(pred(p), s))
        if op == "remove":
            return "seq", list(itertools.filterfalse(pred(p), s))
        if op == "mappart":
            return "seq", {"f": lambda: _mp_f(s), "bag": lambda: _mp_bag(s, t), "item": lambda: _mp_item(s, sum(s))}[w]()
        if op == "pluck":
            if w == "pair":
                return "seq", [x[p] for x in pairs(s)]
            return "seq", [x[p] if len(x) > p else 9 for x in nest(s)]
        if op == "flatten":
            return "seq", list(itertools.chain.from_iterable(nest(s)))
        if op == "distinct":
            if w == "":
                return "mset", list(set(s))
            # the first element (in sequence order) of every key class - toolz.unique(seq, key)
            els, key = {"key": (list(s), keyf(2)), "key0": (pairs(s), operator.itemgetter(0)), "keylen": (nest(s), len)}[w]
            seen, out = set(), []
            for x in els:
                if key(x) not in seen:
                    seen.add(key(x))
                    out.append(list(x) if isinstance(x, (tuple, list)) else x)
            return "mset", out
        if op == "frequencies":
            return ("fsort" if w == "sort" else "mset"), [[k, v] for k, v in collections.Counter(s).items()]
        if op == "topk":
            if w == "half":
                return "topkkey", sorted((_half(x) for x in s), reverse=True)[:p]
            return "seq", (sorted(s, key=_neg, reverse=True) if w == "neg" else sorted(s, reverse=True))[:p]
        if op == "fold":
            if w == "add":
                return "int", functools.reduce(operator.add, s)
            if w == "add0":
                return "int", functools.reduce(operator.add, s, 0)
            if w == "cnt":
                return "int", functools.reduce(_inc, s, 0)
            if w == "sq":
                return "int", functools.reduce(_addsq, s, 0)
            return "mset", list(functools.reduce(_append, s, ()))
        if op == "reduction":
            return {"sum": lambda: ("int", sum(s)), "len": lambda: ("int", len(s)), "uniq": lambda: ("seq", sorted(set(s)))}[w]()
        if op == "foldby":
            d = {}
            for x in s:
                k = _key(x, p)
                d[k] = d.get(k, 0) + (1 if w == "cnt" else x * x if w == "sq" else x)
            return "mset", [[k, v] for k, v in d.items()]
        if op == "groupby":
            d = {}
            for x in s:
                d.setdefault(_key(x, p), []).append(x)
            return "grp", [[k, v] for k, v in d.items()]
        if op == "join":
            return "mset", [[y, x] for x in s for y in t if _key(y, p) == _key(x, p)]
        if op == "product":
            return "mset", [list(z) for z in itertools.product(s, t)]
        if op == "accumulate":
            kw = {"initial": p} if q == 1 else {}
            return "seq", list(itertools.accumulate(s, binop(w), **kw))
        if op == "take":
            parts = split_by(s, layout)
            if q > len(parts):
                return "err", 0
            return "seq", list(itertools.islice(itertools.chain.from_iterable(parts if q <= -1 else parts[:q]), p))
        if op == "repartition":
            return "rep", {"s": list(s), "np": p}
        if op == "zip":
            return "seq", [list(z) for z in zip(s, t)]
        if op == "concat":
            return "seq", list(s) + t
        if op == "count":
            return "int", len(s)
        if op == "sum":
            return "int", sum(s)
        if op == "min":
            return "int", min(s)
        if op == "max":
            return "int", max(s)
        if op == "any":
            return "bool", any(s)
        if op == "all":
            return "bool", all(s)
        if op == "mean":
            return "rat", statistics.mean(Fraction(x) for x in s)
        if op in ("var", "std"):
            fs = [Fraction(x) for x in s]
            return ("rat" if op == "var" else "rat2"), (statistics.variance(fs) if q == 1 else statistics.pvariance(fs))
        if op == "pipe":
            return py_pipe(w, s)
    except (TypeError, ValueError, ZeroDivisionError, statistics.StatisticsError):
        return "err", 0
    raise MachineryError("unknown operation %r" % (o,))


def _canon(x):
    return sorted(x, key=repr)


def resolve(e, o, layout):
    """take's exported table -> the expected result for this partitioning"""
    if e["k"] != "take":
        return e
    if o["q"] > len(layout):
        return {"k": "err", "v": 0}
    m = sum(layout) if o["q"] <= -1 else sum(layout[:o["q"]])
    return {"k": "seq", "v": e["v"][m]}


def ref_agrees(e, kind, val):
    """the TLA+ expected result against the plain-Python one"""
    if e["k"] != kind:
        return False
    if kind == "err":
        return True
    v = e["v"]
    if kind in ("seq", "int", "bool"):
        return v == val and type(v) is type(val)
    if kind in ("rat", "rat2"):
        return Fraction(v[0], v[1]) == val
    if kind in ("mset", "fsort", "topkkey"):
        return _canon(v) == _canon(val)
    if kind == "grp":
        return _canon([[k, sorted(m)] for k, m in v]) == _canon([[k, sorted(m)] for k, m in val])
    if kind == "rep":
        return v["s"] == val["s"] and v["np"] == val["np"]
    return False


# ------------------------------------------------------------------ the real thing

_CNT = itertools.count()
_SCRATCH = None


def mkbag(parts, how):
    import dask.bag as db
    name = "src%d" % next(_CNT)
    if how == "graph":
        return db.Bag({(name, i): list(p) for i, p in enumerate(parts)}, name, len(parts))
    from dask import delayed
    return db.from_delayed([delayed(list(p), name="%s-%d" % (name, i), traverse=False) for i, p in enumerate(parts)])


def build(o, s, layout, knobs):
    """The dask collection (or, for take, the computed tuple) for one case.  knobs: se, shuffle, ctor."""
    import dask.bag as db
    from dask import delayed
    op, w, p, q = o["op"], o["w"], o["p"], o["q"]
    se, (shuf, sarg), ctor = knobs["se"], knobs["shuffle"], knobs["ctor"]
    b = mkbag(split_by(s, layout), ctor)
    same = lambda seq: mkbag(split_by(seq, layout), ctor)                      # a bag partitioned like b
    other = lambda seq: mkbag(split_by(seq, list(layout)[::-1]), ctor)         # a bag partitioned differently
    gkw = {"shuffle": shuf}
    if shuf == "tasks" and sarg:
        gkw["max_branch"] = sarg
    if shuf == "disk":
        # blocksize = number of elements per on-disk block: the default 2**20 makes toolz.partition_all build
        # million-element tuples (0.3 s per partition); small blocks also exercise the multi-block path
        gkw["blocksize"] = knobs.get("bs", 64)
        if sarg:
            gkw["npartitions"] = sarg
    if op == "map":
        if w == "f":
            return b.map(F)
        if w == "const":
            return b.map(G, 3)
        if w == "bag":
            return b.map(G, same(second(s)))
        return b.map(G, y=b.count())
    if op == "starmap":
        return same(pairs(s)).starmap(G)
    if op == "filter":
        return b.filter(pred(p))
    if op == "remove":
        return b.remove(pred(p))
    if op == "mappart":
        if w == "f":
            return b.map_partitions(_mp_f)
        if w == "bag":
            return b.map_partitions(_mp_bag, same(second(s)))
        return b.map_partitions(_mp_item, c=b.sum())
    if op == "pluck":
        return same(pairs(s)).pluck(p) if w == "pair" else same(nest(s)).pluck(p, 9)
    if op == "flatten":
        return same(nest(s)).flatten()
    if op == "distinct":
        if w == "key":
            return b.distinct(key=keyf(2))
        if w == "key0":
            return same(pairs(s)).distinct(key=0)            # a non-callable key: x[0]
        if w == "keylen":
            return same(nest(s)).distinct(key=len)
        return b.distinct()
    if op == "frequencies":
        return b.frequencies(split_every=se, sort=(w == "sort"))
    if op == "topk":
        if w == "half":
            return b.topk(p, key=_half, split_every=se)
        return b.topk(p, key=_neg, split_every=se) if w == "neg" else b.topk(p, split_every=se)
    if op == "fold":
        if w == "add":
            return b.fold(operator.add, split_every=se)
        if w == "add0":
            return b.fold(operator.add, initial=0, split_every=se)
        if w == "cnt":
            return b.fold(_inc, operator.add, initial=0, split_every=se)
        if w == "sq":
            return b.fold(_addsq, operator.add, initial=0, split_every=se)
        return b.fold(_append, _concat, initial=(), split_every=se)
    if op == "reduction":
        if w == "sum":
            return b.reduction(sum, sum, split_every=se)
        if w == "len":
            return b.reduction(_count_part, sum, split_every=se)
        return b.reduction(_uniq, _uniq_agg, split_every=se, out_type=db.Bag)
    if op == "foldby":
        k = keyf(p)
        if w == "add":
            return b.foldby(k, operator.add, split_every=se)
        if w == "add0":
            return b.foldby(k, operator.add, 0, split_every=se)
        if w == "add00":
            return b.foldby(k, operator.add, 0, operator.add, 0, split_every=se)
        return b.foldby(k, _addsq if w == "sq" else _inc, 0, operator.add, split_every=se)
    if op == "groupby":
        return b.groupby(keyf(p), **gkw)
    if op == "join":
        t = second(s)
        oth = {"list": lambda: list(t), "bag": lambda: mkbag([t], ctor), "delayed": lambda: delayed(list(t), traverse=False)}[w]()
        return b.join(oth, keyf(p))
    if op == "product":
        return b.product(other(second(s)))
    if op == "accumulate":
        return b.accumulate(binop(w), initial=p) if q == 1 else b.accumulate(binop(w))
    if op == "take":
        return b.take(p, npartitions=q, compute=False)
    if op == "repartition":
        return b.repartition(npartitions=p)
    if op == "zip":
        return db.zip(b, same(second(s)))
    if op == "concat":
        return db.concat([b, other(second(s))])
    if op in ("count", "sum", "min", "max", "any", "all"):
        return getattr(b, op)(split_every=se)
    if op == "mean":
        return b.mean()
    if op == "var":
        return b.var(ddof=q)
    if op == "std":
        return b.std(ddof=q)
    if op == "pipe":
        if w == "filter.acc":
            return b.filter(pred(2)).accumulate(operator.add)
        if w == "map.filter.sum":
            return b.map(F).filter(pred(4)).sum(split_every=se)
        if w == "filter.max":
            return b.filter(pred(2)).max(split_every=se)
        if w == "flatten.distinct":
            return same(nest(s)).flatten().distinct()
        if w == "map.repart.take":
            return b.map(F).repartition(npartitions=2).take(2, npartitions=-1, compute=False)
        if w == "remove.mean":
            return b.remove(pred(2)).mean()
        if w == "filter.groupby.len":
            return b.filter(pred(1)).groupby(keyf(2), **gkw).map(_kv_len)
        if w == "filter.foldby":
            return b.filter(pred(2)).foldby(keyf(2), operator.add, split_every=se)
        if w == "mappart.topk":
            return b.map_partitions(_mp_f).topk(2, split_every=se)
        if w == "filter.freq":
            return b.filter(pred(2)).frequencies(split_every=se)
        if w == "filter.fold0":
            return b.filter(pred(3)).fold(operator.add, initial=0, split_every=se)
        if w == "filter.count":
            return b.filter(pred(3)).count(split_every=se)
        if w == "accumulate.sum":
            return b.accumulate(operator.add).sum(split_every=se)
    raise MachineryError("unknown operation %r" % (o,))


class Shape(Exception):
    pass


def _plain(x):
    """dask results -> JSON-shaped values (tuples become lists; only ints / bools / nested lists allowed)"""
    if isinstance(x, bool) or isinstance(x, int):
        return x
    if isinstance(x, (list, tuple)):
        return [_plain(y) for y in x]
    raise Shape("unexpected value %r of type %s" % (x, type(x).__name__))


def _ints(v, depth):
    if depth == 0:
        return type(v) is int
    return isinstance(v, list) and all(_ints(x, depth - 1) for x in v)


def shape_ok(o, kind, v):
    """does the observed value have the shape the kind needs (so TLC and the comparisons are well-typed)"""
    op = o["op"]
    if kind == "int":
        return type(v) is int
    if kind == "bool":
        return type(v) is bool
    if kind in ("rat", "rat2"):
        return isinstance(v, list) and len(v) == 2 and _ints(v, 1) and v[1] > 0
    if kind == "grp":
        return isinstance(v, list) and all(isinstance(g, list) and len(g) == 2 and type(g[0]) is int and _ints(g[1], 1) for g in v)
    if kind == "topkkey":
        return _ints(v, 1)
    if op == "distinct" and o["w"] == "keylen":
        return _ints(v, 2)
    if kind == "fsort":
        return _ints(v, 2) and all(len(x) == 2 for x in v)
    if kind == "rep":
        return _ints(v, 1)
    pairwise = op in ("zip", "join", "product", "frequencies", "foldby") or (op == "distinct" and o["w"] == "key0") or (op == "pipe" and o["w"] in (
        "filter.groupby.len", "filter.foldby", "filter.freq"))
    if pairwise:
        return _ints(v, 2) and all(len(x) == 2 for x in v)
    return _ints(v, 1)


def to_rat(x, square=False):
    if not isinstance(x, float) or x != x or x in (float("inf"), float("-inf")):
        raise Shape("not a finite float: %r" % (x,))
    fx = Fraction(x)
    if square:
        fx = fx * fx
    r = fx.limit_denominator(10 ** 6)
    if abs(fx - r) > Fraction(1, 10 ** 9) * max(1, abs(r)):
        # not (close to) a small rational at all: keep a coarse approximation, it will not match
        r = fx.limit_denominator(1000)
    return [r.numerator, r.denominator]


def observe(o, s, layout, knobs, kind):
    """Run dask; return obs = {raised, v, np[, msg | skip | shape]}.  Every exception is an observation."""
    import dask
    try:
        with warnings.catch_warnings():
            warnings.simplefilter("ignore")
            with dask.config.set(temporary_directory=_SCRATCH):
                y = build(o, s, layout, knobs)
                np_ = getattr(y, "npartitions", 0)
                val = y.compute(scheduler="sync")
    except NotImplementedError as ex:
        return {"skip": "NotImplementedError: " + str(ex)[:60]}
    except MachineryError:
        raise
    except Exception as ex:  # noqa: BLE001 - every other exception is an observation
        return {"raised": True, "v": 0, "np": 0, "msg": "%s: %s" % (type(ex).__name__, str(ex)[:160])}
    try:
        if kind in ("rat", "rat2"):
            v = to_rat(val, square=(kind == "rat2"))
        else:
            v = _plain(val)
        if kind != "err" and not shape_ok(o, kind, v):
            raise Shape("result %r does not have the shape of kind %s" % (val, kind))
    except Shape as ex:
        return {"raised": False, "v": 0, "np": np_, "shape": str(ex)[:200]}
    except Exception:  # noqa: BLE001
        if kind == "err":
            return {"raised": False, "v": 0, "np": np_}
        raise
    return {"raised": False, "v": v, "np": np_}


def judge(e, obs, s):
    """Python twin of BagOps!Mismatch: the failing clause or None."""
    kind = e["k"]
    if kind == "err":
        return None if obs["raised"] else "ErrorExpected"
    if obs["raised"]:
        return "UnexpectedRaise"
    if "shape" in obs:
        return "Type"
    v, w = obs["v"], e["v"]
    if kind in ("seq", "int", "bool"):
        ok = v == w
    elif kind in ("rat", "rat2"):
        ok = list(v) == list(w)
    elif kind == "mset":
        ok = _canon(v) == _canon(w)
    elif kind == "grp":
        ok = _canon([[k, sorted(m)] for k, m in v]) == _canon([[k, sorted(m)] for k, m in w])
    elif kind == "topkkey":
        ok = [_half(x) for x in v] == w and all(v.count(x) <= s.count(x) for x in v)
    elif kind == "fsort":
        ok = _canon(v) == _canon(w) and all(v[i][1] >= v[i + 1][1] for i in range(len(v) - 1))
    elif kind == "rep":
        ok = v == w["s"] and obs["np"] == w["np"]
    else:
        raise MachineryError("unknown kind %r" % kind)
    return None if ok else "Content"


# ------------------------------------------------------------------ signatures

ROOT_OF_PIPE = {"filter.acc": "accumulate:noinit", "map.filter.sum": "sum", "filter.max": "max", "flatten.distinct": "distinct:plain",
                "map.repart.take": "repartition+take", "remove.mean": "mean", "filter.groupby.len": "groupby",
                "filter.foldby": "foldby:add", "mappart.topk": "topk:plain", "filter.freq": "frequencies:plain", "filter.fold0": "fold:initial",
                "filter.count": "count", "accumulate.sum": "accumulate:noinit"}


def effective_parts(o, s, layout):
    """the partitions as the judged (last) operation sees them"""
    parts = split_by(s, layout)
    if o["op"] == "pipe":
        w = o["w"]
        if w.startswith("filter."):
            p = {"filter.acc": 2, "filter.max": 2, "filter.groupby.len": 1, "filter.foldby": 2, "filter.freq": 2,
                 "filter.fold0": 3, "filter.count": 3}[w]
            return [[x for x in part if x >= p] for part in parts]
        if w == "remove.mean":
            return [[x for x in part if not x >= 2] for part in parts]
        if w == "flatten.distinct":
            return [[y for x in part for y in range(x % 3)] for part in parts]
    if o["op"] == "flatten":
        return [[y for x in part for y in range(x % 3)] for part in parts]
    return parts


def classify(o, s, layout, knobs, clause):
    """root operation : failing clause : partition-structure class (never concrete numbers)"""
    op, w = o["op"], o["w"]
    if op == "pipe":
        root = ROOT_OF_PIPE[w]
    elif op == "accumulate":
        root = "accumulate:%s" % ("init" if o["q"] == 1 else "noinit")
    elif op == "fold":
        root = "fold:%s" % ("noinitial" if w == "add" else "initial")
    elif op in ("foldby", "reduction", "map", "mappart", "join", "distinct", "frequencies", "topk", "pluck"):
        root = "%s:%s" % (op, w or "plain")
    elif op == "groupby" or (op == "pipe" and w == "filter.groupby.len"):
        root = "groupby"
    else:
        root = op
    if root == "groupby":
        root += ":%s%s" % (knobs["shuffle"][0], "+arg" if knobs["shuffle"][1] else "")
    parts = effective_parts(o, s, layout)
    sizes = [len(p) for p in parts]
    if len(sizes) > 1 and not any(sizes):
        feat = "all-partitions-empty"
    elif not any(sizes):
        feat = "empty-bag"
    elif sizes[0] == 0:
        feat = "empty-first-partition"
    elif 0 in sizes:
        feat = "empty-partition"
    elif len(sizes) == 1:
        feat = "one-partition"
    else:
        feat = "plain"
    return "%s:%s:%s" % (root, clause, feat)


# ------------------------------------------------------------------ case loop

def knobs_for(o, rng, full=False):
    """the configurations a case is run under"""
    uses_se = o["op"] in SPLIT_OPS or (o["op"] == "pipe" and o["w"] in SPLIT_PIPES)
    uses_sh = o["op"] == "groupby" or (o["op"] == "pipe" and o["w"] == "filter.groupby.len")
    ses = [None, 2, 3] if uses_se else [None]
    shs = SHUFFLES if uses_sh else [SHUFFLES[0]]
    if full:
        return [{"se": se, "shuffle": sh, "bs": rng.choice([2, 64]), "ctor": rng.choice(["graph", "delayed"])}
                for se in ses for sh in shs]
    return [{"se": rng.choice(ses), "shuffle": rng.choice(shs), "bs": rng.choice([2, 64]), "ctor": rng.choice(["graph", "delayed"])}]


def _work(item):
    o, s, layout, knobs, e = item
    kind, val = py_ref(o, s, layout)
    e = resolve(e, o, layout)
    if not ref_agrees(e, kind, val):
        return ("GUARD", {"python": [kind, str(val)], "spec": e})
    obs = observe(o, s, layout, knobs, e["k"])
    if "skip" in obs:
        return ("SKIP", obs["skip"])
    return (judge(e, obs, s), obs)


def check_items(ctx, items, report, parallel=True):
    """run dask on items = [(o, s, layout, knobs, e)], judge; report(signature, what, replay) per violation."""
    results = pmap(_work, items, chunk=100) if parallel else [_work(x) for x in items]
    nviol = 0
    for (o, s, layout, knobs, e), (cl, detail) in zip(items, results):
        if cl == "GUARD":
            raise MachineryError("TLA+ reference disagrees with plain Python on %r %r %r: %r" % (o, s, layout, detail))
        if cl == "SKIP":
            ctx.skip(detail)
            continue
        ctx.count(("case", o, s, layout, knobs["se"], knobs["shuffle"], knobs["ctor"]), len(s) >= 2 and len(layout) >= 2)
        if cl:
            nviol += 1
            report(classify(o, s, layout, knobs, cl),
                   "%s: dask.bag disagrees with the reference on %s%s" % (cl, o["op"], ("/" + o["w"]) if o["w"] else ""),
                   {"o": o, "s": s, "layout": layout, "knobs": knobs, "expected": resolve(e, o, layout), "observed": detail})
    return nviol


def export_cases(ctx, maxlen, extra, design_parts, label):
    consts = {"MaxLen": maxlen, "Vals": TLA("0..3"), "MaxParts": 4, "DesignParts": design_parts,
              "ExtraSeqs": TLA("{" + ", ".join("<<" + ", ".join(map(str, x)) + ">>" for x in extra) + "}")}
    spec, cfg = ctx.model(ctx.spec("bag", "BagOpsMC.tla"), consts,
                          invariants=["TakeTableOK", "ElementwiseLen", "FilterRemoveSplit", "ChunkCombine", "GroupsPartition",
                                      "JoinProductSize"])
    cases, _ = ctx.tlc_cases(spec, cfg, label=label, timeout=2400)
    layouts, byvar = {}, {}
    for c in cases:
        if c["c"]["fam"] == "layouts":
            layouts[c["c"]["n"]] = sorted(c["e"])
        else:
            o = c["c"]["o"]
            byvar.setdefault((o["op"], o["w"], o["p"], o["q"]), []).append((c["c"]["s"], o, c["e"]))
    for v in byvar.values():
        v.sort(key=lambda x: x[0])
    return layouts, byvar


def deep_layouts(layouts, n):
    """(layout, split_every) with at least two levels in the reduction tree (npartitions > split_every), as few empty
    partitions as the length allows"""
    out = []
    for lay in layouts[n]:
        for se in (2, 3):
            if len(lay) > se and sum(1 for x in lay if x) >= min(n, se + 1):
                out.append((lay, se))
    return out


def plan(rng, layouts, byvar, exhaustive_len, per_variant, per_deep=0):
    """(o, s, layout, knobs, e) items: everything up to exhaustive_len, a seeded sample above, and for the variants
    with binop != combine a stratum of deep reduction trees over the longest sequences"""
    items = []
    for var in sorted(byvar):
        if (var[0], var[1]) in DEEP_VARIANTS and per_deep:
            longest = max(len(x[0]) for x in byvar[var])
            long_ = [x for x in byvar[var] if len(x[0]) >= max(3, longest - 1)]
            for _ in range(per_deep if long_ else 0):
                s, o, e = rng.choice(long_)
                lay, se = rng.choice(deep_layouts(layouts, len(s)))
                items.append((o, s, lay, {"se": se, "shuffle": SHUFFLES[0], "bs": 64, "ctor": rng.choice(["graph", "delayed"])}, e))
        big = []
        for s, o, e in byvar[var]:
            if len(s) <= exhaustive_len:
                for lay in layouts[len(s)]:
                    for kn in knobs_for(o, rng):
                        items.append((o, s, lay, kn, e))
            else:
                big.append((s, o, e))
        for _ in range(per_variant):
            s, o, e = rng.choice(big)
            items.append((o, s, rng.choice(layouts[len(s)]), knobs_for(o, rng)[0], e))
    return items


# ------------------------------------------------------------------ code -> spec

def random_records(rng, n):
    variants = None
    recs = []
    menu = [("map", w, 0, 0) for w in ("f", "const", "bag", "kw")]
    menu += [(op, "", 0, 0) for op in ("starmap", "flatten", "product", "zip", "concat", "count", "sum", "min", "max", "any", "all",
                                        "mean")]
    menu += [(op, "", p, 0) for op in ("filter", "remove") for p in (1, 2, 5, 10)]
    menu += [("mappart", w, 0, 0) for w in ("f", "bag", "item")] + [("pluck", "pair", 0, 0), ("pluck", "pair", 1, 0),
                                                                     ("pluck", "default", 1, 0)]
    menu += [("distinct", w, 0, 0) for w in ("", "key", "key0", "keylen", "key", "key0")] + [("frequencies", w, 0, 0) for w in ("", "sort")]
    menu += [("topk", w, p, 0) for w in ("", "neg", "half") for p in (1, 3, 5)]
    menu += [("fold", w, 0, 0) for w in ("add", "add0", "cnt", "sq", "cat")] + [("reduction", w, 0, 0) for w in ("sum", "len", "uniq")]
    menu += [("foldby", w, p, 0) for w in ("add", "add0", "add00", "cnt", "sq", "cnt", "sq") for p in (2, 3, 0)]
    menu += [("groupby", "", p, 0) for p in (0, 2, 3, 0, 2, 3)]
    menu += [("join", w, p, 0) for w in ("list", "bag", "delayed") for p in (0, 2)]
    menu += [("accumulate", w, 1, q) for w in ("add", "nc") for q in (0, 1)]
    menu += [("take", "", p, q) for p in (1, 3, 6) for q in (1, 2, 4, -1)]
    menu += [("repartition", "", p, 0) for p in (1, 2, 3, 5, 7, 11)]
    menu += [(op, "", 0, q) for op in ("var", "std") for q in (0, 1)]
    menu += [("pipe", w, 0, 0) for w in sorted(ROOT_OF_PIPE)]
    variants = menu
    for i in range(n):
        op, w, p, q = rng.choice(variants)
        small = op in ("join", "product")
        ln = rng.randint(0, 7 if small else 14)
        s = [rng.choice([0, 1, 2, 3, 3, 4, 5, 6, 7, 8, 9]) for _ in range(ln)]
        nparts = rng.randint(1, 8)
        cuts = sorted(rng.randint(0, ln) for _ in range(nparts - 1))
        layout = [b - a for a, b in zip([0] + cuts, cuts + [ln])]
        if rng.random() < 0.3 and nparts > 1:      # concentrate elements: more empty partitions
            j = rng.randrange(nparts)
            layout = [0] * nparts
            layout[j] = ln
        o = {"op": op, "w": w, "p": p, "q": q}
        knobs = {"se": rng.choice([None, 2, 3]), "shuffle": rng.choice(SHUFFLES + [("disk", 5), ("tasks", 3)]),
                 "bs": rng.choice([1, 3, 64]), "ctor": rng.choice(["graph", "delayed"])}
        recs.append((i, o, s, layout, knobs))
    return recs


def _record(item):
    i, o, s, layout, knobs = item
    kind, val = py_ref(o, s, layout)
    obs = observe(o, s, layout, knobs, kind)
    if "skip" in obs:
        return None
    # Python verdict (the guard of the TLC verdict): judge against the plain-Python expectation
    if kind in ("rat", "rat2"):
        e = {"k": kind, "v": [val.numerator, val.denominator]}
    else:
        e = {"k": kind, "v": val}
    pyverdict = judge(e, obs, s)
    rec = {"id": "r%d" % i, "o": o, "parts": split_by(s, layout),
           "obs": {"raised": obs["raised"], "v": obs["v"], "np": obs["np"]}}
    return rec, pyverdict, obs, (o, s, layout, knobs)


def validate_records(ctx, recs_in, report):
    out = [x for x in pmap(_record, recs_in, chunk=100) if x is not None]
    tspec, tcfg = ctx.model(ctx.spec("bag", "BagOpsTrace.tla"), {})
    nviol = 0
    for lo in range(0, len(out), 5000):
        part = out[lo:lo + 5000]
        # a result of the wrong shape cannot be shown to TLC: it is a violation by itself
        send = [x for x in part if "shape" not in x[2]]
        rej = ctx.tlc_validate(tspec, [x[0] for x in send], tcfg, timeout=1800)
        for rec, pyv, obs, (o, s, layout, knobs) in part:
            ctx.count(("rec", o, s, layout, knobs["se"], knobs["shuffle"]), len(s) >= 2 and len(layout) >= 2)
            if "shape" in obs:
                nviol += 1
                report(classify(o, s, layout, knobs, "Type"), "result of the wrong type: " + obs["shape"],
                       {"o": o, "s": s, "layout": layout, "knobs": knobs, "observed": obs, "recorded": True})
                continue
            tlcv = None
            if rec["id"] in rej:
                tlcv = rej[rec["id"]][0].strip('{} "').split('"')[0] or "Rejected"
            if tlcv != pyv:
                raise MachineryError("TLC and the Python judge disagree on record %r: TLC %r, Python %r" % (rec, tlcv, pyv))
            if tlcv:
                nviol += 1
                report(classify(o, s, layout, knobs, tlcv), "TLC rejects a recorded bag call (%s) on %s" % (tlcv, o["op"]),
                       {"o": o, "s": s, "layout": layout, "knobs": knobs, "observed": obs, "recorded": True})
    return nviol, len(out)


def run(ctx):
    global _SCRATCH
    _SCRATCH = ctx.scratch
    rng = ctx.rng
    t0 = time.time()
    if ctx.quick:
        extra = sorted({tuple(rng.randint(0, 3) for _ in range(5)) for _ in range(110)})
        layouts, byvar = export_cases(ctx, 4, extra, 2, "design+cases")
        items = plan(rng, layouts, byvar, 1, 45, per_deep=60)
    else:
        layouts, byvar = export_cases(ctx, 6, [], 3, "design+cases")
        items = plan(rng, layouts, byvar, 2, 1200, per_deep=1500)
    ncases = sum(len(v) for v in byvar.values())
    t1 = time.time()
    check_items(ctx, items, ctx.violation)
    t2 = time.time()
    for var in sorted(byvar)[::25]:
        s, o, e = byvar[var][len(byvar[var]) // 2]
        ctx.sample({"sequence": s, "operation": o, "expected": e if e["k"] != "take" else {"k": "take", "v": "(table)"}})
    nrec = ctx.pick(1200, 20000)
    _, nr = validate_records(ctx, random_records(rng, nrec), ctx.violation)
    ctx.extra["phase_seconds"] = {"tlc_export": round(t1 - t0, 1), "replay": round(t2 - t1, 1), "records": round(time.time() - t2, 1)}
    ctx.exhaustive = False
    ctx.rule = ("case = (sequence, operation variant) enumerated by TLC x partitioning (all with <= 4 parts, empty ones included) x "
                "split_every x groupby shuffle x constructor, plus recorded random calls; all partitionings for the shortest "
                "sequences, a seeded sample above; non-trivial = at least 2 elements in at least 2 partitions")
    ctx.extra["cases_enumerated_by_tlc"] = ncases
    ctx.extra["partitionings_enumerated_by_tlc"] = {str(k): len(v) for k, v in sorted(layouts.items())}
    ctx.extra["operation_variants"] = len(byvar)
    ctx.extra["recorded_calls"] = nr
    ctx.assumptions = ["toolz / itertools kernels inside one partition are correct", "TLC evaluates the reference semantics correctly",
                       "the user functions are transcribed identically in BagOps.tla and the driver (checked by the reference guard)",
                       "sequences and partition counts bounded as stated"]


def replay(ctx, obj):
    global _SCRATCH
    _SCRATCH = ctx.scratch
    c = obj["case"]
    o, s, layout, knobs = c["o"], c["s"], c["layout"], c["knobs"]
    knobs["shuffle"] = tuple(knobs["shuffle"])
    kind, val = py_ref(o, s, layout)
    if kind in ("rat", "rat2"):
        e = {"k": kind, "v": [val.numerator, val.denominator]}
    else:
        e = {"k": kind, "v": val}
    obs = observe(o, s, layout, knobs, kind)
    cl = None if "skip" in obs else judge(e, obs, s)
    print("operation:", o, "\nsequence:", s, "partition sizes:", layout, "knobs:", knobs, "\nexpected:", e, "\nobserved:", obs,
          "\nclause:", cl)
    if cl and "shape" not in obs:
        tspec, tcfg = ctx.model(ctx.spec("bag", "BagOpsTrace.tla"), {})
        rej = ctx.tlc_validate(tspec, [{"id": "r0", "o": o, "parts": split_by(s, layout),
                                        "obs": {"raised": obs["raised"], "v": obs["v"], "np": obs["np"]}}], tcfg)
        print("TLC:", rej)
    return cl is not None


# ------------------------------------------------------------------ binding self-test

class method_mutant:
    """like mutate.source_mutant, for a method of a class: the method is recompiled from its source with one
    textual edit and installed on the class inside this process only"""
    def __init__(self, module, cls, name, old, new):
        import inspect
        import textwrap
        self.cls, self.name, self.orig = cls, name, cls.__dict__[name]
        src = textwrap.dedent(inspect.getsource(self.orig))
        if src.count(old) < 1:
            raise MachineryError("mutant anchor %r not found in %s.%s" % (old, cls.__name__, name))
        locs = {}          # the definition lands here; globals resolve in the module (a method may be named like a global)
        exec(compile(src.replace(old, new, 1), "<mutant %s.%s>" % (cls.__name__, name), "exec"), module.__dict__, locs)
        self.mutated = locs[name]

    def __enter__(self):
        setattr(self.cls, self.name, self.mutated)
        return self.mutated

    def __exit__(self, *exc):
        setattr(self.cls, self.name, self.orig)
        return False


def selftest(ctx):
    global _SCRATCH
    _SCRATCH = ctx.scratch
    import dask.bag.core as BC

    from ..mutate import source_mutant
    ok = True
    rng = random.Random(11)
    r0 = random.Random(7)
    layouts, byvar = export_cases(ctx, 2, sorted({tuple(r0.randint(0, 3) for _ in range(3)) for _ in range(24)}), 2, "selftest-cases")

    def subset(ops, n, deep=0):
        r = random.Random(3)
        sel = {k: v for k, v in byvar.items() if k[0] in ops or (k[0] == "pipe" and any(x in k[1] for x in ops))}
        return plan(r, layouts, sel, 1, n, per_deep=deep)

    found = []

    def report(sig, what, rep):
        found.append(sig)

    def trial(name, cm, ops, expect=True, n=25, deep=0):
        nonlocal ok
        del found[:]
        items = subset(ops, n, deep)
        with cm:
            check_items(ctx, items, report, parallel=False)
        new = [f for f in found if f not in ctx.known]          # the known findings do not count as detection
        nv = len(new)
        good = (nv > 0) == expect
        ok &= good
        print("mutant %-44s %s (%d violations on %d cases) %s" % (
            name, ("DETECTED" if nv else "no alarm") + ("" if good else "  <-- WRONG"), nv, len(items), sorted(set(new))[:2]))

    import contextlib
    base = contextlib.nullcontext()
    # the unchanged tree must only show the known findings on these subsets
    del found[:]
    items = subset({"groupby", "frequencies", "sum", "accumulate", "repartition", "fold", "distinct", "topk"}, 8, deep=10)
    check_items(ctx, items, report, parallel=False)
    unknown = sorted(set(f for f in found if f not in ctx.known))
    print("unchanged tree on the self-test subset: %d cases, violations outside known findings: %s" % (len(items), unknown))
    ok &= not unknown
    trial("groupby_tasks: ceil -> floor of the branching k", source_mutant(
        BC, "groupby_tasks", "k = int(math.ceil(n ** (1 / stages)))", "k = int(math.floor(n ** (1 / stages)))"), {"groupby"}, n=100)
    trial("merge_frequencies: out[k] += v -> out[k] = v", source_mutant(
        BC, "merge_frequencies", "out[k] += v", "out[k] = v"), {"frequencies", "freq"})
    trial("empty_safe_apply: no_result even for the last step", source_mutant(
        BC, "empty_safe_apply", "            if not is_last:\n                return no_result", "            return no_result"),
        {"sum", "count", "max"})
    trial("accumulate_part: carries res[0] instead of res[-1]", source_mutant(
        BC, "accumulate_part", "return res[1:], res[-1]", "return res[1:], res[0]"), {"accumulate"})
    trial("split: last piece starts one element late", source_mutant(
        BC, "split", "L.append(seq[int(part * (n - 1)) :])", "L.append(seq[int(part * (n - 1)) + 1 :])"), {"repartition"})
    trial("merge_distinct: keyed merge keeps the LAST element per key", source_mutant(
        BC, "merge_distinct", "return chunk_distinct(toolz.concat(seqs), key=key)",
        "if key is None:\n        return chunk_distinct(toolz.concat(seqs))\n    if not callable(key):\n"
        "        key = partial(chunk.getitem, key=key)\n    return list({key(item): item for item in toolz.concat(seqs)}.values())"),
        {"distinct"})
    trial("chunk_distinct: keeps the last element per key inside a partition", source_mutant(
        BC, "chunk_distinct", "return list(unique(seq, key=key))", "return list(unique(list(seq)[::-1], key=key))[::-1]"), {"distinct"})
    trial("Bag.foldby: intermediate tree levels merge with binop, not combine", method_mutant(
        BC, BC.Bag, "foldby", "(partial, reduce, combine),", "(partial, reduce, binop),"), {"foldby"}, n=6, deep=40)
    trial("Bag.reduction: intermediate tree levels apply perpartition, not aggregate", method_mutant(
        BC, BC.Bag, "reduction", "aggregate,\n" + " " * 16 + "[(b, j) for j in inds],", "perpartition,\n" + " " * 16 + "[(b, j) for j in inds],"),
        {"fold", "reduction", "frequencies", "count"}, n=5, deep=15)
    trial("benign: topk(key=) prefers the later of two equal-key elements", method_mutant(
        BC, BC.Bag, "topk", "func = partial(topk, k, key=key)", "func = compose(partial(topk, k, key=key), list, reversed, list)"),
        {"topk"}, expect=False, n=8, deep=10)
    trial("benign: repartition puts the remainder first", source_mutant(
        BC, "repartition_npartitions", "nsplits[-1] += mod", "nsplits[0] += mod"), {"repartition"}, expect=False)
    # (ii) corrupted / truncated recorded fields must be rejected by the trace specification
    tspec, tcfg = ctx.model(ctx.spec("bag", "BagOpsTrace.tla"), {})
    o = {"op": "accumulate", "w": "add", "p": 1, "q": 0}
    parts = [[1, 2], [], [3]]
    good = {"id": "good", "o": o, "parts": parts, "obs": {"raised": False, "v": [1, 3, 6], "np": 3}}
    bad1 = {"id": "corrupt", "o": o, "parts": parts, "obs": {"raised": False, "v": [1, 3, 7], "np": 3}}
    bad2 = {"id": "dropped", "o": o, "parts": parts, "obs": {"raised": False, "v": [1, 3], "np": 3}}
    g1 = {"id": "grp-ok", "o": {"op": "groupby", "w": "", "p": 2, "q": 0}, "parts": [[1, 2], [3]],
          "obs": {"raised": False, "v": [[0, [2]], [1, [3, 1]]], "np": 2}}
    g2 = {"id": "grp-lost", "o": {"op": "groupby", "w": "", "p": 2, "q": 0}, "parts": [[1, 2], [3]],
          "obs": {"raised": False, "v": [[0, [2]], [1, [1]]], "np": 2}}
    rej = ctx.tlc_validate(tspec, [good, bad1, bad2, g1, g2], tcfg)
    good_ = set(rej) == {"corrupt", "dropped", "grp-lost"}
    print("trace spec: corrupted value / dropped element / lost group member rejected, faithful records accepted: %s %s"
          % ("OK" if good_ else "WRONG", sorted(rej)))
    ok &= good_
    return 0 if ok else 1
