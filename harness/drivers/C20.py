"""C20 - array indexing equals NumPy indexing.

spec -> code: TLC enumerates (specs/array/IndexingMC.tla) every case of the bounded index space
together with the result demanded by the TLA+ reference semantics (specs/array/Indexing.tla);
each case is run on the real dask array with exactly that chunking, every block computed through
its own key.  code -> spec: seeded random index expressions on larger arrays are recorded and
TLC decides every record (IndexingTrace.tla).  NumPy is only the reference *guard*."""
from __future__ import annotations

import numpy as np

from ..arrays import assemble, cells, id_array, observe, py_chunks, raised
from ..core import TLA, MachineryError
from ..par import pmap

META = {
    "title": "Array indexing equals NumPy indexing",
    "design_ref": "DESIGN.md §4.3 C20",
    "technique": "TLA+ reference semantics of NumPy indexing; TLC enumerates all chunkings x indices of small shapes; "
                 "replay into dask + TLC validation of recorded calls",
    "level_text": "Small-scope exhaustive: TLC enumerates every 1-d slice (start/stop/step incl. None, out-of-range, negative) "
                  "over every chunking of extents 0..N and a menu of int/list/bool/None components over every chunking of small "
                  "2-d/3-d shapes, plus vindex and .blocks; the TLA+ reference gives the expected content, shape and error; "
                  "dask is replayed on each case block by block. Random larger cases are decided by TLC from recorded calls.",
    "level_note": "Trusted: TLC, the TLA+ reference (cross-checked against NumPy on every case; a disagreement is a machinery "
                  "error, not a violation), the block-assembly projection. Bounded shapes; NumPy kernels per block are trusted.",
}

NONE = 99


def _sl(c):
    f = lambda v: None if v == NONE else v
    return slice(f(c["a"]), f(c["b"]), c["st"])


def py_index(comps, nd, indexer="list", ellipsis=False, chunks1=2):
    """Translate spec components into a Python index.  indexer: how list/bool components are spelled."""
    import dask.array as da
    out = []
    for c in comps:
        k = c["k"]
        if k == "s":
            out.append(_sl(c))
        elif k == "i":
            out.append(c["i"])
        elif k == "n":
            out.append(None)
        elif k in ("l", "b"):
            arr = np.array(c["v"], dtype=bool if k == "b" else np.intp)
            if indexer == "list":
                out.append(arr.tolist())
            elif indexer == "np":
                out.append(arr)
            else:
                out.append(da.from_array(arr, chunks=max(1, chunks1)))
    if ellipsis:
        # drop trailing full slices and spell them (and the implicit ones) as Ellipsis
        while out and isinstance(out[-1], slice) and out[-1] == slice(None, None, 1):
            out.pop()
        out.append(Ellipsis)
    return tuple(out)


def np_reference(case):
    src = id_array(case["shape"])
    fam = case["fam"]
    try:
        if fam == "slice1d":
            r = src[_sl(case)]
        elif fam == "nd":
            r = src[py_index(case["comps"], len(case["shape"]), "np")]
        elif fam == "vindex":
            r = src[tuple(np.array(p, dtype=np.intp) for p in case["pts"])]
        elif fam == "vindexc":
            r = src[tuple(np.array(c["v"], dtype=np.intp) if c["k"] == "l" else c["i"] for c in case["comps"])]
        elif fam == "mask":
            r = src[np.array(case["mask"], dtype=bool).reshape(tuple(case["shape"]))]
        elif fam == "blocks":
            return None     # NumPy has no .blocks; reference sanity is checked by TLC invariants
        return {"err": False, "shape": list(r.shape), "cells": cells(r)}
    except IndexError:
        return {"err": True}


def run_dask(case, indexer="list", ellipsis=False):
    """Apply the case to a real dask array; return (obs, cells or None)."""
    import dask.array as da
    shape = tuple(case["shape"])
    x = da.from_array(id_array(shape), chunks=py_chunks(case["chunks"]))
    fam = case["fam"]
    try:
        if fam == "slice1d":
            y = x[_sl(case)]
        elif fam == "nd":
            y = x[py_index(case["comps"], len(shape), indexer, ellipsis)]
        elif fam == "vindex":
            pts = [np.array(p, dtype=np.intp) if indexer != "list" else list(p) for p in case["pts"]]
            y = x.vindex[tuple(pts)]
        elif fam == "vindexc":
            key = tuple((np.array(c["v"], dtype=np.intp) if indexer != "list" else list(c["v"])) if c["k"] == "l" else c["i"]
                        for c in case["comps"])
            y = x.vindex[key]
        elif fam == "mask":
            m = np.array(case["mask"], dtype=bool).reshape(shape)
            if indexer == "da":
                m = da.from_array(m, chunks=py_chunks(case["mchunks"]))
            y = x[m]
        elif fam == "blocks":
            y = x.blocks[py_index(case["comps"], len(shape), "list", ellipsis)]
        obs, full = observe(y, whole_too=case.get("whole", False))
        return obs, (cells(full) if full is not None else None)
    except NotImplementedError as ex:
        return {"skip": "NotImplementedError: " + str(ex)[:60]}, None
    except Exception as ex:  # noqa: BLE001 - every other exception is an observation
        o = raised(ex)
        o["msg"] = str(ex)[:200]
        return o, None


def classify(case, clause, variant=("list", False)):
    """Signature of a violation: family, failing clause, and the structural class of the index
    (which kinds of components are combined) - not the concrete numbers."""
    fam = case["fam"]
    if fam == "slice1d":
        n = case["shape"][0]
        feats = ["neg" if case["st"] < 0 else "pos"]
        for nm in ("a", "b"):
            v = case[nm]
            if v != NONE and v < -n:
                feats.append(nm + "<-n")
        if 0 in case["chunks"][0] and n > 0:
            feats.append("zero-chunk")
        return "slice1d:%s:%s" % (clause, "+".join(feats))
    if fam in ("nd", "blocks"):
        comps = case["comps"]
        kinds = [c["k"] for c in comps]
        feats = []
        has_arr = any(k in ("l", "b") for k in kinds)
        if "n" in kinds and has_arr:
            feats.append("newaxis+advanced")
        if has_arr and variant[0] == "da":
            feats.append("dask-indexer")
            arr = [c for c in comps if c["k"] in ("l", "b")][0]
            if (len(arr["v"]) if arr["k"] == "l" else sum(arr["v"])) == 1:
                feats.append("len1")
        if has_arr and "i" in kinds:
            pos = [i for i, k in enumerate(kinds) if k in ("l", "b", "i")]
            if pos[-1] - pos[0] + 1 != len(pos):
                feats.append("int+advanced-separated")
        if any(c["k"] == "s" and c["st"] < 0 for c in comps):
            feats.append("negstep")
        if has_arr and any(0 in ch and s > 0 for ch, s in zip(case["chunks"], case["shape"])):
            feats.append("zero-chunk")
        if has_arr and any(len(c["v"]) == 0 for c in comps if c["k"] == "l"):
            feats.append("empty-list")
        # input classes behind the recorded known findings: the first that applies names the
        # violation (one root cause shows up under several clauses and feature combinations)
        for root, need in (("newaxis+advanced", {"newaxis+advanced"}),
                           ("int+advanced-separated", {"int+advanced-separated"}),
                           ("dask-indexer+zero-chunk", {"dask-indexer", "zero-chunk"}),
                           ("dask-indexer+empty-list", {"dask-indexer", "empty-list"}),
                           ("dask-indexer+len1", {"dask-indexer", "len1"})):
            if need <= set(feats):
                return "%s:%s" % (fam, root)
        return "%s:%s:%s" % (fam, clause, "+".join(feats) or "basic")
    return "%s:%s" % (fam, clause)


def judge(case, exp, obs, got):
    """Compare one observation with the expected result of the specification.  Returns clause or None."""
    if "skip" in obs:
        return None
    if exp["err"]:
        return None if obs["raised"] else "ErrorExpected"     # NumPy has no result; any exception is accepted
    if obs["raised"]:
        return "UnexpectedRaise"
    if obs["cshape"] != list(exp["shape"]):
        return "Shape"
    if got != list(exp["cells"]):
        return "Content"
    # lazy metadata clause (MetaOK of the specification)
    for a, ch in enumerate(obs["chunks"]):
        if all(c >= 0 for c in ch):
            if sum(ch) != obs["cshape"][a] or obs["lshape"][a] != obs["cshape"][a]:
                return "Meta"
    if len(obs["chunks"]) != len(obs["cshape"]) or not obs["blocksok"]:
        return "Meta"
    if case["fam"] == "blocks" and obs["chunks"] != [list(c) for c in exp["chunks"]]:
        return "BlockChunks"
    return None


def _work(item):
    case, exp, variants = item
    res = []
    ref = np_reference(case)
    if ref is not None:
        if ref["err"] != exp["err"] or (not ref["err"] and (ref["shape"] != list(exp["shape"]) or ref["cells"] != list(exp["cells"]))):
            return [("GUARD", None, ref)]
    for (indexer, ell) in variants:
        obs, got = run_dask(case, indexer, ell)
        if "skip" in obs:
            res.append(("SKIP", (indexer, ell), obs["skip"]))
            continue
        cl = judge(case, exp, obs, got)
        res.append((cl, (indexer, ell), {"obs": obs, "got": got} if cl else None))
    return res


def variants_for(case, rng, thorough):
    fam = case["fam"]
    if fam == "slice1d":
        return [("list", False)]
    if fam in ("vindex", "vindexc"):
        return [("list", False), ("np", False)] if thorough else [(rng.choice(["list", "np"]), False)]
    if fam == "mask":
        return [("np", False), ("da", False)]
    if fam == "blocks":
        return [("list", False), ("list", True)] if thorough else [("list", rng.random() < 0.3)]
    has_arr = any(c["k"] in ("l", "b") for c in case["comps"])
    vs = [("list", False)]
    if has_arr:
        vs += [("np", False), ("da", False)] if thorough else [(rng.choice(["np", "da"]), False)]
    if thorough or rng.random() < 0.25:
        vs.append(("list", True))
    return vs


def random_records(ctx, n):
    """code -> spec: random larger arrays and index expressions, recorded for TLC."""
    rng = ctx.rng
    recs = []
    for i in range(n):
        nd = rng.choice([1, 2, 2, 3, 3])
        shape = [rng.choice([1, 2, 3, 4, 5, 6, 7]) for _ in range(nd)]
        if nd == 3:
            shape = [min(s, 5) for s in shape]
        chunks = []
        for s in shape:
            ch, left = [], s
            while left > 0:
                c = rng.randint(1, left)
                ch.append(c)
                left -= c
            if rng.random() < 0.15:
                ch.insert(rng.randint(0, len(ch)), 0)
            chunks.append(ch)
        comps, used_arr = [], False
        for s in shape:
            r = rng.random()
            if r < 0.45:
                f = lambda: rng.choice([NONE, NONE] + list(range(-s - 2, s + 3)))
                comps.append({"k": "s", "a": f(), "b": f(), "st": rng.choice([1, 1, 2, 3, -1, -2, -3])})
            elif r < 0.6:
                comps.append({"k": "i", "i": rng.randint(-s, s - 1)})
            elif r < 0.8 and not used_arr:
                used_arr = True
                comps.append({"k": "l", "v": [rng.randint(-s, s - 1) for _ in range(rng.randint(0, s + 2))]})
            elif r < 0.9 and not used_arr:
                used_arr = True
                comps.append({"k": "b", "v": [rng.randint(0, 1) for _ in range(s)]})
            else:
                comps.append({"k": "s", "a": NONE, "b": NONE, "st": 1})
        if rng.random() < 0.3:
            comps.insert(rng.randint(0, len(comps)), {"k": "n"})
        if rng.random() < 0.3:
            while comps and comps[-1] == {"k": "s", "a": NONE, "b": NONE, "st": 1}:
                comps.pop()
        case = {"fam": "nd", "shape": shape, "chunks": chunks, "comps": comps, "whole": True}
        recs.append(case)
    return recs


def _record(item):
    i, case = item
    indexer = ["list", "np", "da"][i % 3]
    obs, got = run_dask(case, indexer, i % 5 == 0)
    if "skip" in obs:
        return None
    obs = dict(obs)
    obs.pop("msg", None)
    obs["cells"] = got if got is not None else []
    rec = {"id": "r%d" % i, "fam": case["fam"], "shape": case["shape"], "chunks": case["chunks"],
           "comps": case["comps"], "obs": obs, "indexer": indexer}
    return rec


def run(ctx):
    thorough = not ctx.quick
    n1 = ctx.pick(5, 6)
    shapes2 = ctx.pick("{<<2, 3>>, <<3, 1>>}", "{<<2, 3>>, <<3, 1>>, <<4, 3>>, <<0, 2>>, <<3, 1, 2>>}")
    shapesv = ctx.pick("{<<3>>, <<2, 3>>}", "{<<3>>, <<4>>, <<2, 3>>, <<3, 3>>, <<2, 2, 2>>}")
    shapesb = ctx.pick("{<<4>>, <<2, 3>>}", "{<<4>>, <<5>>, <<2, 3>>, <<3, 4>>}")
    invs = ["CellsInRange", "CellCount", "SliceMonotone", "BlocksIdentity"]
    fams = [("slice1d", {"Fam": "slice1d", "N": n1, "Shapes": TLA("{}")}),
            ("nd", {"Fam": "nd", "N": 0, "Shapes": TLA(shapes2)}),
            ("vindex", {"Fam": "vindex", "N": 0, "Shapes": TLA(shapesv)}),
            ("blocks", {"Fam": "blocks", "N": 0, "Shapes": TLA(shapesb)}),
            ("vindexc", {"Fam": "vindexc", "N": 0, "Shapes": TLA(ctx.pick("{<<2, 3>>, <<3, 2, 2>>}", "{<<2, 3>>, <<3, 4>>, <<3, 2, 2>>}"))}),
            ("mask", {"Fam": "mask", "N": 0, "Shapes": TLA(ctx.pick("{<<2, 3>>}", "{<<2, 3>>, <<3, 2>>, <<2, 2, 2>>}"))})]
    total_cases = 0
    sampled = False
    for fam, consts in fams:
        spec, cfg = ctx.model(ctx.spec("array", "IndexingMC.tla"), consts, invariants=invs)
        cases, _ = ctx.tlc_cases(spec, cfg, label="design+cases:" + fam, timeout=ctx.pick(1200, 5400))
        total_cases += len(cases)
        cap = ctx.pick({"slice1d": 25000, "nd": 12000, "vindex": 2000, "blocks": 2000, "vindexc": 2500, "mask": 3000}[fam],
                       {"slice1d": 250000, "nd": 120000, "vindex": 30000, "blocks": 30000, "vindexc": 30000, "mask": 30000}[fam])
        if len(cases) > cap:
            sampled = True
            cases = ctx.rng.sample(cases, cap)
        items = [(c["c"], c["e"], variants_for(c["c"], ctx.rng, thorough)) for c in cases]
        results = pmap(_work, items)
        for (case, exp, _v), res in zip(items, results):
            for cl, variant, detail in res:
                if cl == "GUARD":
                    raise MachineryError("TLA+ reference disagrees with NumPy on %r: numpy=%r spec=%r" % (case, detail, exp))
                if cl == "SKIP":
                    ctx.skip(detail)
                    continue
                nontrivial = (not exp["err"]) and len(exp["cells"]) > 0
                ctx.count((case, variant), nontrivial)
                if cl:
                    ctx.violation(classify(case, cl, variant), "%s: dask disagrees with the reference on %s" % (cl, fam),
                                  {"case": case, "expected": exp, "variant": variant, "observed": detail})
        ctx.sample({"case": items[0][0], "expected": items[0][1]})
    # code -> spec
    nrec = ctx.pick(1500, 20000)
    recs = [r for r in pmap(_record, list(enumerate(random_records(ctx, nrec)))) if r is not None]
    spec, cfg = ctx.model(ctx.spec("array", "IndexingTrace.tla"), {})
    for lo in range(0, len(recs), 5000):
        part = recs[lo:lo + 5000]
        rej = ctx.tlc_validate(spec, part, cfg, timeout=ctx.pick(1800, 5400))
        byid = {r["id"]: r for r in part}
        for r in part:
            ctx.count(("rec", r["shape"], r["chunks"], r["comps"], r["indexer"]), r["obs"]["raised"] == "" and len(r["obs"]["cells"]) > 0)
        for rid, clauses in rej.items():
            r = byid[rid]
            cl = clauses[0].strip("{}\" ").split('"')[0] or "Rejected"
            ctx.violation(classify(r, cl, (r["indexer"], False)), "TLC rejects a recorded indexing call (%s)" % clauses[0], {"record": r, "clauses": clauses})
    if recs:
        ctx.sample({"recorded_call": {k: recs[0][k] for k in ("shape", "chunks", "comps", "indexer")}})
    ctx.exhaustive = not sampled
    ctx.rule = ("cases = TLC-enumerated (family, shape, chunking, index) tuples x spelling variants (list/ndarray/dask-array "
                "indexer, Ellipsis), plus recorded random calls; non-trivial = the reference result is non-empty and not an "
                "expected IndexError; distinct by (case, variant)")
    ctx.extra["cases_enumerated_by_tlc"] = total_cases
    ctx.assumptions = ["NumPy per-block kernels are correct", "TLC evaluates the reference semantics correctly",
                       "shapes bounded as listed in tlc_runs constants"]


def replay(ctx, obj):
    c = obj["case"]
    if "record" in c:
        r = c["record"]
        spec, cfg = ctx.model(ctx.spec("array", "IndexingTrace.tla"), {})
        rec = _record((int(r["id"][1:]), {"fam": r["fam"], "shape": r["shape"], "chunks": r["chunks"], "comps": r["comps"], "whole": True}))
        rej = ctx.tlc_validate(spec, [rec], cfg)
        print("observed:", rec["obs"], "rejected:", rej)
        return bool(rej)
    case, exp, variant = c["case"], c["expected"], tuple(c["variant"])
    obs, got = run_dask(case, *variant)
    cl = judge(case, exp, obs, got)
    print("case:", case, "\nexpected:", exp, "\nobserved:", obs, got, "\nclause:", cl)
    return cl is not None
