"""C12 - tokens are deterministic and observably different values get different tokens.

specs/graph/Tokens.tla generates the abstract value universe, observable equality Eqv and the
registry state machine; TokensMC.tla model-checks the oracle (Eqv is an equivalence, strict class
refines class) and the registry (a rejection is a real conflict, every conflicting history has a
rejection) and exports every value with its class representatives.  The harness only CONSTRUCTS
each value (harness/tokvals.py), tokenises it with the real dask.tokenize on every route (same
object twice, rebuilt from the description, deep copy, pickle round trip) in this process and in two
fresh interpreters with other hash seeds, interns tokens to small integers and records one
observation per (interpreter, route).  TLC runs the recorded observations through the registry
(TokensTrace.tla): a rejected observation is a determinism or a distinctness violation."""
from __future__ import annotations

import json
import os
import subprocess
import sys

from .. import tokvals as TV
from ..core import TLA, MachineryError
from ..par import pmap

META = {
    "title": "Tokens are deterministic and distinct values get distinct tokens",
    "design_ref": "DESIGN.md §4.2 C12",
    "technique": "TLA+ registry state machine over a TLA+-generated value universe with structural observable equality; "
                 "TLC enumerates the universe and validates the observations recorded from dask.tokenize",
    "level_text": "TLC generates ~1.9k (quick) / ~5.1k (thorough) abstract values: scalars, containers to depth 2 (dict keys / set "
                  "members that collide under str), self-referential containers, ndarrays [dtype, shape, layout in C/F/step-2/"
                  "negative-stride/broadcast/non-contiguous view, cells] whose memory images coincide, memmaps, object arrays "
                  "whose '-'-joins coincide, pandas Index/RangeIndex/MultiIndex/Categorical/extension arrays/Series/DataFrame "
                  "(several block structures), dataclasses, partials, functions, lambdas - with their equivalence classes. Each is "
                  "built and tokenised on 5 routes in 3 interpreters (hash seeds 0/1/2); TLC decides every observation against the "
                  "registry (token a function of the strict class: per interpreter, and across interpreters for plain data; class a "
                  "function of the token).",
    "level_note": "Trusted: TLC; the constructor harness/tokvals.build (guarded: every built object is read back and compared "
                  "with its description; memory layouts are checked from flags/strides); Eqv (guarded against the libraries' own "
                  "equality on every class, every reported pair and a sample of unequal pairs). Distinctness is decided on the "
                  "enumerated universe only; md5 is assumed collision-free; layout-only pairs are don't-cares.",
}

HOWS = ["same", "again", "rebuilt", "deepcopy", "pickle"]
SEEDS = {1: "1", 2: "2"}
ALLFAMS = ["scalars", "seqs1", "sets1", "dicts1", "seqs2", "dicts2", "recs", "nds", "mms", "oas", "indexes", "series",
           "mis", "cats", "eas", "dfs", "dcs", "pars", "fns"]


# ---------------------------------------------------------------- universe
def universe_job(ctx, big, fams, label):
    """-> callable running TLC (the model files are written here, in the calling thread)."""
    consts = {"Big": bool(big), "Fams": TLA("{%s}" % ", ".join('"%s"' % f for f in fams)),
              "NDet": 0, "NTok": 0, "NProc": 0, "MaxLen": 0}
    spec, cfg = ctx.model(ctx.spec("graph", "TokensMC.tla"), consts, init="UInit", next_="UNext",
                          invariants=["EqvReflexive", "EqvOK", "SigRespected", "HasTwins"])

    def go():
        cases, _ = ctx.tlc_cases(spec, cfg, label=label, timeout=3000)
        cases.sort(key=lambda c: json.dumps(c["v"], sort_keys=True))
        return cases
    return go


def enumerate_universe(ctx, big, fams, label):
    return universe_job(ctx, big, fams, label)()


# kinds never span two groups, so the class representatives chosen in separate TLC runs are consistent
GROUPS = [["scalars", "seqs1", "seqs2", "recs", "dcs", "pars", "fns"],
          ["sets1", "dicts1", "dicts2", "oas", "mms", "eas", "mis", "cats"],
          ["nds", "indexes", "series", "dfs"]]


def in_parallel(jobs):
    """Run blocking callables (TLC subprocesses) side by side; every thread has ended before this returns,
    so later forks start from a single-threaded process."""
    import threading
    out, err = [None] * len(jobs), [None] * len(jobs)

    def work(i):
        try:
            out[i] = jobs[i]()
        except BaseException as ex:  # noqa: BLE001 - re-raised in the caller
            err[i] = ex
    ths = [threading.Thread(target=work, args=(i,)) for i in range(len(jobs))]
    for t in ths:
        t.start()
    for t in ths:
        t.join()
    for e in err:
        if e is not None:
            raise e
    return out


def enumerate_parallel(ctx, big, extra_jobs=()):
    jobs = [universe_job(ctx, big, g, "design(Eqv)+universe:%d" % i) for i, g in enumerate(GROUPS)]
    res = in_parallel(jobs + list(extra_jobs))
    cases, kinds_seen = [], {}
    for i, part in enumerate(res[:len(GROUPS)]):
        for c in part:
            if kinds_seen.setdefault(c["v"]["k"], i) != i:
                raise MachineryError("kind %s is generated by two family groups" % c["v"]["k"])
        cases += part
    cases.sort(key=lambda c: json.dumps(c["v"], sort_keys=True))
    return cases


def intern_classes(cases):
    """Class ids: the syntactic identity of the representative TLC chose (no equality decision here)."""
    cid, did = {}, {}
    for c in cases:
        c["cls"] = cid.setdefault(json.dumps(c["c"], sort_keys=True), len(cid) + 1)
        c["det"] = did.setdefault(json.dumps(c["d"], sort_keys=True), len(did) + 1)
    return len(cid), len(did)


# ---------------------------------------------------------------- guards (machinery, never verdicts)
def layout_ok(d, o):
    if d["k"] != "nd" or len(d["cells"]) < 2:
        return True
    lay, it = d["lay"], o.itemsize
    multi = sum(1 for s in o.shape if s > 1) >= 2
    if lay == "C":
        return o.flags.c_contiguous
    if lay == "F":
        return o.flags.f_contiguous and (not multi or not o.flags.c_contiguous)
    if lay == "S2":
        return o.strides[-1] == 2 * it
    if lay == "NEG":
        return o.strides[0] < 0
    if lay == "BC":
        return o.strides[0] == 0
    if lay == "TV":
        return not o.flags.c_contiguous and not o.flags.f_contiguous and o.strides[0] == 2 * it
    return False


def _guard_build(c):
    d = c["v"]
    try:
        o = TV.build(d)
        if TV.canon_text(TV.describe(o)) != TV.canon_text(d):
            return "constructor guard: %s reads back as %s" % (json.dumps(d), json.dumps(TV.describe(o)))
        if not layout_ok(d, o):
            return "layout guard: %s built with strides %r flags C=%s F=%s" % (json.dumps(d), o.strides, o.flags.c_contiguous, o.flags.f_contiguous)
        # the class representative chosen by TLC must be equal to the value for the libraries too
        if c["c"] != d and not TV.py_equal(o, TV.build(c["c"])):
            return "Eqv guard: TLA+ puts %s in the class of %s but Python finds them different" % (json.dumps(d), json.dumps(c["c"]))
    except Exception as ex:  # noqa: BLE001
        return "constructor guard: %s: %s: %s" % (json.dumps(d), type(ex).__name__, ex)
    return None


def _guard_unequal(pair):
    a, b = pair
    try:
        if TV.py_equal(TV.build(a), TV.build(b)):
            return "Eqv guard: TLA+ separates %s and %s but Python finds them equal" % (json.dumps(a), json.dumps(b))
    except Exception as ex:  # noqa: BLE001
        return "Eqv guard: %s: %s" % (type(ex).__name__, ex)
    return None


def run_guards(ctx, cases, rng, nsample):
    for msg in pmap(_guard_build, cases, chunk=100):
        if msg:
            raise MachineryError(msg)
    bykind = {}
    for c in cases:
        bykind.setdefault(c["v"]["k"], []).append(c)
    pairs = []
    kinds = sorted(k for k, v in bykind.items() if len(v) > 1)
    while len(pairs) < nsample and kinds:
        grp = bykind[rng.choice(kinds)]
        a, b = rng.sample(grp, 2)
        if a["cls"] != b["cls"]:
            pairs.append((a["v"], b["v"]))
    for msg in pmap(_guard_unequal, pairs, chunk=100):
        if msg:
            raise MachineryError(msg)


# ---------------------------------------------------------------- observation
def _obs(item):
    return TV.observe_one(*item)


def start_fresh(ctx, items, proc, mutant=None):
    inp = os.path.join(ctx.scratch, "tok-in-%d-%d.json" % (proc, len(os.listdir(ctx.scratch))))
    outp = inp.replace("tok-in", "tok-out")
    with open(inp, "w") as fh:
        json.dump(items, fh)
    env = dict(os.environ, PYTHONHASHSEED=SEEDS[proc], VERIF_TOK_TMP=os.path.join(ctx.scratch, "mm%d" % proc))
    os.makedirs(env["VERIF_TOK_TMP"], exist_ok=True)
    env.pop("VERIF_TOK_MUTANT", None)
    if mutant:
        env["VERIF_TOK_MUTANT"] = mutant
    p = subprocess.Popen([sys.executable, "-c", "import sys; from harness.tokvals import main; main(sys.argv)", inp, outp],
                         env=env, stdout=subprocess.PIPE, stderr=subprocess.STDOUT, text=True)
    return p, outp


def finish_fresh(p, outp):
    out, _ = p.communicate(timeout=3000)
    if p.returncode != 0 or not os.path.exists(outp):
        raise MachineryError("fresh-interpreter worker failed (rc=%s):\n%s" % (p.returncode, out[-3000:]))
    with open(outp) as fh:
        return json.load(fh)


def observe_all(ctx, cases, procs=(0, 1, 2), mutant=None):
    """-> {proc: [ {how: raw token} per case ]}"""
    items = [(c["v"], c["hows"]) for c in cases]
    os.environ["VERIF_TOK_TMP"] = os.path.join(ctx.scratch, "mm0")
    os.makedirs(os.environ["VERIF_TOK_TMP"], exist_ok=True)
    nsplit = 1 if len(items) < 1500 else 2
    fresh = []
    for proc in procs:
        if proc == 0:
            continue
        for part in range(nsplit):
            fresh.append((proc, part, start_fresh(ctx, items[part::nsplit], proc, mutant)))
    res = {}
    if 0 in procs:
        res[0] = pmap(_obs, items, chunk=50)
    for proc, part, (p, outp) in fresh:
        got = finish_fresh(p, outp)
        res.setdefault(proc, [None] * len(items))
        res[proc][part::nsplit] = got
    for proc, lst in res.items():
        for c, o in zip(cases, lst):
            if o is None or "error" in o:
                raise MachineryError("could not build / copy %s in interpreter %d: %s" % (json.dumps(c["v"]), proc, o and o["error"]))
    return res


def make_events(cases, res, base=0, tag=""):
    """One observation per (interpreter, value, route), identical repeats dropped (same interpreter, strict class,
    class and token); tokens interned by sorted raw text.  base offsets all ids (several runs in one trace)."""
    raw = sorted({t for lst in res.values() for o in lst for t in o.values() if not t.startswith("!")})
    tid = {t: base + i + 1 for i, t in enumerate(raw)}
    events, info, seen = [], {}, set()
    for proc in sorted(res):
        for idx, (c, o) in enumerate(zip(cases, res[proc])):
            for how in HOWS:
                if how not in o:
                    continue
                t = o[how]
                raised = t.startswith("!")
                key = (proc, c["det"], c["cls"], t)
                if key in seen:
                    continue
                seen.add(key)
                eid = "%se%d" % (tag, len(events))
                events.append({"id": eid, "det": base + c["det"], "cls": base + c["cls"], "plain": bool(c["plain"]),
                               "tok": 0 if raised else tid[t], "proc": proc, "how": how, "raised": raised})
                info[eid] = {"idx": idx, "proc": proc, "how": how, "raw": t}
    return events, info


def parse_clauses(text):
    return [x for x in text.strip("{} ").replace('"', "").split(", ") if x]


# ---------------------------------------------------------------- classification of a violation
def _join(xs):
    return "-".join(x.get("s", "?") for x in xs)


def _all_strs(d):
    """Every sequence of strings inside a pandas record (values, categories, index, columns), in a fixed order."""
    out = []
    if isinstance(d, dict):
        if d.get("k") == "cat":                      # the values of a Categorical are codes into cats
            return [list(d["cats"])]
        for f in sorted(d):
            if f in ("strs", "cats") and d.get("k") != "mi":
                out.append(list(d[f]))
            elif f in ("ix", "cols"):
                out += _all_strs(d[f])
    elif isinstance(d, list):
        for x in d:
            out += _all_strs(x)
    return out


def classify_pair(a, b):
    """Input class of a distinctness violation: the kinds and WHICH part of the description differs
    (never the concrete cells)."""
    ka, kb = a["k"], b["k"]
    if ka != kb:
        return "Distinct:%s" % "~".join(sorted([ka, kb]))
    k = ka
    if k == "nd":
        diff = [f for f in ("dt", "shape", "cells") if a[f] != b[f]]
        lay = "same-layout" if a["lay"] == b["lay"] else "cross-layout"
        return "Distinct:nd:%s:%s" % ("+".join(diff), lay)
    if k == "mm":
        diff = [f for f in ("dt", "shape", "cells") if a[f] != b[f]]
        return "Distinct:mm:%s" % ("cells" if "cells" in diff else "dtype-or-shape")
    if k == "oa":
        if a["shape"] == b["shape"] and all(x["k"] == "str" for x in a["xs"] + b["xs"]) and _join(a["xs"]) == _join(b["xs"]):
            return "Distinct:object-strings:equal-join"
        return "Distinct:oa:other"
    if k in ("ix", "ser", "ea", "df", "cat"):
        sa, sb = _all_strs(a), _all_strs(b)
        if sa != sb and len(sa) == len(sb) and ["-".join(x) for x in sa] == ["-".join(x) for x in sb]:
            return "Distinct:object-strings:equal-join"       # the same call site as for bare object arrays
        if k == "df" and [c["nm"] for c in a["cols"]] == [c["nm"] for c in b["cols"]] and a["ix"] == b["ix"]:
            key = lambda c: json.dumps({f: v for f, v in c.items() if f != "nm"}, sort_keys=True)
            if sorted(map(key, a["cols"])) == sorted(map(key, b["cols"])):
                return "Distinct:df:columns-permuted"
        diff = sorted(f for f in set(a) | set(b) if f != "lay" and a.get(f) != b.get(f))
        if k == "df" and diff == ["cols"] and len(a["cols"]) == len(b["cols"]):
            diff = ["cols." + "+".join(sorted({f for ca, cb in zip(a["cols"], b["cols"]) for f in set(ca) | set(cb) if ca.get(f) != cb.get(f)}))]
        if k == "ser" and diff == ["ix"] and a["ix"]["k"] == b["ix"]["k"]:
            diff = ["ix." + "+".join(sorted(f for f in set(a["ix"]) | set(b["ix"]) if a["ix"].get(f) != b["ix"].get(f)))]
        return "Distinct:%s:%s" % (k, "+".join(diff))
    return "Distinct:%s" % k


def _order_site(a, b):
    """Kind of the innermost container whose construction order differs between two records of one class."""
    if a == b or not isinstance(a, dict) or not isinstance(b, dict) or a.get("k") != b.get("k"):
        return None
    for f in ("xs", "zs", "kv"):
        if f in a and a[f] != b[f] and len(a[f]) == len(b[f]):
            if a["k"] in ("set", "frozenset", "dict", "par") and f != "zs" and [TV.canon(x) for x in a[f]] != [TV.canon(x) for x in b[f]]:
                return a["k"]
            for x, y in zip(a[f], b[f]):
                xs, ys = (x, y) if isinstance(x, dict) else (x[1], y[1])
                kxs, kys = (None, None) if isinstance(x, dict) else (x[0], y[0])
                for p, q in ((kxs, kys), (xs, ys)):
                    r = _order_site(p, q) if p is not None else None
                    if r:
                        return r
    return None


def classify_det(clause, first, this):
    """Input class of a determinism violation.  The route is part of the signature only where it names the
    root cause (a copy that changes the memory layout / block structure); for unordered containers every route
    is the same root cause (iteration order leaks into the token)."""
    k = this["k"]
    if TV.canon(first) != TV.canon(this):
        raise MachineryError("determinism compared two different classes: %r %r" % (first, this))
    site = _order_site(first, this)
    pre = "DetAcrossInterpreters" if clause == "DetAcrossInterpreters" else "Det"
    if site and site not in ("frozenset", "set"):
        return "%s:%s:construction-order" % (pre, site)
    if site in ("frozenset", "set") or k in ("set", "frozenset") or (k in ("list", "tuple", "dict") and _has_kind(this, ("set", "frozenset"))):
        fz = site == "frozenset" or (site is None and _has_kind(this, ("frozenset",)))
        return "%s:%s" % (pre, "frozenset:iteration-order" if fz else "set:order-of-str-ties")
    if k == "nd":
        return "%s:nd:%s:%s" % (pre, this["lay"], clause.replace("Det_", ""))
    if k == "df":
        return "%s:df:block-structure:%s" % (pre, clause.replace("Det_", ""))
    return "%s:%s" % (clause, k)


def _has_kind(d, kinds):
    if isinstance(d, dict):
        return d.get("k") in kinds or any(_has_kind(v, kinds) for v in d.values())
    if isinstance(d, list):
        return any(_has_kind(v, kinds) for v in d)
    return False


def judge(ctx, cases, events, info, rejects, guard=True):
    """Turn TLC's rejections into violations (after the reference guard).  Returns the number reported."""
    byid = {e["id"]: e for e in events}
    first_tok, first_key, first_plain = {}, {}, {}
    for e in events:
        if e["raised"]:
            continue
        first_tok.setdefault(e["tok"], e["id"])
        first_key.setdefault((e["det"], e["proc"]), e["id"])
        if e["plain"]:
            first_plain.setdefault(e["det"], e["id"])
    n = 0
    for eid in sorted(rejects, key=lambda x: int(x.rsplit("e", 1)[1])):
        e, inf = byid[eid], info[eid]
        this = cases[inf["idx"]]["v"]
        for clause in [c for txt in rejects[eid] for c in parse_clauses(txt)]:
            if clause == "Raised":
                sig = "Raised:%s:%s" % (this["k"], inf["raw"].lstrip("!"))
                what = "tokenize raised %s on route %s" % (inf["raw"].lstrip("!"), inf["how"])
                rep = {"kind": "raised", "value": this, "how": inf["how"]}
            elif clause == "Distinct":
                other = cases[info[first_tok[e["tok"]]]["idx"]]
                if guard and TV.py_equal(TV.build(this), TV.build(other["v"])):
                    raise MachineryError("Eqv guard: TLA+ separates %r and %r, Python finds them equal" % (this, other["v"]))
                sig = classify_pair(other["v"], this)
                what = "observably different values share a token: %s vs %s" % (json.dumps(other["v"]), json.dumps(this))
                rep = {"kind": "distinct", "a": other["v"], "b": this, "how_b": inf["how"], "proc": inf["proc"]}
            else:
                fid = first_plain[e["det"]] if clause == "DetAcrossInterpreters" else first_key[(e["det"], e["proc"])]
                first = cases[info[fid]["idx"]]["v"]
                if guard and not TV.py_equal(TV.build(this), TV.build(first)):
                    raise MachineryError("Eqv guard: TLA+ equates %r and %r, Python finds them different" % (this, first))
                sig = classify_det(clause, first, this)
                what = ("equal values got different tokens: %s (interpreter %d, %s) vs %s (interpreter %d, %s)"
                        % (json.dumps(first), info[fid]["proc"], info[fid]["how"], json.dumps(this), inf["proc"], inf["how"]))
                rep = {"kind": "det", "clause": clause, "a": first, "how_a": info[fid]["how"], "proc_a": info[fid]["proc"],
                       "b": this, "how_b": inf["how"], "proc_b": inf["proc"]}
            if ctx.violation(sig, what, rep):
                n += 1
            else:
                n += 0
    return n


def check(ctx, cases, procs=(0, 1, 2), mutant=None, guard=True, count=True):
    """The whole code -> spec part on a list of enumerated cases; returns (events, rejects, reported)."""
    res = observe_all(ctx, cases, procs, mutant)
    events, info = make_events(cases, res)
    spec, cfg = ctx.model(ctx.spec("graph", "TokensTrace.tla"), {"Big": False, "Fams": TLA("{}")})
    rejects = ctx.tlc_validate(spec, events, cfg, timeout=3000)
    if count:
        for proc in sorted(res):
            for c, o in zip(cases, res[proc]):
                for how in o:
                    ctx.count((c["v"], proc, how), c["v"]["k"] not in ("none",))
    before = len(ctx.violations) + sum(ctx.known_hit.values())
    judge(ctx, cases, events, info, rejects, guard)
    return events, rejects, len(ctx.violations) + sum(ctx.known_hit.values()) - before


def design_job(ctx):
    consts = {"Big": False, "Fams": TLA("{}"), "NDet": 3, "NTok": 2, "NProc": 2, "MaxLen": ctx.pick(3, 4)}
    spec, cfg = ctx.model(ctx.spec("graph", "TokensMC.tla"), consts, init="RInit", next_="RNext",
                          invariants=["RejectionIsConflict", "ConflictIsRejected", "RegistryCoversSeen"])
    return lambda: ctx.tlc(spec, cfg, label="design: registry vs global definition", timeout=1800)


def run(ctx):
    if sorted(f for g in GROUPS for f in g) != sorted(ALLFAMS):
        raise MachineryError("family groups do not cover the universe")
    cases = enumerate_parallel(ctx, not ctx.quick, [design_job(ctx)])
    ncls, ndet = intern_classes(cases)
    run_guards(ctx, cases, ctx.rng, ctx.pick(1500, 6000))
    events, rejects, _ = check(ctx, cases)
    for c in cases[:: max(1, len(cases) // 5)][:5]:
        ctx.sample({"value": c["v"], "class": c["cls"], "strict_class": c["det"], "plain": c["plain"]})
    ctx.exhaustive = True
    ctx.rule = ("a case = one (abstract value, interpreter, route) tokenisation of a TLC-generated value; non-trivial = every value "
                "except None; distinct by (value, interpreter, route)")
    ctx.extra.update({"universe_values": len(cases), "classes": ncls, "strict_classes": ndet,
                      "observations_after_dedup": len(events), "rejected_observations": len(rejects)})
    ctx.assumptions = ["md5 is collision-free on the universe", "the libraries' equality agrees with Eqv (guarded on every class "
                       "and reported pair)", "hash seeds 0/1/2 stand for 'another hash seed'"]


# ---------------------------------------------------------------- replay
def replay(ctx, obj):
    c = obj["case"]
    tv = lambda d: TV._tok(TV.build(d))
    if c["kind"] == "raised":
        o = TV.observe_one(c["value"], HOWS)
        print(o)
        return any(t.startswith("!") for t in o.values())
    if c["kind"] == "distinct":
        ev = [{"id": "a", "det": 1, "cls": 1, "plain": False, "proc": 0, "how": "same", "raised": False, "raw": tv(c["a"])},
              {"id": "b", "det": 2, "cls": 2, "plain": False, "proc": 0, "how": c["how_b"], "raised": False,
               "raw": TV.observe_one(c["b"], HOWS)[c["how_b"]]}]
    else:
        # (fresh-interpreter observations are re-made in this interpreter with the recorded hash seed only when it is 0)
        ra = TV.observe_one(c["a"], HOWS)[c["how_a"]]
        rb = TV.observe_one(c["b"], HOWS)[c["how_b"]]
        if c["proc_a"] != 0 or c["proc_b"] != 0:
            it = [(c["a"], HOWS), (c["b"], HOWS)]
            outs = {}
            for proc in {c["proc_a"], c["proc_b"]} - {0}:
                outs[proc] = finish_fresh(*start_fresh(ctx, it, proc))
            if c["proc_a"] != 0:
                ra = outs[c["proc_a"]][0][c["how_a"]]
            if c["proc_b"] != 0:
                rb = outs[c["proc_b"]][1][c["how_b"]]
        ev = [{"id": "a", "det": 1, "cls": 1, "plain": c["clause"] == "DetAcrossInterpreters", "proc": c["proc_a"], "how": c["how_a"], "raised": False, "raw": ra},
              {"id": "b", "det": 1, "cls": 1, "plain": c["clause"] == "DetAcrossInterpreters", "proc": c["proc_b"], "how": c["how_b"], "raised": False, "raw": rb}]
    toks = sorted({e["raw"] for e in ev})
    for e in ev:
        e["tok"] = toks.index(e.pop("raw")) + 1
    spec, cfg = ctx.model(ctx.spec("graph", "TokensTrace.tla"), {"Big": False, "Fams": TLA("{}")})
    rej = ctx.tlc_validate(spec, ev, cfg)
    print("observations:", ev, "\nrejected:", rej)
    return bool(rej)


# ---------------------------------------------------------------- self-test
def _mut_seq_drops_type():
    import dask.tokenize as TK
    TK.normalize_token.register((tuple, list), lambda seq: ("seq", TK._normalize_seq_func(seq)))


def _mut_array_drops_dtype():
    import numpy as np
    import dask.tokenize as TK
    orig = TK.normalize_token.dispatch(np.ndarray)
    TK.normalize_token.register(np.ndarray, lambda x: (lambda r: (r[0], r[2]) if isinstance(r, tuple) and len(r) == 3 else r)(orig(x)))


def _mut_series_drops_name():
    import pandas as pd
    import dask.tokenize as TK
    orig = TK.normalize_token.dispatch(pd.Series)
    TK.normalize_token.register(pd.Series, lambda s: orig(s)[1:])


def _mut_dict_sorted_by_hash():
    import dask.tokenize as TK

    def normalize_dict(d):
        return "dict", TK._normalize_seq_func(sorted(d.items(), key=lambda kv: hash(kv[0])))
    TK.normalize_token.register(dict, normalize_dict)


def _mut_partial_drops_keywords():
    import functools
    import dask.tokenize as TK
    TK.normalize_token.register(functools.partial, lambda fn: TK._normalize_seq_func((fn.func, fn.args)))


MUTANTS = {   # name -> (installer, families needed, clause prefix expected, signature fragment expected)
    "seq-drops-type-name": (_mut_seq_drops_type, "Distinct:list~tuple"),
    "ndarray-drops-dtype": (_mut_array_drops_dtype, "Distinct:nd:dt:"),
    "series-drops-name": (_mut_series_drops_name, "Distinct:ser:nm"),
    "dict-sorted-by-hash": (_mut_dict_sorted_by_hash, "DetAcrossInterpreters:dict"),
    "partial-drops-keywords": (_mut_partial_drops_keywords, "Distinct:par"),
}


def _selftest_child(args):
    """Runs in a forked child: installs the mutant there (the parent stays clean) and observes."""
    name, items = args
    if name:
        MUTANTS[name][0]()
    return [TV.observe_one(d, h) for d, h in items]


def selftest(ctx):
    ok = True
    cases = enumerate_universe(ctx, False, ["scalars", "seqs1", "dicts1", "nds", "series", "pars"], "selftest universe")
    intern_classes(cases)
    keep = cases
    items = [(c["v"], c["hows"]) for c in keep]
    os.environ["VERIF_TOK_TMP"] = os.path.join(ctx.scratch, "mm0")
    os.makedirs(os.environ["VERIF_TOK_TMP"], exist_ok=True)
    names = [None] + list(MUTANTS)
    fresh = {nm: start_fresh(ctx, items, 1, nm) for nm in names if nm in (None, "dict-sorted-by-hash")}
    inproc = pmap(_selftest_child, [(nm, items) for nm in names], procs=len(names), chunk=1, always=True)
    all_events, infos, tagof = [], {}, {}
    for j, (nm, obs) in enumerate(zip(names, inproc)):
        res = {0: obs}
        if nm in fresh:
            res[1] = finish_fresh(*fresh[nm])
        for lst in res.values():
            for o in lst:
                if "error" in o:
                    raise MachineryError("selftest: %s" % o["error"])
        tag = "m%d_" % j
        ev, info = make_events(keep, res, base=j * 100000, tag=tag)
        all_events += ev
        infos[tag] = (ev, info)
        tagof[tag] = nm
    spec, cfg = ctx.model(ctx.spec("graph", "TokensTrace.tla"), {"Big": False, "Fams": TLA("{}")})
    rejects = ctx.tlc_validate(spec, all_events, cfg, timeout=600)
    known_baseline = None
    for tag, (ev, info) in infos.items():
        nm = tagof[tag]
        rj = {k: v for k, v in rejects.items() if k.startswith(tag)}
        sigs = set()
        byid = {e["id"]: e for e in ev}
        sub = _Collect()
        judge(sub, keep, ev, info, rj, guard=False)
        sigs = set(sub.sigs)
        if nm is None:
            known_baseline = sigs
            print("unmutated tree on the self-test slice: %d observations, signatures %s" % (len(ev), sorted(sigs)))
            continue
        want = MUTANTS[nm][1]
        new = sorted(s for s in sigs - known_baseline)
        hit = any(s.startswith(want) for s in new)
        print("mutant %s: %s (expected %s*; new signatures: %s)" % (nm, "DETECTED" if hit else "MISSED", want, new[:4]))
        ok &= hit
    # (ii) a corrupted recorded field is rejected, the untouched record accepted
    tag0 = [t for t, n in tagof.items() if n is None][0]
    ev0 = [dict(e) for e in infos[tag0][0] if e["proc"] == 0 and e["id"] not in rejects][:60]
    evg = [dict(e, id="g" + e["id"], det=e["det"] + 400000, cls=e["cls"] + 400000, tok=e["tok"] + 400000) for e in ev0]
    evb = [dict(e, id="b" + e["id"], det=e["det"] + 800000, cls=e["cls"] + 800000, tok=e["tok"] + 800000) for e in ev0]
    evb[-1]["tok"] = evb[0]["tok"]
    both = ctx.tlc_validate(spec, evg + evb, cfg)            # disjoint id spaces: one TLC run decides both copies
    good = [k for k in both if k.startswith("g")]
    bad = [k for k in both if k.startswith("b")]
    print("untouched observations: %s; observation with a corrupted token field: %s"
          % ("accepted" if not good else "REJECTED", "REJECTED" if bad else "accepted"))
    ok &= (not good) and bool(bad)
    return 0 if ok else 1


class _Collect:
    """Stands in for ctx in judge(): collects signatures without touching the run's verdicts."""

    def __init__(self):
        self.sigs = []

    def violation(self, sig, what, rep=None):
        self.sigs.append(sig)
        if os.environ.get("VERIF_DEBUG") and "same-layout" in sig:
            print(sig, what)
        return True
