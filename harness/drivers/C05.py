"""C05 - scheduler callbacks fire in protocol order and contexts nest like a stack.

specs/sched/Callbacks.tla is the state machine (register / unregister / enter / exit / run);
TLC explores every history up to a bound, checks the scoping invariants on the
implementation-shaped transcription and exports every maximal history; each is replayed on
real dask Callback objects (Callback.active compared after every step; for run steps the
invocations each callback logged are checked against the firing protocol).  Longer seeded
histories recorded from the real objects are decided by TLC (CallbacksTrace.tla)."""
from __future__ import annotations

import random

from ..core import TLA, MachineryError
from ..par import pmap

META = {
    "title": "Scheduler callbacks fire in protocol order and contexts nest like a stack",
    "design_ref": "DESIGN.md §4.1 C05",
    "technique": "TLA+ state machine of callback scoping; TLC explores all bounded histories; histories replayed on real Callback "
                 "objects; recorded histories validated by TLC",
    "level_text": "All histories of register/unregister/enter/exit/run up to length 5 (thorough 6) over two callback objects (the same "
                  "object may be re-entered), nesting depth 3, runs on the sync and threaded schedulers with and without a failing task "
                  "and with a scheduler call nested inside a task: TLC checks ActiveMatches/ExitKeepsOuter on the transcription and "
                  "every history is replayed on real objects; random histories of length 12-30 are validated by TLC.",
    "level_note": "Trusted: TLC; the mapping of Callback.active tuples to object ids. Histories the statement does not speak about "
                  "(unregister of a callback a live context holds; register from inside a context holding it) are not generated.",
}

NTASKS = 3


class Rec:
    """A callback object that logs its own invocations."""

    def __init__(self, cid):
        from dask.callbacks import Callback
        self.cid = cid
        self.log = []
        self.cb = Callback(start=self.start, pretask=self.pre, posttask=self.post, finish=self.finish)

    def start(self, dsk):
        self.log.append({"e": "start", "k": "", "failed": False})

    def pre(self, key, dsk, state):
        self.log.append({"e": "pre", "k": str(key), "failed": False})

    def post(self, key, res, dsk, state, wid):
        self.log.append({"e": "post", "k": str(key), "failed": False})

    def finish(self, dsk, state, failed):
        self.log.append({"e": "finish", "k": "", "failed": bool(failed)})


def _inner(x):
    import dask.local
    # a scheduler call made from inside a task: must see no global callbacks
    return dask.local.get_sync({"in1": (lambda: 1,), "in2": (lambda a: a + x, "in1")}, "in2")


def _boom(*a):
    raise RuntimeError("task failure")


def run_graph(fail, threaded):
    import dask.local
    import dask.threaded
    g = {"t1": (lambda: 1,), "t2": (_inner, "t1"), "t3": ((_boom if fail else (lambda a: a + 1)), "t2")}
    raised = False
    try:
        if threaded:
            dask.threaded.get(g, "t3", num_workers=2)
        else:
            dask.local.get_sync(g, "t3")
    except RuntimeError:
        raised = True
    executed = ["t1", "t2"] + ([] if fail else ["t3"])
    return raised, executed


def observed_active(recs):
    from dask.callbacks import Callback
    ids = {r.cb._callback: r.cid for r in recs.values()}
    return sorted(ids.get(t, 99) for t in Callback.active)


def execute_history(hist, seed=0):
    """Run a history (list of {op, cbs, fail}) on fresh real objects; return the observed steps."""
    from dask.callbacks import Callback, add_callbacks
    saved = set(Callback.active)
    Callback.active = set()
    recs = {c: Rec(c) for c in (1, 2, 3)}
    stack = []
    out = []
    err = ""
    try:
        for i, st in enumerate(hist):
            op, cbs = st["op"], sorted(st["cbs"])
            o = {"op": op, "cbs": cbs, "fail": bool(st["fail"]), "logs": [], "executed": [], "raised": False,
                 "pos": int(st.get("pos", 0))}
            for r in recs.values():
                r.log = []
            try:
                if op == "register":
                    recs[cbs[0]].cb.register()
                elif op == "unregister":
                    recs[cbs[0]].cb.unregister()
                elif op == "enter":
                    if len(cbs) == 1 and (i + seed) % 2 == 0:
                        cm = recs[cbs[0]].cb              # `with cb:` (the same object may be entered again)
                    else:
                        cm = add_callbacks(*[recs[c].cb for c in cbs])
                    cm.__enter__()
                    stack.append(cm)
                elif op == "exit":
                    stack.pop().__exit__(None, None, None)
                elif op == "exitat":
                    stack.pop(st["pos"] - 1).__exit__(None, None, None)
                elif op == "run":
                    raised, executed = run_graph(st["fail"], threaded=(i + seed) % 3 == 0)
                    o["raised"], o["executed"] = raised, executed
                    o["logs"] = [{"cb": r.cid, "log": list(r.log)} for r in recs.values() if r.log]
            except Exception as ex:  # noqa: BLE001 - an exception from dask is an observation
                err = "%s at step %d (%s): %s" % (type(ex).__name__, i, op, ex)
                o["obs_active"] = [98]
                out.append(o)
                break
            o["obs_active"] = observed_active(recs)
            out.append(o)
    finally:
        Callback.active = saved
    return out, err


def judge_replay(hist, steps, err):
    """Compare with the history exported by TLC.  Returns clause or None."""
    if err:
        return "Raised:" + err.split(" ")[0]
    for h, o in zip(hist, steps):
        if sorted(h["active"]) != o["obs_active"]:
            return "ActiveAfter_" + h["op"]
        if h["op"] == "run":
            fired = sorted(lg["cb"] for lg in o["logs"])
            if fired != sorted(h["cbs"]):
                return "FiredSet"
            if o["raised"] != bool(h["fail"]):
                return "FailureSurfaced"
            for lg in o["logs"]:
                if not protocol_ok(lg["log"], o["executed"], bool(h["fail"])):
                    return "Protocol"
    return None


def protocol_ok(log, executed, failed):
    if len(log) < 2 or log[0]["e"] != "start" or log[-1]["e"] != "finish" or log[-1]["failed"] != failed:
        return False
    mid = log[1:-1]
    if any(e["e"] not in ("pre", "post") for e in mid):
        return False
    for k in executed:
        pre = [i for i, e in enumerate(mid) if e["e"] == "pre" and e["k"] == k]
        post = [i for i, e in enumerate(mid) if e["e"] == "post" and e["k"] == k]
        if len(pre) != 1 or len(post) != 1 or pre[0] > post[0]:
            return False
    return all(e["k"] in executed for e in mid if e["e"] == "post")


def _work(item):
    hist, seed = item
    steps, err = execute_history(hist, seed)
    return judge_replay(hist, steps, err), (steps if err or judge_replay(hist, steps, err) else None), err


def classify(hist, clause):
    ops = [h["op"] for h in hist]
    feats = []
    if "register" in ops and "exit" in ops:
        feats.append("register+context")
    if ops.count("enter") >= 2:
        feats.append("nested")
    return "%s:%s" % (clause, "+".join(feats) or "flat")


def random_history(rng, n):
    reg, ctx, hist = set(), [], []
    for _ in range(n):
        inctx = set().union(*ctx) if ctx else set()
        choices = ["run", "run"]
        free = [c for c in (1, 2, 3) if c not in reg and c not in inctx]
        if free:
            choices.append("register")
        unr = [c for c in reg if c not in inctx]
        if unr:
            choices.append("unregister")
        if len(ctx) < 4:
            choices += ["enter", "enter"]
        if ctx:
            choices += ["exit", "exit"]
        # leaving a context that is not the innermost one - only where that is unambiguous (the
        # context shares no callback with another live context or with a registered callback)
        lonely = [i for i in range(len(ctx) - 1)
                  if not (ctx[i] & (reg | set().union(*[c for j, c in enumerate(ctx) if j != i])))]
        if lonely:
            choices.append("exitat")
        op = rng.choice(choices)
        st = {"op": op, "cbs": [], "fail": False, "pos": 0}
        if op == "exitat":
            i = rng.choice(lonely)
            st["cbs"] = sorted(ctx.pop(i))
            st["pos"] = i + 1
            hist.append(st)
            continue
        if op == "register":
            c = rng.choice(free); reg.add(c); st["cbs"] = [c]
        elif op == "unregister":
            c = rng.choice(unr); reg.discard(c); st["cbs"] = [c]
        elif op == "enter":
            cs = rng.sample([1, 2, 3], rng.randint(1, 2)); ctx.append(set(cs)); st["cbs"] = sorted(cs)
        elif op == "exit":
            st["cbs"] = sorted(ctx.pop())
        else:
            st["fail"] = rng.random() < 0.3
        hist.append(st)
    return hist


def _record(item):
    i, hist = item
    steps, err = execute_history(hist, i)
    return {"id": "h%d" % i, "steps": steps, "err": err}


def core(ctx, maxlen, nrandom, rng):
    """The whole check; returns number of violations found (used by run and selftest)."""
    before = len(ctx.violations)
    consts = {"CBs": TLA("{1, 2}"), "MaxLen": maxlen, "MaxDepth": 3}
    # design: the transcription of the repaired __exit__ satisfies the scoping clauses ...
    spec, cfg = ctx.model(ctx.spec("sched", "CallbacksMC.tla"), dict(consts, Impl="added"), init="MCInit", next_="MCNext",
                          invariants=["ActiveMatches", "ExitKeepsOuter"])
    cases, _ = ctx.tlc_cases(spec, cfg, label="design+histories(Impl=added)", timeout=900)
    # ... and TLC finds the counterexample in the transcription of the code as originally found
    spec2, cfg2 = ctx.model(ctx.spec("sched", "CallbacksMC.tla"), dict(consts, Impl="discard", MaxLen=min(maxlen, 4)),
                            init="MCInit", next_="MCNext", invariants=["ExitKeepsOuter"])
    r2 = ctx.tlc(spec2, cfg2, allow_violation=True, label="design(Impl=discard) must fail", count=False)
    if "ExitKeepsOuter" not in r2.violated:
        raise MachineryError("vacuity: TLC no longer finds the discard-on-exit counterexample")
    hists = [c["hist"] for c in cases]
    cap = ctx.pick(3000, 60000)
    if len(hists) > cap:
        hists = rng.sample(hists, cap)
        ctx.exhaustive = False
    else:
        ctx.exhaustive = True
    results = pmap(_work, [(h, i) for i, h in enumerate(hists)], chunk=100)
    for h, (cl, steps, err) in zip(hists, results):
        ops = [s["op"] for s in h]
        ctx.count(("hist", h), "run" in ops and ("enter" in ops or "register" in ops))
        if cl:
            ctx.violation(classify(h, cl.split(":")[0]), "replay of a TLC history on real Callback objects: %s %s" % (cl, err),
                          {"kind": "history", "hist": h, "observed": steps, "err": err})
    ctx.traces += len(hists)
    if hists:
        ctx.sample({"history": [(s["op"], s["cbs"], s["fail"]) for s in hists[len(hists) // 2]]})
    # code -> spec
    rh = [random_history(rng, rng.randint(12, 30)) for _ in range(nrandom)]
    recs = pmap(_record, list(enumerate(rh)), chunk=20)
    good = []
    for r, h in zip(recs, rh):
        ctx.count(("rnd", h), True)
        if r["err"]:
            ctx.violation(classify(h, "Raised"), "dask raised during a recorded history: " + r["err"], {"kind": "recorded", "hist": h})
        else:
            good.append(r)
    spec3, cfg3 = ctx.model(ctx.spec("sched", "CallbacksTrace.tla"), {})
    rej = ctx.tlc_validate(spec3, [{"id": r["id"], "steps": r["steps"]} for r in good], cfg3, timeout=900)
    byid = {r["id"]: h for r, h in zip(recs, rh)}
    for rid, clauses in rej.items():
        cl = clauses[0].strip('{} "').split('"')[0].split(",")[0]
        ctx.violation(classify(byid[rid], cl), "TLC rejects a recorded history: %s" % clauses[0], {"kind": "recorded", "hist": byid[rid]})
    return len(ctx.violations) - before


def run(ctx):
    core(ctx, ctx.pick(5, 6), ctx.pick(300, 3000), ctx.rng)
    ctx.rule = ("a case = one history of register/unregister/enter/exit/run steps (TLC-enumerated, length = bound; or seeded random, "
                "length 12-30) executed on real Callback objects; non-trivial = contains a run and an activation")
    ctx.assumptions = ["contexts are exited in LIFO order"]


def replay(ctx, obj):
    h = obj["case"]["hist"]
    steps, err = execute_history(h, 0)
    if obj["case"]["kind"] == "history":
        cl = judge_replay(h, steps, err)
        print(cl, err)
        return cl is not None
    spec3, cfg3 = ctx.model(ctx.spec("sched", "CallbacksTrace.tla"), {})
    rej = ctx.tlc_validate(spec3, [{"id": "h0", "steps": steps}], cfg3) if not err else {"h0": [err]}
    print(rej)
    return bool(rej)


def selftest(ctx):
    import dask.callbacks as CB
    import dask.local as L

    from ..mutate import source_mutant
    ok = True
    rng = random.Random(3)
    muts = [
        (CB.add_callbacks, "__exit__", None, "exit clears everything"),
    ]
    # mutant 1: __exit__ clears the whole active set
    orig = CB.add_callbacks.__exit__
    CB.add_callbacks.__exit__ = lambda self, *a: CB.Callback.active.clear()
    try:
        n = core(ctx, 4, 40, rng)
    finally:
        CB.add_callbacks.__exit__ = orig
    print("mutant exit-clears-active: %s (%d)" % ("DETECTED" if n else "MISSED", n)); ok &= n > 0
    # mutant 2: finish callbacks only on success
    with source_mutant(L, "get_async", "                if finish:\n                    finish(dsk, state, not succeeded)",
                       "                if finish and succeeded:\n                    finish(dsk, state, not succeeded)"):
        n = core(ctx, 4, 40, rng)
    print("mutant finish-only-on-success: %s (%d)" % ("DETECTED" if n else "MISSED", n)); ok &= n > 0
    # mutant 3: the global callbacks are not restored after a failing run
    import contextlib

    @contextlib.contextmanager
    def bad_local_callbacks(callbacks=None):
        global_callbacks = callbacks is None
        if global_callbacks:
            callbacks, CB.Callback.active = CB.Callback.active, set()
        yield callbacks or ()
        if global_callbacks:
            CB.Callback.active = callbacks
    o1, o2 = CB.local_callbacks, L.local_callbacks
    CB.local_callbacks = L.local_callbacks = bad_local_callbacks
    try:
        n = core(ctx, 4, 40, rng)
    finally:
        CB.local_callbacks, L.local_callbacks = o1, o2
    print("mutant no-restore-on-failure: %s (%d)" % ("DETECTED" if n else "MISSED", n)); ok &= n > 0
    # binding: a corrupted record must be rejected, the untouched one accepted
    h = random_history(rng, 15)
    steps, err = execute_history(h, 0)
    spec3, cfg3 = ctx.model(ctx.spec("sched", "CallbacksTrace.tla"), {})
    okrec = ctx.tlc_validate(spec3, [{"id": "a", "steps": steps}], cfg3)
    steps[-1]["obs_active"] = sorted(set(steps[-1]["obs_active"]) ^ {1})
    badrec = ctx.tlc_validate(spec3, [{"id": "b", "steps": steps}], cfg3)
    print("untouched record: %s; corrupted record: %s" % ("accepted" if not okrec else "REJECTED", "REJECTED" if badrec else "accepted"))
    ok &= (not okrec) and bool(badrec)
    import glob, os
    for f in glob.glob(os.path.join(os.path.dirname(os.path.dirname(os.path.dirname(os.path.abspath(__file__)))), "replays", "C05-*.json")):
        os.remove(f)
    return 0 if ok else 1
