"""C28 - random arrays: reproducible when seeded, distinct keys when not, choice without replacement.

specs/array/Random.tla states the three registries (a seeded configuration has ONE value; separately
created unseeded arrays have pairwise distinct names and disjoint task keys and keep their own draw
when computed together; choice(replace=False) returns `size` distinct members of the population).
RandomMC.tla enumerates the configurations [api, seed, distribution, shape, every chunking, nth
array of the generator] and every choice request (population as an integer or as an array under
every chunking, every size, output in one chunk or split) and checks the folds against their global
definitions.  The harness creates the arrays with the real dask.array.random, observes each
configuration on the sync / threaded / multiprocessing schedulers, on recomputation and on
re-creation from a fresh generator, and TLC decides every record (RandomTrace.tla)."""
from __future__ import annotations

import hashlib
import json

from ..core import TLA, MachineryError
from ..par import pmap
from ..sidebyside import in_parallel

META = {
    "title": "Random arrays are reproducible when seeded and independent when not",
    "design_ref": "DESIGN.md §4.3 C28",
    "technique": "TLA+ registries (configuration -> value; names / keys of unseeded arrays; choice contract); TLC enumerates "
                 "configurations and choice requests; observations from real schedulers validated by TLC",
    "level_text": "TLC enumerates 2 APIs x 3 seeds x every distribution method (33 shared + API-specific ones, array-valued parameters, choice "
                  "with / without replacement / probabilities / array population, permutation: 43-44 per API) x every chunking of shapes "
                  "(4,), (2,3) [thorough: + (5,), (3,2), (2,2,2)] x 1st/2nd array of the generator (stratified sample: quick 900, thorough 12k) and every choice(replace=False) request "
                  "with population 1..5 (thorough 1..6) as integer or array under every chunking, size 0..n, both APIs, 3 seeds, shuffle "
                  "on/off (exhaustive). For each seeded configuration ONE collection object is computed on sync twice and on threads twice (clause Recompute), and it "
                  "is re-created from a fresh generator (clause Deterministic); for a subset one more object is computed on sync and twice on "
                  "a process pool; k = 2, 3 successive identical calls on ONE unseeded generator object (every distribution, one- and "
                  "multi-chunk) must have distinct names, disjoint keys and keep their own draws; unseeded pairs/triples from the module-level API, "
                  "default_rng() and RandomState() are compared by name, task keys and alone/together values; TLC decides each record.",
    "level_note": "Trusted: TLC; the value fingerprint (dtype, shape, bytes). Statistical quality, independence of the per-chunk streams "
                  "and whether two unseeded arrays have different VALUES are not decided. Multi-chunk choice(replace=False) raises the "
                  "documented NotImplementedError and is skipped. NumPy's generators are trusted per block.",
}

_POOLS = {}
HOWS = ["sync", "sync2", "threads", "threads2", "fresh"]


def _fp(a):
    import numpy as np
    a = np.asarray(a)
    return "%s|%s|%s" % (a.dtype.str, list(a.shape), hashlib.md5(np.ascontiguousarray(a).tobytes()).hexdigest())


def _rng(api, seed):
    import dask.array as da
    return da.random.default_rng(seed) if api == "Generator" else da.random.RandomState(seed)


DIST_ARGS = {
    "beta": (2.0, 3.0), "binomial": (10, 0.3), "chisquare": (3.0,), "exponential": (2.0,), "f": (3.0, 4.0), "gamma": (2.0, 1.5),
    "geometric": (0.3,), "gumbel": (0.0, 1.0), "hypergeometric": (5, 6, 4), "laplace": (0.0, 1.0), "logistic": (0.0, 1.0),
    "lognormal": (0.0, 1.0), "logseries": (0.5,), "negative_binomial": (3, 0.4), "noncentral_chisquare": (3.0, 1.0),
    "noncentral_f": (3.0, 4.0, 1.0), "normal": (2.0, 3.0), "pareto": (2.0,), "poisson": (4.0,), "power": (2.0,), "rayleigh": (1.0,),
    "standard_cauchy": (), "standard_exponential": (), "standard_gamma": (2.0,), "standard_normal": (), "standard_t": (3.0,),
    "triangular": (0.0, 0.5, 1.0), "uniform": (-1.0, 1.0), "vonmises": (0.0, 1.0), "wald": (1.0, 1.0), "weibull": (2.0,), "zipf": (2.0,),
    "multinomial": (5, [0.2, 0.3, 0.5]), "random": (), "integers": (0, 1000), "random_sample": (), "randint": (0, 1000), "tomaxint": (),
    "random_integers": (0, 10),
}


def _dist_call(rng, dist, size, chunks):
    """One creation call of the table (every call of a configuration uses the same arguments)."""
    import numpy as np
    import dask.array as da
    kw = {"size": size, "chunks": chunks}
    if dist in DIST_ARGS:
        return getattr(rng, dist)(*DIST_ARGS[dist], **kw)
    if dist == "normal_nparg":                         # a NumPy array parameter is broadcast and embedded in the graph
        return rng.normal(np.arange(size[-1], dtype="f8"), 1.0, **kw)
    if dist == "normal_daarg":                         # a dask array parameter
        return rng.normal(da.from_array(np.arange(size[-1], dtype="f8"), chunks=1), 1.0, **kw)
    is_gen = hasattr(rng, "_bit_generator")
    if dist == "choice":
        return rng.choice(10, size=size, chunks=chunks)
    if dist == "choice_arraypop":
        return rng.choice(da.arange(10, chunks=5) * 3, size=size, chunks=chunks)
    if dist == "choice_p":
        return rng.choice(4, size=size, chunks=chunks, p=[0.1, 0.2, 0.3, 0.4])
    if dist == "choice_norep":                         # multi-chunk requests raise the documented NotImplementedError
        return rng.choice(10, size=size, chunks=chunks, replace=False)
    if dist == "choice_noshuffle" and is_gen:
        return rng.choice(10, size=size, chunks=chunks, replace=False, shuffle=False)
    if dist == "permutation":
        n = int(np.prod(size))
        return rng.permutation(da.from_array(np.arange(n).reshape(size), chunks=chunks))
    raise ValueError(dist)


def make_array(cfg, seed=None):
    rng = _rng(cfg["api"], cfg["seed"] if seed is None else seed)
    size = tuple(cfg["shape"])
    chunks = tuple(tuple(c) for c in cfg["chunks"])
    for _ in range(cfg["nth"] - 1):
        _dist_call(rng, "normal", (3,), ((2, 1),))          # the fixed preceding creation
    return _dist_call(rng, cfg["dist"], size, chunks)


def _compute(x, how):
    """how: sync | sync2 | threads | processes | fresh (the caller passes the re-created array)."""
    import dask
    if how in ("sync", "sync2", "fresh", "processes-sync"):
        return x.compute(scheduler="sync")
    if how in ("threads", "threads2"):
        if "t" not in _POOLS:
            from concurrent.futures import ThreadPoolExecutor
            _POOLS["t"] = ThreadPoolExecutor(3)
        return x.compute(scheduler="threads", pool=_POOLS["t"])
    if how in ("processes", "processes2"):
        if "p" not in _POOLS:
            import multiprocessing as mp
            from concurrent.futures import ProcessPoolExecutor
            _POOLS["p"] = ProcessPoolExecutor(2, mp_context=mp.get_context("spawn"))
        return x.compute(scheduler="processes", pool=_POOLS["p"])
    raise ValueError(how)


def observe_draw(item):
    cfg, hows = item
    obs = []
    try:
        x = make_array(cfg)
    except NotImplementedError as ex:
        return {"skip": "NotImplementedError: %s" % str(ex)[:60]}
    except Exception as ex:  # noqa: BLE001
        return {"obs": [{"how": "create", "obj": 1, "fp": "!%s" % type(ex).__name__}], "name": ""}
    for how in hows:
        try:
            y = make_array(cfg) if how == "fresh" else x           # obj 1 = ONE collection object, obj 2 = created again
            obs.append({"how": how, "obj": 2 if how == "fresh" else 1, "fp": _fp(_compute(y, how))})
        except NotImplementedError as ex:
            return {"skip": "NotImplementedError: %s" % str(ex)[:60]}
        except Exception as ex:  # noqa: BLE001 - an exception from dask is an observation
            obs.append({"how": how, "obj": 2 if how == "fresh" else 1, "fp": "!%s: %s" % (type(ex).__name__, str(ex)[:80])})
    return {"obs": obs, "name": x.name}


def _unseeded_array(src, shape, chunks):
    import dask.array as da
    if src == "module":
        return da.random.random(shape, chunks=chunks)
    if src == "module-normal":
        return da.random.normal(0, 1, size=shape, chunks=chunks)
    if src == "default_rng":
        return da.random.default_rng().random(shape, chunks=chunks)
    if src == "RandomState":
        return da.random.RandomState().random_sample(shape, chunks=chunks)
    if src == "one-generator":                        # several arrays from ONE unseeded generator
        if "g" not in _POOLS:
            _POOLS["g"] = da.random.default_rng()
        return _POOLS["g"].random(shape, chunks=chunks)
    raise ValueError(src)


def _flat(keys):
    for k in keys:
        if isinstance(k, list):
            yield from _flat(k)
        else:
            yield k


def observe_unseeded(item):
    import dask
    shape, chunks = tuple(item["shape"]), tuple(tuple(c) for c in item["chunks"])
    try:
        if "dist" in item:                               # k identical calls on ONE unseeded generator object
            rng = _rng(item["api"], None)
            arrs = [_dist_call(rng, item["dist"], shape, chunks) for _ in range(item["k"])]
        else:
            arrs = [_unseeded_array(s, shape, chunks) for s in item["srcs"]]
        alone = [_fp(a.compute(scheduler="sync")) for a in arrs]
        together = [_fp(r) for r in dask.compute(*arrs, scheduler="sync")]
        return {"names": [a.name for a in arrs], "keys": [sorted(str(k) for k in _flat(a.__dask_keys__())) for a in arrs],
                "alone": alone, "together": together}
    except NotImplementedError as ex:
        return {"skip": "NotImplementedError: %s" % str(ex)[:60]}
    except Exception as ex:  # noqa: BLE001
        return {"raised": "%s: %s" % (type(ex).__name__, str(ex)[:100])}


def observe_choice(c):
    import numpy as np
    import dask.array as da
    rng = _rng(c["api"], c["seed"])
    n, k = c["n"], c["size"]
    popvals = [3 * i + 1 for i in range(n)]
    if c["popchunks"]:
        a = da.from_array(np.array(popvals), chunks=(tuple(c["popchunks"]),))
    else:
        a, popvals = n, list(range(n))
    chunks = ((k - k // 2, k // 2),) if c["outsplit"] else ((k,),)
    kw = {"size": k, "replace": False, "chunks": chunks}
    if c["api"] == "Generator":
        kw["shuffle"] = c["shuffle"]
    try:
        x = rng.choice(a, **kw)
        res = x.compute(scheduler="sync")
        return {"pop": popvals, "size": k, "res": [int(v) for v in np.asarray(res).ravel()], "raised": "",
                "lazy": [list(x.shape), [list(ch) for ch in x.chunks]]}
    except NotImplementedError as ex:
        return {"skip": "NotImplementedError: %s" % str(ex)[:70]}
    except Exception as ex:  # noqa: BLE001
        return {"pop": popvals, "size": k, "res": [], "raised": "%s: %s" % (type(ex).__name__, str(ex)[:100])}


def _work(item):
    kind, payload = item
    if kind == "draw":
        return observe_draw(payload)
    if kind == "unseeded":
        return observe_unseeded(payload)
    return observe_choice(payload)


def _close_pools(_=None):
    for k in ("t", "p"):
        p = _POOLS.pop(k, None)
        if p is not None:
            p.shutdown(wait=True)
    return True


def _work_chunk(items):
    """One forked child handles a whole list (its thread / process pools live and die inside it)."""
    try:
        return [_work(it) for it in items]
    finally:
        _close_pools()


def run_items(items, nchild=None):
    import os
    nchild = nchild or max(1, min(int(os.environ.get("VERIF_PROCS", "14")), 8, (len(items) + 39) // 40))
    parts = [items[i::nchild] for i in range(nchild)]
    outs = pmap(_work_chunk, parts, procs=nchild, chunk=1, always=True)
    res = [None] * len(items)
    for i, part in enumerate(outs):
        res[i::nchild] = part
    return res


def add_process_observations(subset, draws, results):
    """Appends a `processes` observation to the results of the given configurations (results[i] belongs to draws[i])."""
    index = {json.dumps(c, sort_keys=True): i for i, c in enumerate(draws)}
    try:
        for c in subset:
            r = results[index[json.dumps(c, sort_keys=True)]]
            if "obs" not in r:
                continue
            how = "create"
            try:
                x = make_array(c)                       # obj 3: one more collection object, computed on sync and twice on the pool
                for how in ("processes-sync", "processes", "processes2"):
                    r["obs"].append({"how": how, "obj": 3, "fp": _fp(_compute(x, how))})
            except Exception as ex:  # noqa: BLE001 - an exception from dask is an observation
                r["obs"].append({"how": how, "obj": 3, "fp": "!%s: %s" % (type(ex).__name__, str(ex)[:80])})
    finally:
        _close_pools()


# ---------------------------------------------------------------- records, classification
def to_records(items, results, ctx=None):
    recs, meta = [], {}
    for i, ((kind, payload), r) in enumerate(zip(items, results)):
        rid = "r%d" % i
        if "skip" in r:
            if ctx:
                ctx.skip(r["skip"])
            continue
        if kind == "draw":
            fps = {}
            obs = [{"how": o["how"], "obj": o["obj"], "fp": 0 if o["fp"].startswith("!") else fps.setdefault(o["fp"], len(fps) + 1)}
                   for o in r["obs"]]
            recs.append({"id": rid, "kind": "draw", "obs": obs})
        elif kind == "unseeded":
            if "raised" in r:
                recs.append({"id": rid, "kind": "draw", "obs": [{"how": "unseeded", "obj": 1, "fp": 0}]})
            else:
                nm, ky, fp = {}, {}, {}
                recs.append({"id": rid, "kind": "unseeded",
                             "names": [nm.setdefault(x, len(nm) + 1) for x in r["names"]],
                             "keys": [[ky.setdefault(k, len(ky) + 1) for k in ks] for ks in r["keys"]],
                             "alone": [fp.setdefault(x, len(fp) + 1) for x in r["alone"]],
                             "together": [fp.setdefault(x, len(fp) + 1) for x in r["together"]]})
        else:
            recs.append({"id": rid, "kind": "choice", "pop": r["pop"], "size": r["size"], "res": r["res"], "raised": bool(r["raised"])})
        meta[rid] = (kind, payload, r)
    return recs, meta


def parse_clauses(text):
    return [x for x in text.strip("{} ").replace('"', "").split(", ") if x]


def classify(kind, payload, clause):
    if kind == "draw":
        if clause.startswith("Recompute_"):             # one collection object, two values: the call site is the method
            return "Recompute:%s:%s" % (payload["api"], payload["dist"].split("_")[0])
        multi = any(len(c) > 1 for c in payload["chunks"])
        return "%s:%s:%s:%s" % (clause, payload["api"], payload["dist"], "multi-chunk" if multi else "one-chunk")
    if kind == "unseeded":
        if "dist" in payload:                            # successive calls on ONE unseeded generator object
            one = all(len(c) == 1 for c in payload["chunks"])
            return "%s:one-generator:%s:%s:%s" % (clause, payload["api"], payload["dist"].split("_")[0], "one-chunk" if one else "multi-chunk")
        return "%s:%s" % (clause, "+".join(sorted(set(payload["srcs"]))))
    return "%s:%s:%s:%s" % (clause, payload["api"], "array-pop" if payload["popchunks"] else "int-pop",
                            "size=n" if payload["size"] == payload["n"] else ("size=0" if payload["size"] == 0 else "0<size<n"))


def validate(ctx, items, results, count=True):
    recs, meta = to_records(items, results, ctx if count else None)
    spec, cfg = ctx.model(ctx.spec("array", "RandomTrace.tla"), {})
    out = []
    for lo in range(0, len(recs), 4000):
        rej = ctx.tlc_validate(spec, recs[lo:lo + 4000], cfg, timeout=1800)
        for rid, texts in rej.items():
            kind, payload, r = meta[rid]
            for cl in [c for t in texts for c in parse_clauses(t)]:
                out.append((classify(kind, payload, cl), kind, payload, r, cl))
    if count:
        for rid, (kind, payload, r) in meta.items():
            ctx.count((kind, payload), kind != "choice" or payload["size"] > 0)
    return out


def unseeded_items(rng, n):
    srcs = ["module", "module-normal", "default_rng", "RandomState", "one-generator"]
    items = []
    for i in range(n):
        shape = rng.choice([(4,), (2, 3), (1,), (6,)])
        chunks = [[shape[0]]] if rng.random() < 0.3 else None
        if chunks is None:
            chunks = []
            for s in shape:
                ch, left = [], s
                while left > 0:
                    c = rng.randint(1, left)
                    ch.append(c)
                    left -= c
                chunks.append(ch)
        elif len(shape) == 2:
            chunks = [[shape[0]], [shape[1]]]
        k = rng.choice([2, 2, 3])
        same = rng.random() < 0.6
        s0 = rng.choice(srcs)
        items.append(("unseeded", {"srcs": [s0] * k if same else [rng.choice(srcs) for _ in range(k)], "shape": list(shape), "chunks": chunks}))
    return items


def run(ctx):
    big = not ctx.quick
    consts = {"N": ctx.pick(5, 6), "Shapes": TLA(ctx.pick("{<<4>>, <<2, 3>>}", "{<<4>>, <<2, 3>>, <<5>>, <<3, 2>>, <<2, 2, 2>>}")),
              "Seeds": TLA("{0, 1, 7}")}
    s1, c1 = ctx.model(ctx.spec("array", "RandomMC.tla"), dict(consts, Mode="design"),
                       invariants=["DrawFoldIsGlobal", "RecomputeBlame", "ChoiceFoldIsGlobal"])
    s4, c4 = ctx.model(ctx.spec("array", "RandomMC.tla"), dict(consts, Mode="pairs"))
    s2, c2 = ctx.model(ctx.spec("array", "RandomMC.tla"), dict(consts, Mode="draw"))
    s3, c3 = ctx.model(ctx.spec("array", "RandomMC.tla"), dict(consts, Mode="choice"), invariants=["ChoiceSatisfiable"])
    _, (draws, _), (choices, _), (pairs, _) = in_parallel([
        lambda: ctx.tlc(s1, c1, label="design: folds = global definitions", timeout=900),
        lambda: ctx.tlc_cases(s2, c2, label="cases: seeded configurations", timeout=1800),
        lambda: ctx.tlc_cases(s3, c3, label="cases: choice requests", timeout=1800),
        lambda: ctx.tlc_cases(s4, c4, label="cases: successive calls on one unseeded generator", timeout=1800)])
    for lst in (draws, choices, pairs):
        lst.sort(key=lambda c: json.dumps(c, sort_keys=True))
    total = (len(draws), len(choices), len(pairs))
    ctx.exhaustive = True

    def stratified(cases, cap):
        """Every (api, distribution) keeps its share, one-chunk and multi-chunk layouts both present."""
        if len(cases) <= cap:
            return cases
        ctx.exhaustive = False
        by = {}
        for c in cases:
            by.setdefault((c["api"], c["dist"], all(len(ch) == 1 for ch in c["chunks"])), []).append(c)
        share = max(2, cap // len(by))
        return [c for k in sorted(by) for c in ctx.rng.sample(by[k], min(share, len(by[k])))]
    draws = stratified(draws, ctx.pick(900, 12000))
    pairs = stratified(pairs, ctx.pick(500, 6000))
    nproc = ctx.pick(40, 300)
    items = [("draw", (c, HOWS)) for c in draws]
    items += [("choice", c) for c in choices]
    items += unseeded_items(ctx.rng, ctx.pick(150, 1500))
    items += [("unseeded", c) for c in pairs]
    results = run_items(items)
    # the multiprocessing scheduler: in this (non-daemonic) process, after all forking is done
    add_process_observations([c for i, c in enumerate(draws) if i % max(1, len(draws) // nproc) == 0], draws, results)
    # observe_draw takes (cfg, hows): classification wants the cfg
    flat = [(k, p[0]) if k == "draw" else (k, p) for k, p in items]
    for sig, kind, payload, r, cl in validate(ctx, flat, results):
        ctx.violation(sig, "%s on %s: %s" % (cl, kind, json.dumps(r)[:300]), {"kind": kind, "payload": payload, "clause": cl})
    ctx.sample({"draw": draws[0]})
    ctx.sample({"choice": choices[len(choices) // 2]})
    ctx.rule = ("a case = one seeded configuration (ONE collection object computed on sync x2 and threads x2, re-created once, some also "
                "on sync + process pool x2), one choice request, or one tuple of unseeded arrays (separate generators, or successive calls on "
                "one generator object); non-trivial = everything except choice of size 0")
    ctx.extra.update({"configurations_enumerated": total[0], "choice_requests_enumerated": total[1], "one_generator_call_tuples_enumerated": total[2]})
    ctx.assumptions = ["NumPy's bit generators are deterministic per block", "md5 of the bytes identifies a value"]


def replay(ctx, obj):
    c = obj["case"]
    kind, payload = c["kind"], c["payload"]
    item = ("draw", (payload, HOWS)) if kind == "draw" else (kind, payload)
    res = pmap(_work_chunk, [[item]], procs=2, chunk=1, always=True)[0]
    if kind == "draw":
        add_process_observations([payload], [payload], res)
    bad = validate(ctx, [(kind, payload)], res, count=False)
    print("observed:", json.dumps(res[0])[:600], "\nrejected:", [(s, cl) for s, _, _, _, cl in bad])
    return bool(bad)


# ---------------------------------------------------------------- self-test
SELF_DRAWS = [
    {"api": "Generator", "seed": 0, "dist": "random", "shape": [4], "chunks": [[2, 2]], "nth": 1},
    {"api": "Generator", "seed": 7, "dist": "normal", "shape": [2, 3], "chunks": [[1, 1], [2, 1]], "nth": 2},
    {"api": "RandomState", "seed": 1, "dist": "random_sample", "shape": [4], "chunks": [[1, 3]], "nth": 1},
    {"api": "RandomState", "seed": 0, "dist": "poisson", "shape": [2, 3], "chunks": [[2], [1, 2]], "nth": 1},
    {"api": "Generator", "seed": 7, "dist": "choice", "shape": [4], "chunks": [[2, 2]], "nth": 1},
    {"api": "Generator", "seed": 1, "dist": "choice_norep", "shape": [4], "chunks": [[4]], "nth": 1},
    {"api": "Generator", "seed": 0, "dist": "choice_arraypop", "shape": [2, 3], "chunks": [[1, 1], [3]], "nth": 2},
    {"api": "RandomState", "seed": 7, "dist": "choice", "shape": [4], "chunks": [[1, 3]], "nth": 1},
    {"api": "Generator", "seed": 0, "dist": "permutation", "shape": [4], "chunks": [[2, 2]], "nth": 1},
]
SELF_CHOICES = [
    {"api": "Generator", "seed": 0, "n": 4, "size": 4, "popchunks": [2, 2], "outsplit": False, "shuffle": True},
    {"api": "Generator", "seed": 1, "n": 5, "size": 3, "popchunks": [], "outsplit": False, "shuffle": False},
    {"api": "RandomState", "seed": 0, "n": 4, "size": 4, "popchunks": [4], "outsplit": False, "shuffle": True},
    {"api": "RandomState", "seed": 7, "n": 5, "size": 4, "popchunks": [], "outsplit": False, "shuffle": True},
    {"api": "Generator", "seed": 7, "n": 5, "size": 5, "popchunks": [], "outsplit": False, "shuffle": True},
    {"api": "Generator", "seed": 0, "n": 4, "size": 4, "popchunks": [], "outsplit": True, "shuffle": True},
    {"api": "Generator", "seed": 1, "n": 5, "size": 5, "popchunks": [2, 3], "outsplit": True, "shuffle": True},
    {"api": "RandomState", "seed": 1, "n": 5, "size": 5, "popchunks": [], "outsplit": True, "shuffle": True},
]
SELF_UNSEEDED = [
    {"srcs": ["module", "module"], "shape": [4], "chunks": [[2, 2]]},
    {"srcs": ["one-generator", "one-generator", "one-generator"], "shape": [2, 3], "chunks": [[2], [3]]},
    {"srcs": ["default_rng", "default_rng"], "shape": [4], "chunks": [[4]]},
    {"srcs": ["RandomState", "module-normal"], "shape": [4], "chunks": [[1, 3]]},
    {"api": "Generator", "dist": "choice", "shape": [4], "chunks": [[4]], "k": 2},
    {"api": "Generator", "dist": "choice_norep", "shape": [4], "chunks": [[4]], "k": 3},
    {"api": "Generator", "dist": "choice", "shape": [4], "chunks": [[2, 2]], "k": 2},
    {"api": "Generator", "dist": "normal", "shape": [4], "chunks": [[4]], "k": 2},
    {"api": "RandomState", "dist": "choice", "shape": [4], "chunks": [[4]], "k": 2},
]


def _selftest_items():
    return ([("draw", (c, HOWS)) for c in SELF_DRAWS] + [("choice", c) for c in SELF_CHOICES]
            + [("unseeded", c) for c in SELF_UNSEEDED])


MUTANTS = {   # name -> (function of dask.array.random, old text, new text)
    "name-ignores-seed": ("_wrap_func", "token = tokenize(bitgen_token, size, chunks, args, kwargs)", "token = tokenize(size, chunks, args, kwargs)"),
    "spawn-ignores-generator-seed": ("_spawn_bitgens", "seeds = bitgen._seed_seq.spawn(n_bitgens)", "seeds = np.random.SeedSequence().spawn(n_bitgens)"),
    "chunk-state-not-seeded": ("_apply_random", "state = RandomState(state_data)", "state = RandomState()"),
    "choice-replace-flag-dropped": ("_choice_rng", "replace=replace", "replace=True"),
    "choice-multichunk-guard-dropped": ("_choice_validate_params", "if not replace and len(chunks[0]) > 1:", "if False:"),
    # reverts 559b509: the task draws from the bit generator object held by the graph, in place
    "choice-draws-from-graph-bitgen-in-place": ("_choice_rng", "_rng_from_bitgen(copy.deepcopy(state_data))", "_rng_from_bitgen(state_data)"),
    # successive calls do not advance the generator: the same children are spawned every time
    "spawn-does-not-advance-generator": ("_spawn_bitgens", "seeds = bitgen._seed_seq.spawn(n_bitgens)",
                                         "seeds = np.random.SeedSequence(bitgen._seed_seq.entropy, spawn_key=bitgen._seed_seq.spawn_key).spawn(n_bitgens)"),
}
EXPECT = {"choice-draws-from-graph-bitgen-in-place": "Recompute:Generator:choice", "spawn-does-not-advance-generator": "NamesDistinct:one-generator:Generator"}


def _mutant_child(name):
    """Runs in a forked child: the mutant is installed there only."""
    import contextlib

    import dask.array.random as R
    from ..mutate import source_mutant
    cm = source_mutant(R, *MUTANTS[name]) if name else contextlib.nullcontext()
    with cm:
        try:
            return [_work(it) for it in _selftest_items()]
        finally:
            _close_pools()


def selftest(ctx):
    names = [None] + list(MUTANTS)
    outs = pmap(_mutant_child, names, procs=len(names), chunk=1, always=True)
    items = _selftest_items()
    flat = [(k, p[0]) if k == "draw" else (k, p) for k, p in items]
    ok = True
    allrecs, owner = [], {}
    for j, (nm, res) in enumerate(zip(names, outs)):
        recs, meta = to_records(flat, res)
        for r in recs:
            old = r["id"]
            r["id"] = "m%d_%s" % (j, old)
            owner[r["id"]] = (nm, meta[old])
        allrecs += recs
    spec, cfg = ctx.model(ctx.spec("array", "RandomTrace.tla"), {})
    rej = ctx.tlc_validate(spec, allrecs, cfg, timeout=600)
    sigs = {}
    for rid, texts in rej.items():
        nm, (kind, payload, r) = owner[rid]
        for cl in [c for t in texts for c in parse_clauses(t)]:
            sigs.setdefault(nm, set()).add(classify(kind, payload, cl))
    base = sigs.get(None, set())
    print("unmutated tree on the self-test cases: rejected signatures %s" % sorted(base))
    ok &= not base
    for nm in names[1:]:
        new = sorted(sigs.get(nm, set()) - base)
        hit = bool(new) and (nm not in EXPECT or any(x.startswith(EXPECT[nm]) for x in new))
        print("mutant %s: %s (signatures: %s)" % (nm, "DETECTED" if hit else "MISSED", new[:4]))
        ok &= hit
    clean = [dict(r, id="c" + r["id"]) for r in allrecs if owner[r["id"]][0] is None and r["kind"] == "draw"][:2]
    bad = [dict(r, id="x" + r["id"], obs=r["obs"][:-1] + [dict(r["obs"][-1], fp=r["obs"][-1]["fp"] + 1)]) for r in clean]
    rj = ctx.tlc_validate(spec, clean + bad, cfg)
    good_rej = [k for k in rj if k.startswith("c")]
    bad_rej = [k for k in rj if k.startswith("x")]
    print("untouched records: %s; records with a corrupted fingerprint: %s" % ("accepted" if not good_rej else "REJECTED",
                                                                            "REJECTED" if len(bad_rej) == len(bad) else "accepted"))
    ok &= (not good_rej) and len(bad_rej) == len(bad)
    return 0 if ok else 1
