"""C28 - random arrays: reproducible when seeded, distinct keys when not, choice without replacement.

specs/array/Random.tla states the three registries (a seeded configuration has ONE value; separately
created unseeded arrays have pairwise distinct names and disjoint task keys and keep their own draw
when computed together; choice(replace=False) returns `size` distinct members of the population).
RandomMC.tla enumerates the configurations [api, seed, distribution, shape, every chunking, nth
array of the generator] and every choice request (population as an integer or as an array under
every chunking, every size, output in one chunk or split) and checks the folds against their global
definitions.  The harness creates the arrays with the real dask.array.random, observes each
configuration on the sync / threaded / multiprocessing schedulers, on recomputation and on
re-creation from a fresh generator, and TLC decides every record (RandomTrace.tla)."""
from __future__ import annotations

import hashlib
import json

from ..core import TLA, MachineryError
from ..par import pmap
from ..sidebyside import in_parallel

META = {
    "title": "Random arrays are reproducible when seeded and independent when not",
    "design_ref": "DESIGN.md §4.3 C28",
    "technique": "TLA+ registries (configuration -> value; names / keys of unseeded arrays; choice contract); TLC enumerates "
                 "configurations and choice requests; observations from real schedulers validated by TLC",
    "level_text": "TLC enumerates 2 APIs x 3 seeds x 7 distributions x every chunking of shapes (4,), (2,3) [thorough: + (5,), (3,2), "
                  "(2,2,2)] x 1st/2nd array of the generator (quick: 400 sampled, thorough: all) and every choice(replace=False) request "
                  "with population 1..5 (thorough 1..6) as integer or array under every chunking, size 0..n, both APIs, 3 seeds, shuffle "
                  "on/off (exhaustive). Each seeded configuration is observed on sync twice, threads, re-created from a fresh generator "
                  "(and on the multiprocessing scheduler for a subset); unseeded pairs/triples from the module-level API, "
                  "default_rng() and RandomState() are compared by name, task keys and alone/together values; TLC decides each record.",
    "level_note": "Trusted: TLC; the value fingerprint (dtype, shape, bytes). Statistical quality, independence of the per-chunk streams "
                  "and whether two unseeded arrays have different VALUES are not decided. Multi-chunk choice(replace=False) raises the "
                  "documented NotImplementedError and is skipped. NumPy's generators are trusted per block.",
}

_POOLS = {}


def _fp(a):
    import numpy as np
    a = np.asarray(a)
    return "%s|%s|%s" % (a.dtype.str, list(a.shape), hashlib.md5(np.ascontiguousarray(a).tobytes()).hexdigest())


def _rng(api, seed):
    import dask.array as da
    return da.random.default_rng(seed) if api == "Generator" else da.random.RandomState(seed)


def _dist_call(rng, dist, size, chunks):
    kw = {"size": size, "chunks": chunks}
    if dist in ("random", "random_sample"):
        return getattr(rng, dist)(**kw)
    if dist == "normal":
        return rng.normal(2.0, 3.0, **kw)
    if dist == "integers":
        return rng.integers(0, 1000, **kw)
    if dist == "randint":
        return rng.randint(0, 1000, **kw)
    if dist == "uniform":
        return rng.uniform(-1.0, 1.0, **kw)
    if dist == "poisson":
        return rng.poisson(4.0, **kw)
    if dist == "standard_normal":
        return rng.standard_normal(**kw)
    if dist == "exponential":
        return rng.exponential(2.0, **kw)
    raise ValueError(dist)


def make_array(cfg, seed=None):
    rng = _rng(cfg["api"], cfg["seed"] if seed is None else seed)
    size = tuple(cfg["shape"])
    chunks = tuple(tuple(c) for c in cfg["chunks"])
    for _ in range(cfg["nth"] - 1):
        _dist_call(rng, "normal", (3,), ((2, 1),))          # the fixed preceding creation
    return _dist_call(rng, cfg["dist"], size, chunks)


def _compute(x, how):
    """how: sync | sync2 | threads | processes | fresh (the caller passes the re-created array)."""
    import dask
    if how in ("sync", "sync2", "fresh"):
        return x.compute(scheduler="sync")
    if how == "threads":
        if "t" not in _POOLS:
            from concurrent.futures import ThreadPoolExecutor
            _POOLS["t"] = ThreadPoolExecutor(3)
        return x.compute(scheduler="threads", pool=_POOLS["t"])
    if how == "processes":
        if "p" not in _POOLS:
            import multiprocessing as mp
            from concurrent.futures import ProcessPoolExecutor
            _POOLS["p"] = ProcessPoolExecutor(2, mp_context=mp.get_context("spawn"))
        return x.compute(scheduler="processes", pool=_POOLS["p"])
    raise ValueError(how)


def observe_draw(item):
    cfg, hows = item
    obs = []
    try:
        x = make_array(cfg)
    except NotImplementedError as ex:
        return {"skip": "NotImplementedError: %s" % str(ex)[:60]}
    except Exception as ex:  # noqa: BLE001
        return {"obs": [{"how": "create", "fp": "!%s" % type(ex).__name__}], "name": ""}
    for how in hows:
        try:
            y = make_array(cfg) if how == "fresh" else x
            obs.append({"how": how, "fp": _fp(_compute(y, how))})
        except Exception as ex:  # noqa: BLE001 - an exception from dask is an observation
            obs.append({"how": how, "fp": "!%s: %s" % (type(ex).__name__, str(ex)[:80])})
    return {"obs": obs, "name": x.name}


def _unseeded_array(src, shape, chunks):
    import dask.array as da
    if src == "module":
        return da.random.random(shape, chunks=chunks)
    if src == "module-normal":
        return da.random.normal(0, 1, size=shape, chunks=chunks)
    if src == "default_rng":
        return da.random.default_rng().random(shape, chunks=chunks)
    if src == "RandomState":
        return da.random.RandomState().random_sample(shape, chunks=chunks)
    if src == "one-generator":                        # several arrays from ONE unseeded generator
        if "g" not in _POOLS:
            _POOLS["g"] = da.random.default_rng()
        return _POOLS["g"].random(shape, chunks=chunks)
    raise ValueError(src)


def observe_unseeded(item):
    import dask
    srcs, shape, chunks = item["srcs"], tuple(item["shape"]), tuple(tuple(c) for c in item["chunks"])
    try:
        arrs = [_unseeded_array(s, shape, chunks) for s in srcs]
        alone = [_fp(a.compute(scheduler="sync")) for a in arrs]
        together = [_fp(r) for r in dask.compute(*arrs, scheduler="sync")]
        return {"names": [a.name for a in arrs], "keys": [sorted(str(k) for k in a.__dask_graph__()) for a in arrs],
                "alone": alone, "together": together}
    except Exception as ex:  # noqa: BLE001
        return {"raised": "%s: %s" % (type(ex).__name__, str(ex)[:100])}


def observe_choice(c):
    import numpy as np
    import dask.array as da
    rng = _rng(c["api"], c["seed"])
    n, k = c["n"], c["size"]
    popvals = [3 * i + 1 for i in range(n)]
    if c["popchunks"]:
        a = da.from_array(np.array(popvals), chunks=(tuple(c["popchunks"]),))
    else:
        a, popvals = n, list(range(n))
    chunks = ((k - k // 2, k // 2),) if c["outsplit"] else ((k,),)
    kw = {"size": k, "replace": False, "chunks": chunks}
    if c["api"] == "Generator":
        kw["shuffle"] = c["shuffle"]
    try:
        x = rng.choice(a, **kw)
        res = x.compute(scheduler="sync")
        return {"pop": popvals, "size": k, "res": [int(v) for v in np.asarray(res).ravel()], "raised": "",
                "lazy": [list(x.shape), [list(ch) for ch in x.chunks]]}
    except NotImplementedError as ex:
        return {"skip": "NotImplementedError: %s" % str(ex)[:70]}
    except Exception as ex:  # noqa: BLE001
        return {"pop": popvals, "size": k, "res": [], "raised": "%s: %s" % (type(ex).__name__, str(ex)[:100])}


def _work(item):
    kind, payload = item
    if kind == "draw":
        return observe_draw(payload)
    if kind == "unseeded":
        return observe_unseeded(payload)
    return observe_choice(payload)


def _close_pools(_=None):
    for k in ("t", "p"):
        p = _POOLS.pop(k, None)
        if p is not None:
            p.shutdown(wait=True)
    return True


def _work_chunk(items):
    """One forked child handles a whole list (its thread / process pools live and die inside it)."""
    try:
        return [_work(it) for it in items]
    finally:
        _close_pools()


def run_items(items, nchild=None):
    import os
    nchild = nchild or max(1, min(int(os.environ.get("VERIF_PROCS", "14")), 8, (len(items) + 39) // 40))
    parts = [items[i::nchild] for i in range(nchild)]
    outs = pmap(_work_chunk, parts, procs=nchild, chunk=1, always=True)
    res = [None] * len(items)
    for i, part in enumerate(outs):
        res[i::nchild] = part
    return res


def add_process_observations(subset, draws, results):
    """Appends a `processes` observation to the results of the given configurations (results[i] belongs to draws[i])."""
    index = {json.dumps(c, sort_keys=True): i for i, c in enumerate(draws)}
    try:
        for c in subset:
            r = results[index[json.dumps(c, sort_keys=True)]]
            if "obs" not in r:
                continue
            try:
                r["obs"].append({"how": "processes", "fp": _fp(_compute(make_array(c), "processes"))})
            except Exception as ex:  # noqa: BLE001 - an exception from dask is an observation
                r["obs"].append({"how": "processes", "fp": "!%s: %s" % (type(ex).__name__, str(ex)[:80])})
    finally:
        _close_pools()


# ---------------------------------------------------------------- records, classification
def to_records(items, results, ctx=None):
    recs, meta = [], {}
    for i, ((kind, payload), r) in enumerate(zip(items, results)):
        rid = "r%d" % i
        if "skip" in r:
            if ctx:
                ctx.skip(r["skip"])
            continue
        if kind == "draw":
            fps = {}
            obs = [{"how": o["how"], "fp": 0 if o["fp"].startswith("!") else fps.setdefault(o["fp"], len(fps) + 1)} for o in r["obs"]]
            recs.append({"id": rid, "kind": "draw", "obs": obs})
        elif kind == "unseeded":
            if "raised" in r:
                recs.append({"id": rid, "kind": "draw", "obs": [{"how": "unseeded", "fp": 0}]})
            else:
                nm, ky, fp = {}, {}, {}
                recs.append({"id": rid, "kind": "unseeded",
                             "names": [nm.setdefault(x, len(nm) + 1) for x in r["names"]],
                             "keys": [[ky.setdefault(k, len(ky) + 1) for k in ks] for ks in r["keys"]],
                             "alone": [fp.setdefault(x, len(fp) + 1) for x in r["alone"]],
                             "together": [fp.setdefault(x, len(fp) + 1) for x in r["together"]]})
        else:
            recs.append({"id": rid, "kind": "choice", "pop": r["pop"], "size": r["size"], "res": r["res"], "raised": bool(r["raised"])})
        meta[rid] = (kind, payload, r)
    return recs, meta


def parse_clauses(text):
    return [x for x in text.strip("{} ").replace('"', "").split(", ") if x]


def classify(kind, payload, clause):
    if kind == "draw":
        multi = any(len(c) > 1 for c in payload["chunks"])
        return "%s:%s:%s:%s" % (clause, payload["api"], payload["dist"], "multi-chunk" if multi else "one-chunk")
    if kind == "unseeded":
        return "%s:%s" % (clause, "+".join(sorted(set(payload["srcs"]))))
    return "%s:%s:%s:%s" % (clause, payload["api"], "array-pop" if payload["popchunks"] else "int-pop",
                            "size=n" if payload["size"] == payload["n"] else ("size=0" if payload["size"] == 0 else "0<size<n"))


def validate(ctx, items, results, count=True):
    recs, meta = to_records(items, results, ctx if count else None)
    spec, cfg = ctx.model(ctx.spec("array", "RandomTrace.tla"), {})
    out = []
    for lo in range(0, len(recs), 4000):
        rej = ctx.tlc_validate(spec, recs[lo:lo + 4000], cfg, timeout=1800)
        for rid, texts in rej.items():
            kind, payload, r = meta[rid]
            for cl in [c for t in texts for c in parse_clauses(t)]:
                out.append((classify(kind, payload, cl), kind, payload, r, cl))
    if count:
        for rid, (kind, payload, r) in meta.items():
            ctx.count((kind, payload), kind != "choice" or payload["size"] > 0)
    return out


def unseeded_items(rng, n):
    srcs = ["module", "module-normal", "default_rng", "RandomState", "one-generator"]
    items = []
    for i in range(n):
        shape = rng.choice([(4,), (2, 3), (1,), (6,)])
        chunks = [[shape[0]]] if rng.random() < 0.3 else None
        if chunks is None:
            chunks = []
            for s in shape:
                ch, left = [], s
                while left > 0:
                    c = rng.randint(1, left)
                    ch.append(c)
                    left -= c
                chunks.append(ch)
        elif len(shape) == 2:
            chunks = [[shape[0]], [shape[1]]]
        k = rng.choice([2, 2, 3])
        same = rng.random() < 0.6
        s0 = rng.choice(srcs)
        items.append(("unseeded", {"srcs": [s0] * k if same else [rng.choice(srcs) for _ in range(k)], "shape": list(shape), "chunks": chunks}))
    return items


def run(ctx):
    big = not ctx.quick
    consts = {"N": ctx.pick(5, 6), "Shapes": TLA(ctx.pick("{<<4>>, <<2, 3>>}", "{<<4>>, <<2, 3>>, <<5>>, <<3, 2>>, <<2, 2, 2>>}")),
              "Seeds": TLA("{0, 1, 7}")}
    s1, c1 = ctx.model(ctx.spec("array", "RandomMC.tla"), dict(consts, Mode="design"), invariants=["DrawFoldIsGlobal", "ChoiceFoldIsGlobal"])
    s2, c2 = ctx.model(ctx.spec("array", "RandomMC.tla"), dict(consts, Mode="draw"))
    s3, c3 = ctx.model(ctx.spec("array", "RandomMC.tla"), dict(consts, Mode="choice"), invariants=["ChoiceSatisfiable"])
    _, (draws, _), (choices, _) = in_parallel([
        lambda: ctx.tlc(s1, c1, label="design: folds = global definitions", timeout=900),
        lambda: ctx.tlc_cases(s2, c2, label="cases: seeded configurations", timeout=1800),
        lambda: ctx.tlc_cases(s3, c3, label="cases: choice requests", timeout=1800)])
    draws.sort(key=lambda c: json.dumps(c, sort_keys=True))
    choices.sort(key=lambda c: json.dumps(c, sort_keys=True))
    total = (len(draws), len(choices))
    cap = ctx.pick(400, 10 ** 9)
    ctx.exhaustive = len(draws) <= cap
    if len(draws) > cap:
        draws = ctx.rng.sample(draws, cap)
    nproc = ctx.pick(24, 250)
    items = [("draw", (c, ["sync", "sync2", "threads", "fresh"])) for c in draws]
    items += [("choice", c) for c in choices]
    items += unseeded_items(ctx.rng, ctx.pick(150, 1500))
    results = run_items(items)
    # the multiprocessing scheduler: in this (non-daemonic) process, after all forking is done
    add_process_observations([c for i, c in enumerate(draws) if i % max(1, len(draws) // nproc) == 0], draws, results)
    # observe_draw takes (cfg, hows): classification wants the cfg
    flat = [(k, p[0]) if k == "draw" else (k, p) for k, p in items]
    for sig, kind, payload, r, cl in validate(ctx, flat, results):
        ctx.violation(sig, "%s on %s: %s" % (cl, kind, json.dumps(r)[:300]), {"kind": kind, "payload": payload, "clause": cl})
    ctx.sample({"draw": draws[0]})
    ctx.sample({"choice": choices[len(choices) // 2]})
    ctx.rule = ("a case = one seeded configuration (observed on sync x2, threads, re-creation, some on processes), one choice request, "
                "or one tuple of separately created unseeded arrays; non-trivial = everything except choice of size 0")
    ctx.extra.update({"configurations_enumerated": total[0], "choice_requests_enumerated": total[1]})
    ctx.assumptions = ["NumPy's bit generators are deterministic per block", "md5 of the bytes identifies a value"]


def replay(ctx, obj):
    c = obj["case"]
    kind, payload = c["kind"], c["payload"]
    item = ("draw", (payload, ["sync", "sync2", "threads", "fresh"])) if kind == "draw" else (kind, payload)
    res = pmap(_work_chunk, [[item]], procs=2, chunk=1, always=True)[0]
    if kind == "draw":
        add_process_observations([payload], [payload], res)
    bad = validate(ctx, [(kind, payload)], res, count=False)
    print("observed:", json.dumps(res[0])[:600], "\nrejected:", [(s, cl) for s, _, _, _, cl in bad])
    return bool(bad)


# ---------------------------------------------------------------- self-test
SELF_DRAWS = [
    {"api": "Generator", "seed": 0, "dist": "random", "shape": [4], "chunks": [[2, 2]], "nth": 1},
    {"api": "Generator", "seed": 7, "dist": "normal", "shape": [2, 3], "chunks": [[1, 1], [2, 1]], "nth": 2},
    {"api": "RandomState", "seed": 1, "dist": "random_sample", "shape": [4], "chunks": [[1, 3]], "nth": 1},
    {"api": "RandomState", "seed": 0, "dist": "poisson", "shape": [2, 3], "chunks": [[2], [1, 2]], "nth": 1},
]
SELF_CHOICES = [
    {"api": "Generator", "seed": 0, "n": 4, "size": 4, "popchunks": [2, 2], "outsplit": False, "shuffle": True},
    {"api": "Generator", "seed": 1, "n": 5, "size": 3, "popchunks": [], "outsplit": False, "shuffle": False},
    {"api": "RandomState", "seed": 0, "n": 4, "size": 4, "popchunks": [4], "outsplit": False, "shuffle": True},
    {"api": "RandomState", "seed": 7, "n": 5, "size": 4, "popchunks": [], "outsplit": False, "shuffle": True},
    {"api": "Generator", "seed": 7, "n": 5, "size": 5, "popchunks": [], "outsplit": False, "shuffle": True},
    {"api": "Generator", "seed": 0, "n": 4, "size": 4, "popchunks": [], "outsplit": True, "shuffle": True},
    {"api": "Generator", "seed": 1, "n": 5, "size": 5, "popchunks": [2, 3], "outsplit": True, "shuffle": True},
    {"api": "RandomState", "seed": 1, "n": 5, "size": 5, "popchunks": [], "outsplit": True, "shuffle": True},
]
SELF_UNSEEDED = [
    {"srcs": ["module", "module"], "shape": [4], "chunks": [[2, 2]]},
    {"srcs": ["one-generator", "one-generator", "one-generator"], "shape": [2, 3], "chunks": [[2], [3]]},
    {"srcs": ["default_rng", "default_rng"], "shape": [4], "chunks": [[4]]},
    {"srcs": ["RandomState", "module-normal"], "shape": [4], "chunks": [[1, 3]]},
]


def _selftest_items():
    return ([("draw", (c, ["sync", "sync2", "threads", "fresh"])) for c in SELF_DRAWS] + [("choice", c) for c in SELF_CHOICES]
            + [("unseeded", c) for c in SELF_UNSEEDED])


MUTANTS = {   # name -> (function of dask.array.random, old text, new text)
    "name-ignores-seed": ("_wrap_func", "token = tokenize(bitgen_token, size, chunks, args, kwargs)", "token = tokenize(size, chunks, args, kwargs)"),
    "spawn-ignores-generator-seed": ("_spawn_bitgens", "seeds = bitgen._seed_seq.spawn(n_bitgens)", "seeds = np.random.SeedSequence().spawn(n_bitgens)"),
    "chunk-state-not-seeded": ("_apply_random", "state = RandomState(state_data)", "state = RandomState()"),
    "choice-replace-flag-dropped": ("_choice_rng", "replace=replace", "replace=True"),
    "choice-multichunk-guard-dropped": ("_choice_validate_params", "if not replace and len(chunks[0]) > 1:", "if False:"),
}


def _mutant_child(name):
    """Runs in a forked child: the mutant is installed there only."""
    import contextlib

    import dask.array.random as R
    from ..mutate import source_mutant
    cm = source_mutant(R, *MUTANTS[name]) if name else contextlib.nullcontext()
    with cm:
        try:
            return [_work(it) for it in _selftest_items()]
        finally:
            _close_pools()


def selftest(ctx):
    names = [None] + list(MUTANTS)
    outs = pmap(_mutant_child, names, procs=len(names), chunk=1, always=True)
    items = _selftest_items()
    flat = [(k, p[0]) if k == "draw" else (k, p) for k, p in items]
    ok = True
    allrecs, owner = [], {}
    for j, (nm, res) in enumerate(zip(names, outs)):
        recs, meta = to_records(flat, res)
        for r in recs:
            old = r["id"]
            r["id"] = "m%d_%s" % (j, old)
            owner[r["id"]] = (nm, meta[old])
        allrecs += recs
    spec, cfg = ctx.model(ctx.spec("array", "RandomTrace.tla"), {})
    rej = ctx.tlc_validate(spec, allrecs, cfg, timeout=600)
    sigs = {}
    for rid, texts in rej.items():
        nm, (kind, payload, r) = owner[rid]
        for cl in [c for t in texts for c in parse_clauses(t)]:
            sigs.setdefault(nm, set()).add(classify(kind, payload, cl))
    base = sigs.get(None, set())
    print("unmutated tree on the self-test cases: rejected signatures %s" % sorted(base))
    ok &= not base
    for nm in names[1:]:
        new = sorted(sigs.get(nm, set()) - base)
        print("mutant %s: %s (signatures: %s)" % (nm, "DETECTED" if new else "MISSED", new[:3]))
        ok &= bool(new)
    clean = [dict(r, id="c" + r["id"]) for r in allrecs if owner[r["id"]][0] is None and r["kind"] == "draw"][:2]
    bad = [dict(r, id="x" + r["id"], obs=r["obs"][:-1] + [dict(r["obs"][-1], fp=r["obs"][-1]["fp"] + 1)]) for r in clean]
    rj = ctx.tlc_validate(spec, clean + bad, cfg)
    good_rej = [k for k in rj if k.startswith("c")]
    bad_rej = [k for k in rj if k.startswith("x")]
    print("untouched records: %s; records with a corrupted fingerprint: %s" % ("accepted" if not good_rej else "REJECTED",
                                                                            "REJECTED" if len(bad_rej) == len(bad) else "accepted"))
    ok &= (not good_rej) and len(bad_rej) == len(bad)
    return 0 if ok else 1
