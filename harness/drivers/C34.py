"""C34 - array creation routines are chunk-invariant and equal NumPy.

spec -> code: TLC enumerates (specs/array/CreationMC.tla) every creation call of the bounded argument space
(arange over integers and dyadic rationals k/8, linspace, eye, tri, diag, diagonal, indices, fromfunction,
ones/zeros/full and *_like, meshgrid) with the exact result of the TLA+ reference (specs/array/Creation.tla)
and, per output / input shape, the list of explicit chunkings.  Every case is run on real dask under many
chunk specifications (explicit tuples, ints, -1, "auto", byte strings, dicts); each run must equal the
reference (content, shape, dtype class; dtype against NumPy) with valid lazy chunks - one reference for all
chunk specifications is the chunk-invariance clause.
code -> spec: random larger calls are recorded and decided by TLC (CreationTrace.tla); for non-dyadic
arange / linspace arguments, where the rational model is silent, the recorded single-chunk result is the
reference and TLC checks every other chunk specification against it."""
from __future__ import annotations

import math
import warnings
from fractions import Fraction

import numpy as np

from ..arrays import id_array, observe, py_chunks, raised
from ..core import TLA, MachineryError
from ..par import pmap

META = {
    "title": "Array creation routines are chunk-invariant and equal NumPy",
    "design_ref": "DESIGN.md §4.3 C34",
    "technique": "exact (integer / dyadic-rational) TLA+ reference of arange, linspace, eye, tri, diag, diagonal, indices, "
                 "fromfunction, full-family, meshgrid; TLC enumerates the argument space and chunkings; replay into dask under "
                 "every chunk specification + TLC validation of recorded calls and of chunk invariance for non-dyadic steps",
    "level_text": "Small-scope exhaustive: TLC enumerates arange(start, stop, step) over eighths (negative, fractional and zero "
                  "steps), linspace(num <= 7, endpoint, retstep), eye/tri(N, M, k), diag/diagonal(k, axes), indices, fromfunction, "
                  "ones/zeros/full(+_like), meshgrid(indexing, sparse) and the chunkings of every small output/input shape; each "
                  "case is run under explicit, int, -1, 'auto', byte-string and dict chunk specifications and must equal the one "
                  "reference result exactly (chunk invariance), with lazy chunks adding up to the shape and NumPy's dtype. Random "
                  "larger calls and non-dyadic arange/linspace (single-chunk result as reference) are decided by TLC from records.",
    "level_note": "Trusted: TLC, the TLA+ reference (cross-checked against NumPy on every case), the block-assembly projection. "
                  "Non-dyadic linspace values are compared with the exact rational within 8 ulp; for non-dyadic arange the TLA+ "
                  "model is silent about NumPy's float length rounding and the check is chunk invariance (values within 1e-6) plus "
                  "a Python-side comparison of the single-chunk result with NumPy. Bounded arguments.",
}

NONE = 99
OPS = ["arange", "linspace", "eye", "diag", "diagonal", "indices", "full", "meshgrid"]
INVS = ["CellCount", "ArangeContract", "LinspaceContract", "EyeIsTriDiff", "DiagRoundTrip", "MeshShapes", "ChunkingsValid"]


# --------------------------------------------------------------------------- arguments
def _num8(x, as_int):
    return x // 8 if as_int else x / 8.0


def _fromfunc(*ix):
    n = len(ix)
    return sum(i * 10 ** (n - 1 - d) for d, i in enumerate(ix))


def spec_shape(case):
    """The shape the `chunks=` argument of the call refers to (None: the call takes no chunks argument)."""
    op = case["op"]
    if op in ("arange", "linspace"):
        return None            # length known only from the reference
    if op in ("eye", "tri"):
        return [case["N"], case["N"] if case["M"] == NONE else case["M"]]
    if op in ("indices", "fromfunction", "full"):
        return list(case["shape"])
    return None


def input_shapes(case):
    op = case["op"]
    if op in ("diag", "diagonal"):
        return [list(case["shape"])]
    if op == "meshgrid":
        return [[n] for n in case["shape"]]
    return []


def chunks_arg(cs):
    """JSON chunk specification -> the Python object passed as chunks="""
    k = cs["k"]
    if k == "tuple":
        return py_chunks(cs["v"])
    if k == "int":
        return cs["v"]
    if k == "ints":
        return tuple(cs["v"])
    if k == "full":
        return -1
    if k == "auto":
        return "auto"
    if k == "bytes":
        return "%dB" % cs["v"]
    if k == "dict":
        return {int(a): b for a, b in cs["v"]}
    raise MachineryError("bad chunk spec %r" % (cs,))


def call(xp, case, cs, ins, v):
    """The creation call with module xp.  cs: chunk spec (dask only); ins: input arrays; v: spelling variant.
    Returns the result (array, or tuple/list of arrays for meshgrid; (array, step) for linspace with retstep)."""
    op = case["op"]
    alt = v.get("alt", 0)
    kw = {} if xp is np or cs is None else {"chunks": chunks_arg(cs)}
    if op == "arange":
        as_int = all(case[k] % 8 == 0 for k in ("a", "b", "s"))
        a, b, s = (_num8(case[k], as_int) for k in ("a", "b", "s"))
        if case["a"] == 0 and case["s"] == 8 and alt % 2:
            return xp.arange(b, **kw)
        if case["s"] == 8 and alt % 3 == 1:
            return xp.arange(a, b, **kw)
        return xp.arange(a, b, s, **kw)
    if op == "linspace":
        a, b = case["a"] / 8.0, case["b"] / 8.0
        if case["a"] % 8 == 0 and case["b"] % 8 == 0 and alt % 2:
            a, b = case["a"] // 8, case["b"] // 8
        return xp.linspace(a, b, case["num"], endpoint=case["endpoint"], retstep=bool(v.get("retstep")), **kw)
    if op in ("eye", "tri"):
        M = None if case["M"] == NONE else case["M"]
        dt = {"dtype": int} if v.get("intdtype") else {}
        if op == "eye":
            return xp.eye(case["N"], M=M, k=case["k"], **dt, **kw)
        return xp.tri(case["N"], M, case["k"], **dt, **kw)
    if op == "diag":
        return xp.diag(ins[0], case["k"]) if alt % 2 == 0 else xp.diag(ins[0], k=case["k"])
    if op == "diagonal":
        if alt % 2:
            return xp.diagonal(ins[0], case["k"], case["a1"], case["a2"])
        return xp.diagonal(ins[0], offset=case["k"], axis1=case["a1"], axis2=case["a2"])
    if op == "indices":
        return xp.indices(tuple(case["shape"]), **kw)
    if op == "fromfunction":
        if xp is np:
            return np.fromfunction(_fromfunc, tuple(case["shape"]), dtype=int)
        return xp.fromfunction(_fromfunc, shape=tuple(case["shape"]), dtype=int, **kw)
    if op == "full":
        shape = tuple(case["shape"])
        dt = {"dtype": int} if case["kind"] == "i" else {}
        val = case["v"]
        like = v.get("like")
        if like:
            tmpl = np.empty(shape, dtype=int if case["kind"] == "i" else float)
            if like == "da" and xp is not np:
                tmpl = xp.from_array(tmpl, chunks=-1)
            if val == 1 and alt % 2 == 0:
                return xp.ones_like(tmpl, **kw)
            if val == 0 and alt % 2 == 0:
                return xp.zeros_like(tmpl, **kw)
            return xp.full_like(tmpl, val, **kw)
        if val == 1 and alt % 2 == 0:
            return xp.ones(shape, **dt, **kw)
        if val == 0 and alt % 2 == 0:
            return xp.zeros(shape, **dt, **kw)
        if case["kind"] == "f":
            return xp.full(shape, float(val), **kw)
        return xp.full(shape, val, **dt, **kw)
    if op == "meshgrid":
        return xp.meshgrid(*ins, indexing="xy" if case["xy"] else "ij", sparse=case["sparse"])
    raise MachineryError("unknown op %r" % op)


def np_inputs(case):
    out = []
    for k, sh in enumerate(input_shapes(case)):
        n = int(np.prod(sh))
        out.append((np.arange(1, n + 1, dtype="i8") + 100 * k).reshape(tuple(sh)))
    return out


# --------------------------------------------------------------------------- exact comparison
def _pow2(n):
    return n > 0 and n & (n - 1) == 0


def value_matches(v, num, den, scale=0.0):
    """observed number v against the exact rational num/den: exactly when den is a power of two (the value is
    representable), within 8 ulp of the larger of the value and `scale` (the magnitude of the operands of
    start + i * step) otherwise."""
    try:
        fv = Fraction(float(v)) if not isinstance(v, (int, np.integer)) else Fraction(int(v))
    except (ValueError, OverflowError):
        return False
    if _pow2(den):
        return fv * den == num
    ref = num / den
    return abs(float(v) - ref) <= 8 * np.spacing(max(abs(float(v)), abs(ref), scale, 1e-300))


def compare(exp_r, arr):
    """-> None or clause name, for one array against [shape, cells, den]."""
    a = np.asarray(arr)
    if list(a.shape) != list(exp_r["shape"]):
        return "Shape"
    flat = a.ravel().tolist()
    if len(flat) != len(exp_r["cells"]):
        return "Shape"
    den = exp_r.get("den", 1)
    scale = exp_r.get("scale", 0.0)
    for v, c in zip(flat, exp_r["cells"]):
        if not value_matches(v, c, den, scale):
            return "Content"
    return None


def np_reference(case):
    """NumPy's result for the guard: {'err', 'arrays': [ndarray...], 'step'}"""
    try:
        with warnings.catch_warnings():
            warnings.simplefilter("ignore")
            r = call(np, case, None, np_inputs(case), {"alt": 0, "retstep": case["op"] == "linspace"})
        step = None
        if case["op"] == "linspace":
            r, step = r
        arrays = [np.asarray(x) for x in r] if case["op"] == "meshgrid" else [np.asarray(r)]
        return {"err": False, "arrays": arrays, "step": step}
    except Exception:  # noqa: BLE001
        return {"err": True}


def expected_arrays(case, e):
    r = e["r"]
    if case["op"] == "linspace":
        r = dict(r, scale=max(abs(case["a"]), abs(case["b"])) / 8.0)
    if case["op"] == "meshgrid":
        return [{"shape": o["shape"], "cells": o["cells"], "den": 1, "kind": "i"} for o in r["outs"]]
    return [r]


def guard(case, e):
    ref = np_reference(case)
    r = e["r"]
    if ref["err"] != r["err"]:
        return "numpy err=%s spec err=%s" % (ref["err"], r["err"])
    if ref["err"]:
        return None
    exps = expected_arrays(case, e)
    if len(exps) != len(ref["arrays"]):
        return "number of outputs"
    for ex, arr in zip(exps, ref["arrays"]):
        cl = compare(ex, arr)
        if cl:
            return "%s: numpy %r %r vs spec %r" % (cl, arr.shape, arr.ravel().tolist()[:8], ex)
        if arr.dtype.kind != ex["kind"] and not (arr.dtype.kind in "iu" and ex["kind"] == "i"):
            return "kind: numpy %s vs spec %s" % (arr.dtype, ex["kind"])
    if case["op"] == "linspace":
        st = e["step"]
        if st["nan"] != (isinstance(ref["step"], float) and math.isnan(ref["step"])):
            return "step nan"
        if not st["nan"] and not value_matches(ref["step"], st["num"], st["den"], max(abs(case["a"]), abs(case["b"])) / 8.0):
            return "step value"
    return None


# --------------------------------------------------------------------------- dask runs
def run_dask(case, run, whole=False):
    """run = {"cs": chunk spec or None, "ins": [chunking per input], "inkinds": [...], "v": variant}
    -> (list of (obs, ndarray or None), step, numpy dtypes)"""
    import dask
    import dask.array as da
    try:
        ins = []
        for x, ch, kind in zip(np_inputs(case), run["ins"], run["inkinds"]):
            ins.append(da.from_array(x, chunks=py_chunks(ch)) if kind == "da" else x)
        cfg = {"array.chunk-size": "64B"} if (run["cs"] or {}).get("k") == "auto" and run["v"].get("smallauto") else {}
        with warnings.catch_warnings(), dask.config.set(cfg):
            warnings.simplefilter("ignore")
            y = call(da, case, run["cs"], ins, run["v"])
            step = None
            if case["op"] == "linspace" and run["v"].get("retstep"):
                y, step = y
            ys = list(y) if case["op"] == "meshgrid" else [y]
            outs = []
            for yy in ys:
                if not isinstance(yy, da.Array):
                    return [({"raised": "", "lshape": [], "chunks": [], "cshape": [], "blocksok": False, "kind": "",
                              "msg": "result is %s, not a dask array" % type(yy).__name__, "dtype": ""}, None)], None
                obs, full = observe(yy, whole_too=whole)
                obs["dtype"] = str(yy.dtype)
                outs.append((obs, full))
        return outs, step
    except NotImplementedError as ex:
        return [({"skip": "NotImplementedError(%s): %s" % (case["op"], str(ex)[:50])}, None)], None
    except Exception as ex:  # noqa: BLE001
        o = raised(ex)
        o["msg"] = str(ex)[:200]
        o["dtype"] = ""
        return [(o, None)], None


def meta_ok(obs):
    if len(obs["chunks"]) != len(obs["cshape"]) or not obs["blocksok"]:
        return False
    for a, ch in enumerate(obs["chunks"]):
        if all(c >= 0 for c in ch) and (sum(ch) != obs["cshape"][a] or obs["lshape"][a] != obs["cshape"][a]):
            return False
    return True


def judge(case, e, outs, step, np_dtypes):
    """-> clause or None"""
    r = e["r"]
    if "skip" in outs[0][0]:
        return None
    if r["err"]:
        return None
    if any(o["raised"] for o, _ in outs):
        return "UnexpectedRaise"
    exps = expected_arrays(case, e)
    if len(exps) != len(outs):
        return "Outputs"
    for ex, (obs, full), npdt in zip(exps, outs, np_dtypes):
        if full is None:
            return "Meta"
        cl = compare(ex, full)
        if cl:
            return cl
        if not meta_ok(obs):
            return "Meta"
        if npdt is not None and obs["dtype"] != npdt:
            return "Dtype"
    if step is not None:
        st = e["step"]
        isnan = isinstance(step, float) and math.isnan(step)
        if st["nan"] != isnan or (not st["nan"] and not value_matches(step, st["num"], st["den"],
                                                                      max(abs(case["a"]), abs(case["b"])) / 8.0)):
            return "Step"
    return None


def chunk_specs_for(shape, explicit, rng, n, everything):
    """The chunk specifications a case with chunks-shape `shape` is run under."""
    nd = len(shape)
    specs = [{"k": "full"}, {"k": "auto"}, {"k": "int", "v": 1}, {"k": "int", "v": 2}, {"k": "int", "v": max(shape + [1]) + 1}]
    if nd >= 1:
        specs.append({"k": "ints", "v": [rng.randint(1, max(s, 1) + 1) for s in shape]})
        specs.append({"k": "dict", "v": [[rng.randrange(nd), rng.randint(1, 3)]]})
        specs.append({"k": "bytes", "v": 16})
    tuples = [{"k": "tuple", "v": c} for c in explicit]
    if everything:
        return specs + (tuples if len(tuples) <= 24 else rng.sample(tuples, 24))
    pick = rng.sample(specs, min(len(specs), max(1, n // 2))) + rng.sample(tuples, min(len(tuples), n - n // 2))
    return pick


def random_chunking(rng, n, zero_p=0.1):
    if n == 0:
        return [0]
    ch, left = [], n
    while left > 0:
        c = rng.randint(1, left)
        ch.append(c)
        left -= c
    if rng.random() < zero_p:
        ch.insert(rng.randint(0, len(ch)), 0)
    return ch


def make_runs(case, e, chunkings, rng, n, everything):
    op = case["op"]
    runs = []
    ins_shapes = input_shapes(case)

    def variant():
        v = {"alt": rng.randrange(6)}
        if op == "linspace":
            v["retstep"] = rng.random() < 0.5
        if op in ("eye", "tri"):
            v["intdtype"] = rng.random() < 0.3
        if op == "full":
            v["like"] = rng.choice([None, None, "np", "da"])
        v["smallauto"] = rng.random() < 0.5
        return v

    if op in ("diag", "diagonal", "meshgrid"):
        lists = [chunkings.get(tuple(s)) or [[random_chunking(rng, x) for x in s]] for s in ins_shapes]
        if everything and len(lists) == 1:
            combos = [[c] for c in (lists[0] if len(lists[0]) <= 24 else rng.sample(lists[0], 24))]
        else:
            combos = [[rng.choice(l) for l in lists] for _ in range(n)]
        for combo in combos:
            kinds = ["da"] * len(combo)
            if op == "meshgrid" and len(combo) > 1 and rng.random() < 0.3:
                kinds[rng.randrange(len(kinds))] = "np"
            runs.append({"cs": None, "ins": combo, "inkinds": kinds, "v": variant()})
        if op == "diag" and rng.random() < 0.3:
            runs.append({"cs": None, "ins": [lists[0][0]], "inkinds": ["np"], "v": variant()})
        return runs
    if op in ("arange", "linspace"):
        shape = list(e["r"]["shape"]) if not e["r"]["err"] else [1]
    else:
        shape = spec_shape(case)
    explicit = chunkings.get(tuple(shape))
    if explicit is None:
        explicit = [[random_chunking(rng, s) for s in shape] for _ in range(4)]
    if op in ("eye",):
        specs = [{"k": "int", "v": k} for k in range(1, max(shape + [1]) + 2)] + [{"k": "auto"}, {"k": "bytes", "v": 32}]
        if not everything:
            specs = rng.sample(specs, min(len(specs), n))
    else:
        specs = chunk_specs_for(shape, explicit, rng, n, everything)
    for cs in specs:
        runs.append({"cs": cs, "ins": [], "inkinds": [], "v": variant()})
    return runs


def _work(item):
    case, e, runs = item
    g = guard(case, e)
    if g:
        return [("GUARD", None, g)]
    ref = np_reference(case)
    res = []
    for run in runs:
        npd = [None]
        if not ref["err"]:
            npd = [str(a.dtype) for a in ref["arrays"]]
            if case["op"] in ("eye", "tri") and run["v"].get("intdtype"):
                npd = [str(np.dtype(int))]
            if case["op"] == "linspace" and run["v"].get("alt", 0) % 2:
                npd = [str(np.dtype(float))]
        outs, step = run_dask(case, run)
        if "skip" in outs[0][0]:
            res.append(("SKIP", run, outs[0][0]["skip"]))
            continue
        cl = judge(case, e, outs, step, npd)
        res.append((cl, run, {"obs": [o for o, _ in outs], "got": [None if f is None else np.asarray(f).ravel().tolist()[:64]
                                                                  for _, f in outs], "step": step} if cl else None))
    return res


def classify(case, clause, run, detail=None):
    """Input class of a violation: routine and the structural class of arguments / chunk specification that names
    the root cause (degenerate classes first), never concrete numbers."""
    op = case["op"]
    cs = run.get("cs") or {}
    kind = "raises" if clause == "UnexpectedRaise" else "wrong-result"
    exc = ""
    if clause == "UnexpectedRaise" and detail:
        exc = next((o["raised"] for o in detail["obs"] if o.get("raised")), "")
    shapes = input_shapes(case) or [spec_shape(case) or []]
    empty = any(int(np.prod(s)) == 0 for s in shapes if len(s))
    chs = list(run.get("ins") or []) + ([cs["v"]] if cs.get("k") == "tuple" else [])
    zero_chunk = any(0 in ax and sum(ax) > 0 for ch in chs for ax in ch)
    if op == "linspace" and clause == "Step" and (case["num"] - 1 if case["endpoint"] else case["num"]) <= 0:
        return "linspace:retstep-zero-divisor:wrong-step"
    if empty and clause == "UnexpectedRaise":
        return "%s:empty:raises" % op
    if op == "eye":
        M = case["N"] if case["M"] == NONE else case["M"]
        if case["N"] < M and not (cs.get("k") == "int" and cs["v"] <= case["N"]):
            return "eye:rows-shorter-than-chunk:%s" % kind
    if zero_chunk:
        return "%s:zero-chunk:%s" % (op, kind)
    return "%s:%s:%s" % (op, clause, exc or "basic")


def replay_cases(ctx, cases, chunkings, nruns, everything):
    items = [(c["c"], c["e"], make_runs(c["c"], c["e"], chunkings, ctx.rng, nruns, everything)) for c in cases]
    for (case, e, _r), res in zip(items, pmap(_work, items, chunk=16)):
        for cl, run, detail in res:
            if cl == "GUARD":
                raise MachineryError("TLA+ reference disagrees with NumPy on %r: %s" % (case, detail))
            if cl == "SKIP":
                ctx.skip(detail)
                continue
            r = e["r"]
            nontrivial = (not r["err"]) and (len(r["cells"]) > 0 or case["op"] == "meshgrid")
            ctx.count((case, run), nontrivial)
            if cl:
                ctx.violation(classify(case, cl, run, detail), "%s: dask %s disagrees with the reference" % (cl, case["op"]),
                              {"case": case, "expected": e, "run": run, "observed": detail})
    return items


# --------------------------------------------------------------------------- code -> spec
def random_call(rng):
    op = rng.choice(["arange", "arange", "eye", "tri", "diag", "diagonal", "indices", "fromfunction", "full"])
    if op == "arange":
        s = rng.choice([-24, -16, -8, -3, -2, -1, 1, 2, 3, 4, 8, 16, 20])
        a, b = rng.randrange(-120, 121), rng.randrange(-120, 121)
        if rng.random() < 0.4:
            a, b, s = 8 * (a // 8), 8 * (b // 8), 8 * max(1, abs(s) // 3) * (1 if s > 0 else -1)
        if abs(b - a) // abs(s) > 90:
            s *= 4
        return {"op": "arange", "a": a, "b": b, "s": s}
    if op in ("eye", "tri"):
        N = rng.randrange(0, 8)
        return {"op": op, "N": N, "M": rng.choice([NONE, rng.randrange(0, 8)]), "k": rng.randrange(-8, 9)}
    if op == "diag":
        sh = [rng.randrange(0, 7)] if rng.random() < 0.5 else [rng.randrange(1, 6), rng.randrange(1, 6)]
        return {"op": "diag", "shape": sh, "k": rng.randrange(-4, 5)}
    if op == "diagonal":
        nd = rng.choice([2, 3])
        sh = [rng.randrange(1, 6) for _ in range(nd)]
        a1, a2 = rng.sample(range(nd), 2)
        if rng.random() < 0.3:
            a1, a2 = a1 - nd, a2 - nd
        return {"op": "diagonal", "shape": sh, "k": rng.randrange(-4, 5), "a1": a1, "a2": a2}
    nd = rng.choice([1, 2, 3])
    sh = [rng.randrange(0 if rng.random() < 0.1 else 1, 6) for _ in range(nd)]
    if op == "full":
        return {"op": "full", "shape": sh, "v": rng.choice([0, 1, 7]), "kind": rng.choice(["i", "f"])}
    return {"op": op, "shape": sh}


def random_runs(ctx, n):
    items = []
    rng = ctx.rng
    for i in range(n):
        case = random_call(rng)
        ins = [[random_chunking(rng, s) for s in sh] for sh in input_shapes(case)]
        cs = None
        if not ins:
            shape = spec_shape(case)
            if case["op"] == "eye":
                cs = rng.choice([{"k": "int", "v": rng.randint(1, 9)}, {"k": "auto"}])
            elif shape is None:
                cs = rng.choice([{"k": "int", "v": rng.randint(1, 12)}, {"k": "auto"}, {"k": "full"}, {"k": "bytes", "v": 32}])
            else:
                cs = rng.choice([{"k": "tuple", "v": [random_chunking(rng, s) for s in shape]},
                                 {"k": "ints", "v": [rng.randint(1, max(s, 1) + 1) for s in shape]},
                                 {"k": "int", "v": rng.randint(1, 6)}, {"k": "auto"}, {"k": "full"}])
        v = {"alt": rng.randrange(6), "smallauto": rng.random() < 0.5, "like": rng.choice([None, "np", "da"])}
        items.append(("r%d" % i, case, {"cs": cs, "ins": ins, "inkinds": ["da"] * len(ins), "v": v}))
    return items


def _scaled_cells(full, den):
    out = []
    for v in np.asarray(full).ravel().tolist():
        try:
            f = Fraction(v) * den
        except (ValueError, OverflowError, TypeError):       # nan / inf / non-numbers
            return None
        if f.denominator != 1 or abs(f) >= 2 ** 30:
            return None
        out.append(int(f))
    return out


def _record(item):
    rid, case, run = item
    outs, _ = run_dask(case, run, whole=True)
    obs, full = outs[0]
    if "skip" in obs:
        return {"skip": obs["skip"]}
    den = 8 if case["op"] == "arange" else 1
    o = {k: v for k, v in obs.items() if k not in ("msg", "dtype")}
    o["cells"] = []
    if full is not None:
        sc = _scaled_cells(full, den)
        if sc is None:
            o["cells"] = [-999999]            # a value that is not a multiple of 1/den: never equal to the reference
        else:
            o["cells"] = sc
        o["kind"] = "i" if np.asarray(full).dtype.kind in "iu" else np.asarray(full).dtype.kind
    return {"id": rid, "fam": "call", "c": case, "run": run, "obs": o}


NONDYADIC = [0.1, 0.3, 1.0 / 3, 0.7, 0.05, 1.1, 2.0 / 7]


def inv_items(ctx, n):
    """arange / linspace with non-dyadic arguments: (id, kind, args)"""
    rng = ctx.rng
    items = []
    for i in range(n):
        if rng.random() < 0.7:
            step = rng.choice(NONDYADIC) * rng.choice([1, 1, -1])
            start = rng.choice([0, 0.1, -0.3, 1.0 / 3, 2.5, 1, -2])
            length = rng.choice([0, 1, 2, 3, 5, 7, 10, 13, 20, 33, 50])
            # stops at and around the exact multiple, where float rounding decides the length
            stop = start + step * length + rng.choice([0, 0, 1e-12, -1e-12, step / 3])
            args = {"f": "arange", "start": start, "stop": stop, "step": step}
        else:
            args = {"f": "linspace", "start": rng.choice([0, 0.1, -1.0 / 3, 2]), "stop": rng.choice([1, 0.9, 10.0 / 3, -1.7]),
                    "num": rng.randrange(0, 40), "endpoint": rng.random() < 0.5}
        specs = [{"k": "int", "v": rng.randint(1, 9)} for _ in range(2)] + [{"k": "auto"}, {"k": "bytes", "v": 32}]
        items.append(("v%d" % i, args, specs))
    return items


def _inv_obs(args, cs):
    import dask
    import dask.array as da
    try:
        with warnings.catch_warnings(), dask.config.set({"array.chunk-size": "64B"} if cs["k"] == "auto" else {}):
            warnings.simplefilter("ignore")
            if args["f"] == "arange":
                y = da.arange(args["start"], args["stop"], args["step"], chunks=chunks_arg(cs))
            else:
                y = da.linspace(args["start"], args["stop"], args["num"], endpoint=args["endpoint"], chunks=chunks_arg(cs))
            obs, full = observe(y, whole_too=True)
        o = {k: v for k, v in obs.items() if k not in ("msg",)}
        o["cells"] = [int(round(float(v) * 1e6)) for v in np.asarray(full).ravel().tolist()] if full is not None else []
        return o, full
    except Exception as ex:  # noqa: BLE001
        o = raised(ex)
        o["cells"] = []
        return o, None


def _inv_record(item):
    rid, args, specs = item
    ref, full = _inv_obs(args, {"k": "full"})
    recs = []
    # Python-side: the single-chunk result against NumPy (length exactly, values within 8 ulp)
    npclause = None
    try:
        with warnings.catch_warnings():
            warnings.simplefilter("ignore")
            if args["f"] == "arange":
                r = np.arange(args["start"], args["stop"], args["step"])
            else:
                r = np.linspace(args["start"], args["stop"], args["num"], endpoint=args["endpoint"])
        if ref["raised"]:
            npclause = "UnexpectedRaise"
        elif full is None or np.asarray(full).shape != r.shape:
            npclause = "LengthVsNumPy"
        elif not all(abs(float(x) - float(y)) <= 8 * np.spacing(max(abs(float(x)), abs(float(y)), 1e-300))
                     for x, y in zip(np.asarray(full).tolist(), r.tolist())):
            npclause = "ValuesVsNumPy"
    except Exception:  # noqa: BLE001 - NumPy raises: no reference
        pass
    for j, cs in enumerate(specs):
        obs, _ = _inv_obs(args, cs)
        recs.append({"id": "%s_%d" % (rid, j), "fam": "inv", "args": args, "cs": cs, "ref": ref, "obs": obs})
    return {"recs": recs, "npclause": npclause, "args": args, "ref": ref}


def validate(ctx, recs, label, report=True):
    spec, cfg = ctx.model(ctx.spec("array", "CreationTrace.tla"), {})
    out = {}
    for lo in range(0, len(recs), 10000):
        part = recs[lo:lo + 10000]
        slim = []
        for r in part:
            s = {"id": r["id"], "fam": r["fam"], "obs": {k: v for k, v in r["obs"].items() if k not in ("msg", "dtype")}}
            if r["fam"] == "call":
                s["c"] = r["c"]
            else:
                s["ref"] = {k: v for k, v in r["ref"].items() if k not in ("msg", "dtype")}
            slim.append(s)
        rej = ctx.tlc_validate(spec, slim, cfg, timeout=1800, label="trace-validation:" + label)
        byid = {r["id"]: r for r in part}
        for rid, clauses in sorted(rej.items()):
            r = byid[rid]
            cl = next((n for n in ("UnexpectedRaise", "Shape", "Content", "Kind", "Meta", "ChunkInvariance") if '"%s"' % n in clauses[0]),
                      "Rejected")
            out[rid] = cl
            if report:
                if r["fam"] == "call":
                    sig = classify(r["c"], cl, r["run"], {"obs": [r["obs"]]})
                else:
                    sig = "%s-nondyadic:%s:%s" % (r["args"]["f"], cl, r["cs"]["k"])
                ctx.violation(sig, "TLC rejects a recorded creation call (%s)" % clauses[0], {"record": r, "clauses": clauses})
    return out


def enumerate_cases(ctx, consts, label):
    spec, cfg = ctx.model(ctx.spec("array", "CreationMC.tla"), consts, invariants=INVS)
    cases, _ = ctx.tlc_cases(spec, cfg, label="design+cases:" + label, timeout=2400)
    chunkings = {tuple(c["c"]["shape"]): c["e"]["all"] for c in cases if c["c"]["op"] == "chunkspecs"}
    return [c for c in cases if c["c"]["op"] != "chunkspecs"], chunkings


def constants(ctx):
    return {"Ops": set(OPS),
            "Starts": TLA(ctx.pick("{-48, -13, -8, 0, 3, 8, 20}", "{-48, -24, -13, -8, -5, 0, 3, 8, 12, 20, 48}")),
            "Steps": TLA(ctx.pick("{-24, -8, -3, -1, 0, 1, 2, 3, 8, 12}", "{-24, -12, -8, -3, -2, -1, 0, 1, 2, 3, 8, 12, 24}")),
            "LinEnds": TLA(ctx.pick("{-16, -5, 0, 3, 8}", "{-16, -5, 0, 3, 8, 24}")),
            "MaxNum": ctx.pick(6, 7), "MaxN": ctx.pick(3, 5),
            "Shapes2": TLA(ctx.pick("{<<2, 3>>, <<3, 3>>, <<3, 2>>, <<1, 4>>}", "{<<2, 3>>, <<3, 3>>, <<3, 2>>, <<1, 4>>, <<4, 4>>, <<0, 2>>}")),
            "MeshLens": TLA("{<<3>>, <<2, 3>>, <<3, 1, 2>>, <<0, 2>>, <<1, 1>>}"),
            "FullShapes": TLA(ctx.pick("{<<0>>, <<4>>, <<2, 3>>, <<2, 1, 2>>, <<0, 2>>}",
                                       "{<<0>>, <<1>>, <<4>>, <<2, 3>>, <<4, 4>>, <<2, 1, 2>>, <<0, 2>>, <<3, 2, 2>>}"))}


def run(ctx):
    cases, chunkings = enumerate_cases(ctx, constants(ctx), "creation")
    total = len(cases)
    items = replay_cases(ctx, cases, chunkings, ctx.pick(4, 8), not ctx.quick)
    for it in items[:3]:
        ctx.sample({"case": it[0], "expected": {k: (v if k != "cells" else v[:12]) for k, v in it[1]["r"].items()},
                    "run": it[2][0] if it[2] else None})
    # code -> spec: recorded random larger calls, decided by TLC against the reference
    recs = []
    for r in pmap(_record, random_runs(ctx, ctx.pick(1500, 30000)), chunk=32):
        if "skip" in r:
            ctx.skip(r["skip"])
            continue
        recs.append(r)
        ctx.count(("rec", r["c"], r["run"]), r["obs"]["raised"] == "" and len(r["obs"]["cells"]) > 0)
    # chunk invariance for non-dyadic arguments: single-chunk observation is the reference, TLC decides
    inv = []
    for r in pmap(_inv_record, inv_items(ctx, ctx.pick(600, 12000)), chunk=32):
        for rec in r["recs"]:
            inv.append(rec)
            ctx.count(("inv", rec["args"], rec["cs"]), len(rec["ref"]["cells"]) > 0)
        if r["npclause"]:
            ctx.violation("%s-nondyadic:%s:single-chunk" % (r["args"]["f"], r["npclause"]),
                          "the single-chunk result differs from NumPy (%s)" % r["npclause"],
                          {"nondyadic": r["args"], "observed": r["ref"]})
    validate(ctx, recs + inv, "recorded-calls")
    if recs:
        ctx.sample({"recorded_call": {"case": recs[0]["c"], "run": recs[0]["run"]}})
    if inv:
        ctx.sample({"nondyadic_call": {"args": inv[0]["args"], "chunks": inv[0]["cs"]}})
    ctx.exhaustive = False      # chunk specifications are sampled when a shape has more than 24 chunkings
    ctx.extra["cases_enumerated_by_tlc"] = total
    ctx.extra["chunkings_enumerated_by_tlc"] = sum(len(v) for v in chunkings.values())
    ctx.rule = ("cases = TLC-enumerated creation calls x chunk specifications (explicit chunkings enumerated by TLC, ints, -1, auto, "
                "byte strings, dicts) x spellings, recorded random calls, non-dyadic arange/linspace x chunk specifications; "
                "non-trivial = NumPy does not raise and the result is non-empty")
    ctx.assumptions = ["NumPy kernels per block are correct", "TLC evaluates the reference correctly",
                       "8-ulp tolerance for non-dyadic linspace values; 1e-6 units for non-dyadic chunk invariance"]


# --------------------------------------------------------------------------- replay
def replay(ctx, obj):
    c = obj["case"]
    if "record" in c:
        r = c["record"]
        if r["fam"] == "call":
            rec = _record((r["id"], r["c"], r["run"]))
        else:
            ref, _ = _inv_obs(r["args"], {"k": "full"})
            obs, _ = _inv_obs(r["args"], r["cs"])
            rec = dict(r, ref=ref, obs=obs)
        rej = validate(ctx, [rec], "replay", report=False)
        print("observed:", rec["obs"], "rejected:", rej)
        return bool(rej)
    if "nondyadic" in c:
        r = _inv_record(("x", c["nondyadic"], []))
        print("single-chunk observation:", r["ref"], "clause:", r["npclause"])
        return r["npclause"] is not None
    case, e, run = c["case"], c["expected"], c["run"]
    ref = np_reference(case)
    npd = [None] if ref["err"] else [str(a.dtype) for a in ref["arrays"]]
    if case["op"] in ("eye", "tri") and run["v"].get("intdtype"):
        npd = [str(np.dtype(int))]
    if case["op"] == "linspace" and run["v"].get("alt", 0) % 2:
        npd = [str(np.dtype(float))]
    outs, step = run_dask(case, run)
    cl = judge(case, e, outs, step, npd)
    print("case:", case, "\nrun:", run, "\nobserved:", [o for o, _ in outs], [None if f is None else np.asarray(f).tolist() for _, f in outs],
          "\nclause:", cl)
    return cl is not None


# --------------------------------------------------------------------------- selftest
def _selftest_replay(cases, chunkings, seed=5):
    import random
    rng = random.Random(seed)
    bad, sigs = 0, set()
    for c in cases:
        case, e = c["c"], c["e"]
        if e["r"]["err"]:
            continue
        ref = np_reference(case)
        npd = [str(a.dtype) for a in ref["arrays"]]
        for run in make_runs(case, e, chunkings, rng, 4, False):
            run["v"]["intdtype"] = False
            outs, step = run_dask(case, run)
            if "skip" in outs[0][0]:
                continue
            cl = judge(case, e, outs, step, npd)
            if cl:
                bad += 1
                sigs.add(classify(case, cl, run, {"obs": [o for o, _ in outs]}))
    return bad, sigs


def selftest(ctx):
    import copy
    import importlib
    from ..srcmut import mutant
    creation = importlib.import_module("dask.array.creation")
    import dask.array as da
    ok = True
    consts = {"Ops": {"arange", "linspace", "diagonal", "meshgrid"}, "Starts": TLA("{-13, 0, 8}"), "Steps": TLA("{-3, 2, 8}"),
              "LinEnds": TLA("{-5, 0, 8}"), "MaxNum": 5, "MaxN": 3, "Shapes2": TLA("{<<2, 3>>, <<3, 3>>}"),
              "MeshLens": TLA("{<<2, 3>>, <<3, 1, 2>>}"), "FullShapes": TLA("{<<2>>}")}
    cases, chunkings = enumerate_cases(ctx, consts, "selftest")
    # inputs on which unmutated dask is right (the known degenerate classes are left out)
    cases = [c for c in cases if not (c["c"]["op"] == "linspace" and c["c"]["num"] <= 1)
             and not (c["c"]["op"] == "diagonal" and c["c"]["shape"] not in ([2, 3], [3, 3]))]
    chunkings = {k: [c for c in v if not any(0 in ax for ax in c)] for k, v in chunkings.items()}
    base, sigs = _selftest_replay(cases, chunkings)
    print("selftest C34: unmutated dask on the self-test case set (%d cases): %d violations %s -> %s"
          % (len(cases), base, sorted(sigs), "ok" if base == 0 else "FAILED"))
    ok &= base == 0
    mutants = [
        ("M1 chunk.arange: drop the last element when len(res) > length -> >= length  [boundary off by one]", "chunk:arange",
         "return res[:-1] if len(res) > length else res", "return res[:-1] if len(res) >= length else res"),
        ("M2 creation.linspace: next block starts at blockstart + step*bs -> step*bs_space  [wrong operand, only visible with >1 chunk]",
         "linspace", "blockstart = blockstart + (step * bs)", "blockstart = blockstart + (step * bs_space)"),
        ("M3 creation.diagonal: kdiag_row_stop uses shape[axis2] - k -> + k  [sign slip]", "diagonal",
         "kdiag_row_stop = min(a.shape[axis1], a.shape[axis2] - k)", "kdiag_row_stop = min(a.shape[axis1], a.shape[axis2] + k)"),
        ("M4 creation.meshgrid: 'xy' outputs not swapped back  [dropped step]", "meshgrid",
         "grid = (grid[1], grid[0], *grid[2:])", "grid = (grid[0], grid[1], *grid[2:])"),
    ]
    chunkmod = importlib.import_module("dask.array.chunk")
    for title, fn, old, new in mutants:
        mod = creation
        if fn.startswith("chunk:"):
            mod, fn = chunkmod, fn.split(":")[1]
        with mutant(mod, fn, old, new) as f:
            saved = getattr(da, fn) if mod is creation else None
            if saved is not None:
                setattr(da, fn, f)
            try:
                n, sigs = _selftest_replay(cases, chunkings)
            finally:
                if saved is not None:
                    setattr(da, fn, saved)
        print("selftest C34: mutant %s: %d violations %s -> %s" % (title, n, sorted(sigs)[:3], "DETECTED" if n > 0 else "MISSED"))
        ok &= n > 0
    # (ii) corrupted recorded fields are rejected by the trace specification
    good = []
    for item in random_runs(ctx, 60):
        r = _record(item)
        if "skip" not in r and r["obs"]["raised"] == "" and len(r["obs"]["cells"]) > 2 and len(set(r["obs"]["cells"])) > 1:
            rej0 = None
            good.append(r)
        if len(good) == 6:
            break
    pre = validate(ctx, good, "selftest-pre", report=False)
    good = [r for r in good if r["id"] not in pre][:2]       # records of calls on which dask is right
    inv = _inv_record(("s0", {"f": "arange", "start": 0.1, "stop": 2.05, "step": 0.3}, [{"k": "int", "v": 2}]))["recs"][0]
    c1 = copy.deepcopy(good[0]); c1["id"] = "c_cells"
    c1["obs"]["cells"] = sorted(c1["obs"]["cells"]) if sorted(c1["obs"]["cells"]) != c1["obs"]["cells"] else c1["obs"]["cells"][::-1]
    c2 = copy.deepcopy(good[1]); c2["id"] = "c_kind"; c2["obs"]["kind"] = "f" if c2["obs"]["kind"] == "i" else "i"
    c3 = copy.deepcopy(inv); c3["id"] = "c_inv_len"; c3["obs"]["cells"] = c3["obs"]["cells"][:-1]
    c3["obs"]["cshape"] = [len(c3["obs"]["cells"])]
    c4 = copy.deepcopy(inv); c4["id"] = "c_inv_val"; c4["obs"]["cells"][1] += 5
    rej = validate(ctx, good + [inv, c1, c2, c3, c4], "selftest", report=False)
    for r in good + [inv]:
        print("selftest C34: uncorrupted record %s -> %s" % (r["id"], "accepted" if r["id"] not in rej else "rejected  FAILED"))
        ok &= r["id"] not in rej
    for r in (c1, c2, c3, c4):
        print("selftest C34: corrupted record %s -> %s" % (r["id"], ("rejected (%s)" % rej[r["id"]]) if r["id"] in rej else "accepted  FAILED"))
        ok &= r["id"] in rej
    print("selftest C34: %s" % ("all binding checks hold" if ok else "FAILED"))
    return 0 if ok else 1
