"""C10 - high-level graph culling and blockwise fusion are sound.

spec -> code: TLC grows (specs/graph/BlockwiseMC.tla) stacks of blockwise layers over a menu of index
patterns (elementwise, transpose, contraction with and without concatenate, broadcast, new axis, literal /
constant-key / BlockIndex arguments) and exports, per stack, the term every block denotes, the dependencies of
every block and what culling must keep for a family of requests (specs/graph/Blockwise.tla: Den, Deps, Cull);
annotation sequences come from BlockwiseAnnMC.tla (design check of FuseAnn).  Every case is built with
dask.blockwise.blockwise over materialized Herbrand leaf layers in a HighLevelGraph and run through the real
HighLevelGraph.cull / Layer.cull / optimize_blockwise / fuse_roots; results are evaluated with dask.core.get /
dask.local.get_sync and compared with the TLC-exported expectation.
code -> spec: the same observations for seeded random larger stacks, for every annotation case, for a sample of
the enumerated cases and for every observation the replay judged broken are written as call records and decided
by TLC (BlockwiseTrace.tla)."""
from __future__ import annotations

import itertools
import json
import random

import numpy as np

from ..core import TLA, MachineryError
from ..par import pmap

META = {
    "title": "High-level graph culling and blockwise fusion are sound",
    "design_ref": "DESIGN.md §4.2 C10",
    "technique": "TLA+ semantics of stacks of blockwise layers over uninterpreted block functions (denotation, block "
                 "dependencies, least culled set, annotation fusion); TLC enumerates stacks x requests with expected results; "
                 "replay into HighLevelGraph.cull / Blockwise.cull / optimize_blockwise / fuse_roots + TLC validation of records",
    "level_text": "Small-scope: TLC enumerates stacks of up to 3 blockwise layers over 2 leaf collections and a constant key from a "
                  "menu of index patterns (elementwise, transpose, contraction +/- concatenate, broadcast, new axis, literal / key / "
                  "BlockIndex arguments), numblocks in {1,2,3}, every output-block subset of small layers and requests spanning two "
                  "layers, and annotation sequences over the five special keys (exhaustive per key, hashed sample of mixtures); "
                  "higher levels are thinned by a seeded hash.  Seeded random larger stacks are decided by TLC from recorded calls.",
    "level_note": "Trusted: TLC, the string-term projection of block values (Herbrand functions on 1-element object arrays), the "
                  "harness grouping of fused layers (absorbed = absent from the optimized graph and reachable through absent layers). "
                  "Bounded stacks; dask.array.core.concatenate_axes is trusted for concatenate=True; BlockwiseDep with "
                  "produces_keys, clone() and distributed packing are not covered.",
}

TLC_OPTS = {"heap": "2g", "env": {"JAVA_TOOL_OPTIONS": "-XX:ParallelGCThreads=2"}}
NOANN = {"pri": [], "ret": [], "res": [], "wrk": [], "aow": []}


# ---------------------------------------------------------------- Herbrand block functions
def fmt(a):
    """Canonical string of what a block function was handed (twin of ListStr / Call in Blockwise.tla)."""
    if isinstance(a, np.ndarray):
        return fmt(a.item()) if a.size == 1 else fmt(a.tolist())
    if isinstance(a, (list, tuple)):
        return "[" + ",".join(fmt(x) for x in a) + "]"
    return str(a)


class HF:
    """Uninterpreted block function: the value of a block IS the term, carried in a 1-element object array of the
    block's rank (so that concatenate=True can concatenate blocks)."""
    __slots__ = ("label", "nd")

    def __init__(self, label, nd):
        self.label, self.nd = label, nd

    def __call__(self, *args):
        out = np.empty((1,) * self.nd, dtype=object)
        out[(0,) * self.nd] = self.label + "(" + ",".join(fmt(a) for a in args) + ")"
        return out

    def __repr__(self):
        return "HF(%s)" % self.label

    def __reduce__(self):
        return (HF, (self.label, self.nd))

    def __eq__(self, other):
        return type(other) is HF and (self.label, self.nd) == (other.label, other.nd)

    def __hash__(self):
        return hash(("HF", self.label, self.nd))

    def __dask_tokenize__(self):
        return ("C10.HF", self.label, self.nd)


class CallableAnn:
    """A callable annotation value (dask.annotate documents priority=lambda key: ...)."""
    def __init__(self, ident):
        self.ident = ident

    def __call__(self, key):
        return self.ident

    def __eq__(self, other):
        return type(other) is CallableAnn and self.ident == other.ident

    def __hash__(self):
        return hash(("CallableAnn", self.ident))


# ---------------------------------------------------------------- stacks: Python twin of the *shape* rules only
def dim_of(L, ix):
    """Number of blocks along index ix (twin of DimOf; used by the generators and for key enumeration)."""
    for na in L["nax"]:
        if na["ix"] == ix:
            return na["n"]
    sizes = {a["nb"][q] for a in L["args"] if a["k"] in ("coll", "bidx") for q, i in enumerate(a["ind"]) if i == ix}
    if len(sizes) > 1:
        sizes.discard(1)
    if len(sizes) != 1:
        raise ValueError("inconsistent numblocks for %r in %r" % (ix, L))
    return next(iter(sizes))


def out_nb(L):
    return [dim_of(L, ix) for ix in L["oi"]]


def nb_of(stack, name):
    for lf in stack["leaves"]:
        if lf["name"] == name:
            return list(lf["nb"])
    for L in stack["layers"]:
        if L["out"] == name:
            return out_nb(L)
    raise KeyError(name)


def box(nb):
    return list(itertools.product(*[range(n) for n in nb]))


def all_keys(stack):
    ks = []
    for lf in stack["leaves"]:
        ks += [{"n": lf["name"], "c": list(c)} for c in box(lf["nb"])]
    for L in stack["layers"]:
        ks += [{"n": L["out"], "c": list(c)} for c in box(out_nb(L))]
    ks += [{"n": c, "c": []} for c in stack["consts"]]
    return ks


def pykey(k, consts):
    return k["n"] if k["n"] in consts else (k["n"],) + tuple(k["c"])


def speckey(key, names):
    if isinstance(key, str):
        return {"n": key, "c": []} if key in names else None
    if type(key) is tuple and key and isinstance(key[0], str) and key[0] in names and all(type(i) is int for i in key[1:]):
        return {"n": key[0], "c": list(key[1:])}
    return None


def kid(k):
    return (k["n"], tuple(k["c"]))


def ann_kwargs(a):
    """annotation record -> keyword arguments of dask.annotate."""
    kw = {}
    if a["pri"]:
        kw["priority"] = a["pri"][0]
    if a["ret"]:
        kw["retries"] = a["ret"][0]
    if a["res"]:
        kw["resources"] = {x["r"]: x["v"] for x in a["res"][0]}
    if a["wrk"]:
        kw["workers"] = list(a["wrk"][0])
    if a["aow"]:
        kw["allow_other_workers"] = bool(a["aow"][0])
    for c in a.get("cal", []):
        kw[{"pri": "priority", "ret": "retries"}[c["k"]]] = CallableAnn(c["id"])
    return kw


def proj_ann(d):
    """layer.annotations -> annotation record of the specification (+ bad: an entry the record cannot express)."""
    d = dict(d or {})
    out = {"pri": [], "ret": [], "res": [], "wrk": [], "aow": [], "cal": [], "bad": False}
    for name, f in (("priority", "pri"), ("retries", "ret")):
        if name in d:
            v = d.pop(name)
            if isinstance(v, CallableAnn):
                out["cal"].append({"k": f, "id": v.ident})
            elif type(v) is int and abs(v) < 10 ** 6:
                out[f] = [v]
            else:
                out["bad"] = True
    if "resources" in d:
        v = d.pop("resources")
        if isinstance(v, dict) and all(isinstance(r, str) and type(x) is int for r, x in v.items()):
            out["res"] = [[{"r": r, "v": x} for r, x in sorted(v.items())]]
        else:
            out["bad"] = True
    if "workers" in d:
        v = d.pop("workers")
        if isinstance(v, (list, tuple, set)) and all(isinstance(w, str) for w in v):
            out["wrk"] = [sorted(v)]
        else:
            out["bad"] = True
    if "allow_other_workers" in d:
        v = d.pop("allow_other_workers")
        if isinstance(v, bool):
            out["aow"] = [v]
        else:
            out["bad"] = True
    if d:
        out["bad"] = True
    out["cal"].sort(key=lambda c: c["k"])
    return out


def build(stack, variant):
    """The stack as a real HighLevelGraph: materialized Herbrand leaf layers (Task objects or legacy tuples),
    a materialized constant layer, one dask.blockwise.blockwise layer per specification layer."""
    import dask
    from dask._task_spec import Alias, Task, TaskRef
    from dask.blockwise import BlockIndex, blockwise
    from dask.highlevelgraph import HighLevelGraph, MaterializedLayer
    layers, deps = {}, {}
    for i, lf in enumerate(stack["leaves"]):
        name, nb = lf["name"], lf["nb"]
        legacy = variant["leaf"] == "legacy" or (variant["leaf"] == "mixed" and i % 2 == 1)
        d = {}
        for c in box(nb):
            k = (name,) + c
            d[k] = (HF(name, len(nb)),) + c if legacy else Task(k, HF(name, len(nb)), *c)
        kw = ann_kwargs(lf.get("ann", NOANN))
        layers[name] = MaterializedLayer(d, annotations=kw or None)
        deps[name] = set()
    for cn in stack["consts"]:
        # a second, never needed key makes culling of this layer observable
        d = {cn: Task(cn, HF(cn, 0)), cn + "-unused": Task(cn + "-unused", HF(cn + "-unused", 0))}
        layers[cn] = MaterializedLayer(d)
        deps[cn] = set()
    for L in stack["layers"]:
        pairs, numblocks, ldeps = [], {}, set()
        for a in L["args"]:
            if a["k"] == "coll":
                pairs += [a["name"], tuple(a["ind"])]
                numblocks[a["name"]] = tuple(a["nb"])
                ldeps.add(a["name"])
            elif a["k"] == "lit":
                pairs += [a["v"], None]
            elif a["k"] == "key":
                pairs += [(Alias if a["sp"] == "alias" else TaskRef)(a["name"]), None]
                ldeps.add(a["name"])
            elif a["k"] == "bidx":
                pairs += [BlockIndex(tuple(a["nb"])), tuple(a["ind"])]
            else:
                raise MachineryError("unknown argument kind %r" % (a,))
        new_axes = {na["ix"]: (1 if na["n"] == 1 else (1,) * na["n"]) for na in L["nax"]}
        with dask.annotate(**ann_kwargs(L.get("ann", NOANN))):
            bw = blockwise(HF(L["out"], len(L["oi"])), L["out"], tuple(L["oi"]), *pairs, numblocks=numblocks,
                           concatenate=True if L["conc"] else None, new_axes=new_axes or None)
        layers[L["out"]] = bw
        deps[L["out"]] = ldeps
    return HighLevelGraph(layers, deps)


def _unwrap(v):
    if isinstance(v, np.ndarray) and v.size == 1:
        v = v.item()
    return v if isinstance(v, str) else "?" + type(v).__name__


def _pipes():
    from dask.blockwise import fuse_roots, optimize_blockwise
    return {
        "cull": (True, lambda h, ks: h.cull(set(ks))),
        "cull2": (True, lambda h, ks: h.cull(set(ks)).cull(set(ks))),
        "opt": (False, lambda h, ks: optimize_blockwise(h, keys=ks)),
        "roots": (False, lambda h, ks: fuse_roots(optimize_blockwise(h, keys=ks), ks)),
        "array": (False, lambda h, ks: fuse_roots(optimize_blockwise(h, keys=ks), ks).cull(set(ks))),
        "cullopt": (False, lambda h, ks: optimize_blockwise(h.cull(set(ks)), keys=ks)),
        # fusion must not change the graph it was given: optimize, then evaluate the ORIGINAL graph
        "optorig": (False, lambda h, ks: (fuse_roots(optimize_blockwise(h, keys=ks), ks), h)[1]),
    }


PIPE_NAMES = ["cull", "cull2", "opt", "roots", "array", "cullopt", "optorig"]
CULLING = ("cull", "cull2", "array", "cullopt")
FUSING = ("opt", "roots", "array", "optorig")


def _getter(variant):
    if variant["get"] == "sync":
        from dask.local import get_sync
        return get_sync
    from dask.core import get
    return get


def _ex(ex):
    return type(ex).__name__ + ":" + str(ex)[:160]


def fused_groups(stack, g, pipe):
    """Layers of an optimized graph that stem from a blockwise layer of the stack, each with the original
    collections it absorbed: those absent from the optimized graph and reachable from it through absent ones."""
    below = {L["out"]: [a["name"] for a in L["args"] if a["k"] == "coll"] for L in stack["layers"]}
    out = []
    for L in stack["layers"]:
        root = L["out"]
        if root not in g.layers:
            continue
        group, work = [root], [root]
        while work:
            for d in below.get(work.pop(), ()):
                if d not in g.layers and d not in group:
                    group.append(d)
                    work.append(d)
        out.append({"p": pipe, "root": root, "group": sorted(group), "ann": proj_ann(g.layers[root].annotations)})
    return out


def observe(stack, req, variant, pipes):
    """Everything C10 talks about for one (stack, request): see BlockwiseTrace.tla for the record."""
    import dask
    from dask.blockwise import Blockwise
    from dask.utils import ensure_dict
    consts = set(stack["consts"])
    names = {lf["name"] for lf in stack["leaves"]} | {L["out"] for L in stack["layers"]} | consts
    get = _getter(variant)
    table = _pipes()
    obs = {"base": [], "pipes": [], "lcull": [], "fused": [], "err": ""}
    rk = [pykey(k, consts) for k in req]
    with dask.config.set({"optimization.annotations.fuse": variant.get("annfuse", True)}):
        try:
            h = build(stack, variant)
            ak = all_keys(stack)
            vals = get(ensure_dict(h), [pykey(k, consts) for k in ak])
            obs["base"] = [{"n": k["n"], "c": k["c"], "v": _unwrap(v)} for k, v in zip(ak, vals)]
        except Exception as ex:  # noqa: BLE001 - the plain graph could not be built / evaluated
            obs["err"] = "build:" + _ex(ex)
            return obs
        for p in pipes:
            iscull, fn = table[p]
            ent = {"p": p, "cull": iscull, "err": "", "keys": [], "vals": []}
            try:
                h = build(stack, variant)
                g = fn(h, list(rk))
                d = ensure_dict(g)
                if iscull:      # only the culling contract speaks about the key set of the result
                    ent["keys"] = [s for s in (speckey(k, names) for k in d) if s is not None]
                if not iscull:
                    obs["fused"] += fused_groups(stack, g, p)
                vals = get(d, list(rk))
                ent["vals"] = [{"n": k["n"], "c": k["c"], "v": _unwrap(v)} for k, v in zip(req, vals)]
            except Exception as ex:  # noqa: BLE001 - every exception of dask code is an observation
                ent["err"] = _ex(ex)
            obs["pipes"].append(ent)
        # layer-level culling, driven the way HighLevelGraph.cull drives it: the whole set of wanted keys is
        # handed to every layer, top layer first; wanted keys of lower layers come from the maps returned above
        try:
            h = build(stack, variant)
            want = set(rk)
            allk = set(h.get_all_external_keys()) if variant["leaf"] != "task" else set()
            for L in reversed(stack["layers"]):
                lay = h.layers[L["out"]]
                blocks = sorted(k[1:] for k in want if type(k) is tuple and k[0] == L["out"])
                if not blocks or not isinstance(lay, Blockwise):
                    continue
                ent = {"layer": L["out"], "blocks": [list(b) for b in blocks], "cdeps": [], "mdeps": [], "err": ""}
                try:
                    culled, cdeps = lay.cull(set(want), allk)
                    for k, ds in sorted(cdeps.items(), key=repr):
                        ent["cdeps"].append({"c": list(k[1:]), "deps": _speckeys(ds, names)})
                        want |= set(ds)
                    mat = dict(culled)
                    for b in blocks:
                        k = (L["out"],) + b
                        if k in mat:
                            ent["mdeps"].append({"c": list(b), "deps": _speckeys(mat[k].dependencies, names)})
                except Exception as ex:  # noqa: BLE001
                    ent["err"] = _ex(ex)
                obs["lcull"].append(ent)
        except Exception as ex:  # noqa: BLE001
            obs["err"] = "lcull:" + _ex(ex)
    return obs


def _speckeys(keys, names):
    out = []
    for k in keys:
        s = speckey(k, names)
        out.append(s if s is not None else {"n": "?" + repr(k)[:40], "c": []})
    return sorted(out, key=lambda s: (s["n"], s["c"]))


# ---------------------------------------------------------------- judging against the TLC export (spec -> code)
def judge(stack, req, obs, exp, cull):
    """Clauses of BlockwiseTrace.Bad violated by an observation, decided from the expectation TLC exported for the
    enumerated case: exp = {"den": name -> row-major values, "deps": layer -> row-major dependency lists},
    cull = keys culling must keep.  Returns a sorted list of (clause, detail)."""
    bad = []
    if obs["err"]:
        return [("RZ", obs["err"].split(":")[0])]
    den = {}
    for n, vals in exp["den"].items():
        for c, v in zip(box(nb_of(stack, n)), vals):
            den[(n, c)] = v
    for c in stack["consts"]:
        den[(c, ())] = c + "()"
    base = {kid(e): e["v"] for e in obs["base"]}
    if base != den:
        bad.append(("DN", "base"))
    want = {kid(k) for k in req}
    need = {kid(k) for k in cull}
    for pp in obs["pipes"]:
        if pp["err"]:
            bad.append(("RZ", pp["p"]))
            continue
        got = {kid(e): e["v"] for e in pp["vals"]}
        vok = set(got) == want and all(den.get(k) == v for k, v in got.items())
        if pp["cull"]:
            if not need <= {kid(k) for k in pp["keys"]}:
                bad.append(("CK", pp["p"]))
            if not vok:
                bad.append(("CV", pp["p"]))
        elif not vok:
            bad.append(("FV", pp["p"]))
    for lc in obs["lcull"]:
        ok = not lc["err"]
        if ok:
            L = next(x for x in stack["layers"] if x["out"] == lc["layer"])
            edeps = {c: {kid(k) for k in ds} for c, ds in zip(box(out_nb(L)), exp["deps"][lc["layer"]])}
            blocks = {tuple(b) for b in lc["blocks"]}
            cd = {tuple(e["c"]): {kid(k) for k in e["deps"]} for e in lc["cdeps"]}
            md = {tuple(e["c"]): {kid(k) for k in e["deps"]} for e in lc["mdeps"]}
            ok = (set(cd) == blocks and set(md) == blocks and len(lc["cdeps"]) == len(blocks) and len(lc["mdeps"]) == len(blocks)
                  and all(cd[b] == md[b] and edeps[b] <= cd[b] for b in blocks))
        if not ok:
            bad.append(("LD", lc["layer"]))
    for f in obs["fused"]:
        anns = [_coll_ann(stack, n) for n in f["group"]]
        if f["ann"]["bad"] or not fuse_ann_ok(f["ann"], anns):
            bad.append(("FA", f["p"]))
    return sorted(set(bad))


def _coll_ann(stack, n):
    for lf in stack["leaves"]:
        if lf["name"] == n:
            return lf.get("ann", NOANN)
    for L in stack["layers"]:
        if L["out"] == n:
            return L.get("ann", NOANN)
    raise KeyError(n)


def _cal_ids(a, f):
    return [c["id"] for c in a.get("cal", []) if c["k"] == f]


def fuse_ann_ok(o, anns):
    """Python twin of FuseAnnOK / CalOK - used only for the enumerated stacks (whose annotations are empty) and
    cross-checked against TLC on every record that is validated."""
    def opt(vals, f):
        return [f(vals)] if vals else []
    pri = opt([a["pri"][0] for a in anns if a["pri"]], max)
    ret = opt([a["ret"][0] for a in anns if a["ret"]], max)
    aow = opt([a["aow"][0] for a in anns if a["aow"]], all)
    res = {}
    for a in anns:
        for x in (a["res"][0] if a["res"] else []):
            res[x["r"]] = max(res.get(x["r"], x["v"]), x["v"])
    hasres = any(a["res"] for a in anns)
    ws = [set(a["wrk"][0]) for a in anns if a["wrk"]]
    wrk = [sorted(set.intersection(*ws))] if ws else []
    ores = {x["r"]: x["v"] for x in (o["res"][0] if o["res"] else [])}
    calok = True
    for f in ("pri", "ret"):
        carriers = [a for a in anns if a[f] or _cal_ids(a, f)]
        if any(_cal_ids(a, f) for a in carriers):
            ids = {tuple(_cal_ids(a, f)) for a in carriers}
            calok &= not any(a[f] for a in carriers) and len(ids) == 1 and _cal_ids(o, f) == list(next(iter(ids)))
        else:
            calok &= _cal_ids(o, f) == []
    return (o["pri"] == pri and o["ret"] == ret and o["aow"] == aow and ores == res and bool(o["res"]) == hasres
            and [sorted(w) for w in o["wrk"]] == wrk and calok)


# ---------------------------------------------------------------- records for TLC (code -> spec)
def _with_cal(a):
    a = dict(a)
    a.setdefault("cal", [])
    return a


def spec_stack(stack):
    """The stack in the shape BlockwiseTrace expects (every annotation record carries `cal`)."""
    return {"leaves": [{"name": lf["name"], "nb": lf["nb"], "ann": _with_cal(lf.get("ann", NOANN))} for lf in stack["leaves"]],
            "consts": list(stack["consts"]),
            "layers": [dict(L, ann=_with_cal(L.get("ann", NOANN))) for L in stack["layers"]]}


def record_of(rid, stack, req, obs):
    return {"id": rid, "st": spec_stack(stack), "req": req, "err": obs["err"], "base": obs["base"], "pipes": obs["pipes"],
            "lcull": obs["lcull"], "fused": obs["fused"]}


def features(stack):
    fs = set()
    for L in stack["layers"]:
        oi = set(L["oi"])
        if L.get("ann", NOANN).get("cal"):
            fs.add("callable-ann")
        if any(L.get("ann", NOANN)[f] for f in ("pri", "ret", "res", "wrk", "aow")):
            fs.add("ann")
        for a in L["args"]:
            if a["k"] == "key":
                fs.add("alias-key" if a["sp"] == "alias" else "ref-key")
            elif a["k"] == "bidx":
                fs.add("blockindex")
            elif a["k"] == "coll":
                if any(i not in oi for i in a["ind"]):
                    fs.add("concatenate" if L["conc"] else "contraction")
                if any(n == 1 and dim_of(L, i) > 1 for i, n in zip(a["ind"], a["nb"])):
                    fs.add("broadcast")
                if [i for i in L["oi"] if i in a["ind"]] != [i for i in a["ind"] if i in oi]:
                    fs.add("transpose")
        if L["nax"]:
            fs.add("newaxis")
    # a new axis of an earlier layer that a later layer broadcasts against an index with more blocks
    for M in stack["layers"]:
        for na in M["nax"]:
            q = M["oi"].index(na["ix"])
            for L in stack["layers"]:
                for a in L["args"]:
                    if a["k"] == "coll" and a["name"] == M["out"] and a["nb"][q] == 1 and dim_of(L, a["ind"][q]) > 1:
                        fs.add("newaxis-broadcast")
    return fs


def classify(stack, clause, detail):
    """Signature = the root-cause class when the stack belongs to one behind a recorded finding and the failing
    clause / pipeline fits it, otherwise failing clause + pipeline + the first structural class that applies."""
    fs = features(stack)
    if clause in ("RZ", "FV") and detail in FUSING + ("fuse",) and "newaxis-broadcast" in fs:
        return "fuse:newaxis-broadcast"
    if "alias-key" in fs and (clause in ("LD", "CK", "CV") or (clause == "RZ" and detail in CULLING)):
        return "cull:alias-constant-dependency"
    if "callable-ann" in fs and clause in ("RZ", "FA"):
        return "fuse:callable-annotation"
    if clause == "FA" and detail in ("roots", "array", "optorig"):
        return "fuse_roots:annotations-dropped"
    where = "layer" if clause == "LD" else detail
    for f in ("alias-key", "callable-ann", "newaxis-broadcast", "concatenate", "contraction", "newaxis", "broadcast", "blockindex",
              "transpose", "ref-key", "ann"):
        if f in fs:
            return "%s:%s:%s" % (clause, where, f)
    return "%s:%s:elementwise" % (clause, where)


# ---------------------------------------------------------------- replay of enumerated cases
def _variant(rng, rich=False):
    return {"leaf": rng.choice(["task", "legacy", "mixed"]), "get": rng.choice(["core", "sync"]), "annfuse": True}


def _work_case(item):
    """One enumerated stack: observations for the chosen requests."""
    case, picks, variant = item
    stack = case["st"]
    out = []
    for ri, pipes in picks:
        r = case["reqs"][ri]
        req = sorted(r["req"], key=lambda k: (k["n"], k["c"]))
        obs = observe(stack, req, variant, pipes)
        out.append((ri, req, obs, judge(stack, req, obs, case, r["cull"])))
    return out


def _trivial(stack, req):
    return not any(a["k"] == "coll" for L in stack["layers"] for a in L["args"])


def _digest(stack, req, variant, pipes):
    return json.dumps([stack, req, variant, pipes], sort_keys=True)


def replay_cases(ctx, cases, per_stack, npipes, keep):
    """Replay TLC-enumerated cases.  per_stack: requests per stack (0 = all); npipes: pipelines per request (0 = all).
    Returns (sample of clean (stack, req, obs, variant), every broken one) for the cross-validation by TLC."""
    rng = ctx.rng
    items = []
    for c in cases:
        n = len(c["reqs"])
        # TLC exports the request family as a set: fix an order
        c["reqs"].sort(key=lambda r: json.dumps(r["req"], sort_keys=True))
        idx = list(range(n)) if not per_stack or n <= per_stack else sorted(rng.sample(range(n), per_stack))
        picks = []
        for j, ri in enumerate(idx):
            pipes = PIPE_NAMES if (not npipes or j == 0) else sorted(rng.sample(PIPE_NAMES, npipes), key=PIPE_NAMES.index)
            picks.append((ri, list(pipes)))
        items.append((c, picks, _variant(rng)))
    kept, broken = [], []
    results = pmap(_work_case, items, chunk=16)
    for (c, _picks, variant), res in zip(items, results):
        for ri, req, obs, bad in res:
            pipes = [p["p"] for p in obs["pipes"]]
            ctx.count(_digest(c["st"], req, variant, pipes), not _trivial(c["st"], req), n=max(1, len(pipes)))
            if bad:
                broken.append((c["st"], req, obs, variant, bad))
                for cl, detail in bad:
                    if cl == "DN":
                        continue        # reported once per stack below
                    ctx.violation(classify(c["st"], cl, detail), "%s: %s" % (cl, CLAUSES[cl]),
                                  {"stack": c["st"], "req": req, "variant": variant, "pipes": pipes, "clauses": bad})
                if any(cl == "DN" for cl, _ in bad):
                    ctx.violation(classify(c["st"], "DN", "base"), "DN: " + CLAUSES["DN"],
                                  {"stack": c["st"], "req": req, "variant": variant, "pipes": pipes, "clauses": bad})
            elif len(kept) < keep and rng.random() < 0.2:
                kept.append((c["st"], req, obs, variant, []))
    return kept, broken


CLAUSES = {
    "DN": "a block of the plain materialized graph does not have the value the stack of layers denotes",
    "RZ": "a culling / fusion pipeline (or the evaluation of its result) raised",
    "CK": "HighLevelGraph.cull dropped a key the request needs",
    "CV": "a requested key is missing from, or has another value in, the culled graph",
    "FV": "a requested key is missing from, or has another value in, the fused graph",
    "LD": "Blockwise.cull's dependency map differs from the dependencies of the materialized tasks (or lacks a needed block)",
    "FA": "a fused layer's annotations are not the documented combination of its members' annotations",
    "WF": "harness error: malformed stack",
}


def _clauses_of(text):
    return sorted(set(c for c in CLAUSES if '"%s"' % c in text))


def validate_records(ctx, triples, label, report=True):
    """code -> spec: TLC decides every record.  triples: (stack, req, obs, variant, python_clauses | None); where the
    Python judge already gave a verdict the two must agree (MachineryError otherwise)."""
    if not triples:
        return {}
    spec, cfg = ctx.model(ctx.spec("graph", "BlockwiseTrace.tla"), {})
    recs = [record_of("r%d" % i, t[0], t[1], t[2]) for i, t in enumerate(triples)]
    rejected = _validate_sharded(ctx, spec, cfg, recs, label)
    out = {}
    for i, (stack, req, obs, variant, pyc) in enumerate(triples):
        rid = "r%d" % i
        tl = _clauses_of(rejected[rid][0]) if rid in rejected else []
        if "WF" in tl:
            raise MachineryError("the harness produced a malformed stack: %r" % (recs[i]["st"],))
        if pyc is not None and sorted({c for c, _ in pyc}) != tl:
            raise MachineryError("Python judge %r and TLC %r disagree on record %s" % (pyc, tl, json.dumps(recs[i])[:3000]))
        if tl:
            out[i] = tl
            if pyc is None and report:
                for cl in tl:
                    detail = _detail(obs, cl, stack)
                    ctx.violation(classify(stack, cl, detail), "%s: %s" % (cl, CLAUSES[cl]),
                                  {"stack": stack, "req": req, "variant": variant, "pipes": [p["p"] for p in obs["pipes"]], "clauses": tl})
    return out


def _validate_sharded(ctx, spec, cfg, recs, label):
    """ctx.tlc_validate, with the records dealt to several single-worker TLC processes that run side by side
    (a trace specification consumes its records sequentially).  Same totality rule: every shard must print one DONE
    line whose count is the number of records it was given and whose reject count matches its REJECT lines."""
    import os
    from concurrent.futures import ThreadPoolExecutor
    n = max(1, min(ctx.workers, len(recs) // 100))
    if n == 1:
        return ctx.tlc_validate(spec, recs, cfg, label=label, timeout=2400, **TLC_OPTS)
    ctx._c10_shard = getattr(ctx, "_c10_shard", 0) + 1
    shards = [recs[j::n] for j in range(n)]
    paths = []
    for j, sh in enumerate(shards):
        path = os.path.join(ctx.scratch, "trace-c10-%d-%d.ndjson" % (ctx._c10_shard, j))
        with open(path, "w") as f:
            for rec in sh:
                f.write(json.dumps(rec, separators=(",", ":")) + "\n")
        paths.append(path)

    def one(j):
        env = dict(TLC_OPTS["env"], TRACE_FILE=paths[j])
        return ctx.tlc(spec, cfg, env=env, workers=1, heap=TLC_OPTS["heap"], label="%s [shard %d/%d]" % (label, j + 1, n), timeout=2400)

    with ThreadPoolExecutor(n) as ex:
        results = list(ex.map(one, range(n)))
    rejected = {}
    for sh, r, path in zip(shards, results, paths):
        mine, done = {}, None
        for line in r.prints:
            if line.startswith('<<"REJECT"'):
                parts = line[2:-2].split(", ", 2)
                mine.setdefault(parts[1].strip('"'), []).append(parts[2] if len(parts) > 2 else "")
            elif line.startswith('<<"DONE"'):
                done = [x.strip() for x in line[2:-2].split(",")]
        if done is None or int(done[1]) != len(sh):
            raise MachineryError("trace validation did not consume all %d records of a shard (DONE=%r):\n%s" % (len(sh), done, r.output[-2000:]))
        if int(done[2]) != len(mine):
            raise MachineryError("REJECT lines (%d) disagree with the spec's own count (%s)" % (len(mine), done[2]))
        rejected.update(mine)
        os.remove(path)
    ctx.traces += len(recs)
    return rejected


def _detail(obs, cl, stack=None):
    """Which pipeline / layer a TLC clause is about (recomputed from the observation, for the signature only)."""
    if cl == "RZ":
        if obs["err"]:
            return obs["err"].split(":")[0]
        return next((p["p"] for p in obs["pipes"] if p["err"]), "?")
    if cl in ("CK", "CV"):
        return "cull"
    if cl == "FV":
        return "fuse"
    if cl == "FA":
        # which fused layer is the offending one is recomputed with the Python twin - for the signature only
        for f in obs["fused"]:
            if stack is not None and (f["ann"]["bad"] or not fuse_ann_ok(f["ann"], [_coll_ann(stack, n) for n in f["group"]])):
                return f["p"]
        return "fuse"
    return "base" if cl == "DN" else "layer"


# ---------------------------------------------------------------- random larger stacks (code -> spec)
def random_stack(rng, max_layers=4, nbs=(1, 2, 2, 3), max_term=700):
    while True:
        st = _random_stack(rng, max_layers, nbs)
        if st is not None and _term_size(st) <= max_term:
            return st


def _term_size(stack):
    """Upper bound of the longest term (characters), without building it."""
    size = {}
    for lf in stack["leaves"]:
        size[lf["name"]] = len(lf["name"]) + 2 + 2 * len(lf["nb"])
    for c in stack["consts"]:
        size[c] = len(c) + 2
    for L in stack["layers"]:
        tot = len(L["out"]) + 2
        for a in L["args"]:
            if a["k"] in ("coll", "bidx"):
                reps = 1
                for i, n in zip(a["ind"], a["nb"]):
                    if i not in L["oi"]:
                        reps *= dim_of(L, i)
                one = size[a["name"]] if a["k"] == "coll" else 3 * len(a["nb"]) + 2
                tot += reps * (one + 3) + 2 * len(a["nb"])
            elif a["k"] == "key":
                tot += size[a["name"]] + 1
            else:
                tot += 4
        size[L["out"]] = tot
    return max(size.values())


def _random_stack(rng, max_layers, nbs):
    leaves = []
    for name in ["A", "B", "C"][:rng.choice([1, 2, 2, 3])]:
        nd = rng.choice([1, 2, 2, 3])
        leaves.append({"name": name, "nb": [rng.choice(nbs) for _ in range(nd)]})
    stack = {"leaves": leaves, "consts": ["c0"], "layers": []}
    colls = {lf["name"]: lf["nb"] for lf in leaves}
    nl = rng.randint(2, max_layers)
    for li in range(1, nl + 1):
        out = "L%d" % li
        names = list(colls)
        args, dims = [], {}
        for _ in range(rng.choice([1, 1, 2, 2, 3])):
            name = names[-1] if (li > 1 and not args and rng.random() < 0.7) else rng.choice(names)
            nb = colls[name]
            ind = []
            for n in nb:
                cands = [ix for ix in "ijkl" if (ix not in dims or n == 1 or dims[ix] in (1, n))]
                fresh = [ix for ix in cands if ix not in ind]
                if fresh and rng.random() < 0.93:
                    cands = fresh
                if not cands:
                    return None
                ix = rng.choice(cands)
                ind.append(ix)
                dims[ix] = max(dims.get(ix, 1), n)
            args.append({"k": "coll", "name": name, "ind": ind, "nb": list(nb), "v": 0, "sp": ""})
        used = sorted(dims)
        forced = {ix for a in args for ix in a["ind"] if a["ind"].count(ix) > 1}
        oi = [ix for ix in used if ix in forced or rng.random() < 0.7]
        rng.shuffle(oi)
        nax = []
        if rng.random() < 0.15:
            nax = [{"ix": "n", "n": rng.choice([1, 2])}]
            oi.insert(rng.randint(0, len(oi)), "n")
        L = {"out": out, "oi": oi, "args": args, "nax": nax, "conc": False, "ann": dict(NOANN)}
        if any(i not in oi for a in args for i in a["ind"]):
            L["conc"] = rng.random() < 0.4
        r = rng.random()
        if r < 0.15:
            args.insert(rng.randint(0, len(args)), {"k": "lit", "name": "", "ind": [], "nb": [], "v": rng.randint(0, 9), "sp": ""})
        elif r < 0.3:
            args.insert(rng.randint(0, len(args)), {"k": "key", "name": "c0", "ind": [], "nb": [], "v": 0, "sp": "ref"})
        elif r < 0.42 and oi:
            bi = [ix for ix in oi if rng.random() < 0.8] or oi[:1]
            rng.shuffle(bi)
            args.append({"k": "bidx", "name": "", "ind": bi, "nb": [dim_of(L, ix) for ix in bi], "v": 0, "sp": ""})
        stack["layers"].append(L)
        colls[out] = out_nb(L)
    return stack


def random_request(rng, stack):
    top = stack["layers"][-1]
    ks = [{"n": top["out"], "c": list(c)} for c in box(out_nb(top))]
    req = rng.sample(ks, rng.randint(1, len(ks)))
    if rng.random() < 0.4 and len(stack["layers"]) > 1:
        low = rng.choice(stack["layers"][:-1])
        lk = [{"n": low["out"], "c": list(c)} for c in box(out_nb(low))]
        req += rng.sample(lk, rng.randint(1, min(2, len(lk))))
    return sorted(req, key=lambda k: (k["n"], k["c"]))


def _observe_item(item):
    stack, req, variant, pipes = item
    return observe(stack, req, variant, pipes)


# ---------------------------------------------------------------- annotation cases
def ann_stacks(anns, shape):
    """A stack carrying the annotation sequence `anns`.
    chain: A -> L1 -> L2 -> L3 (elementwise, one annotation per layer);
    fork : L3 <- L1(A), L2(B);  roots: L1 <- A, B with the leaves annotated like L1 (what fuse_roots requires), L2 <- L1."""
    E = lambda out, *names: {"out": out, "oi": ["i"], "nax": [], "conc": False,
                             "args": [{"k": "coll", "name": n, "ind": ["i"], "nb": [2], "v": 0, "sp": ""} for n in names]}
    n = len(anns)
    if shape == "chain":
        leaves = [{"name": "A", "nb": [2]}]
        layers = [dict(E("L%d" % (i + 1), "A" if i == 0 else "L%d" % i), ann=anns[i]) for i in range(n)]
    elif shape == "fork":
        leaves = [{"name": "A", "nb": [2]}, {"name": "B", "nb": [2]}]
        if n == 2:
            layers = [dict(E("L1", "A"), ann=anns[0]), dict(E("L2", "L1", "B"), ann=anns[1])]
        else:
            layers = [dict(E("L1", "A"), ann=anns[0]), dict(E("L2", "B"), ann=anns[1]), dict(E("L3", "L1", "L2"), ann=anns[2])]
    else:
        leaves = [{"name": "A", "nb": [2], "ann": anns[0]}, {"name": "B", "nb": [2], "ann": anns[0]}]
        layers = [dict(E("L1", "A", "B"), ann=anns[0])] + [dict(E("L%d" % (i + 1), "L%d" % i), ann=anns[i]) for i in range(1, n)]
    return {"leaves": leaves, "consts": [], "layers": layers}


CALLABLE_ANNS = [
    [dict(NOANN, cal=[{"k": "pri", "id": 1}]), dict(NOANN, pri=[5])],
    [dict(NOANN, pri=[5]), dict(NOANN, cal=[{"k": "pri", "id": 1}])],
    [dict(NOANN, cal=[{"k": "pri", "id": 1}]), dict(NOANN, cal=[{"k": "pri", "id": 1}])],
    [dict(NOANN, cal=[{"k": "pri", "id": 1}]), dict(NOANN, cal=[{"k": "pri", "id": 2}])],
    [dict(NOANN, cal=[{"k": "ret", "id": 1}]), dict(NOANN, ret=[2]), dict(NOANN)],
    [dict(NOANN, cal=[{"k": "pri", "id": 1}]), dict(NOANN, ret=[2])],
]


def ann_items(ctx, cases, extra):
    rng = ctx.rng
    items = []
    for c in cases:
        anns = c["anns"]
        shape = rng.choice(["chain", "chain", "fork", "roots"])
        st = ann_stacks(anns, shape)
        top = st["layers"][-1]["out"]
        req = [{"n": top, "c": [b]} for b in ([0, 1] if rng.random() < 0.7 else [rng.choice([0, 1])])]
        variant = dict(_variant(rng), annfuse=rng.random() < 0.9)
        items.append((st, req, variant, ["opt", "roots"] if shape == "roots" or rng.random() < 0.3 else ["opt"]))
    for anns in extra:
        for shape in ("chain", "fork"):
            st = ann_stacks(anns, shape)
            top = st["layers"][-1]["out"]
            items.append((st, [{"n": top, "c": [0]}, {"n": top, "c": [1]}], {"leaf": "task", "get": "core", "annfuse": True}, ["opt", "array"]))
    return items


# ---------------------------------------------------------------- TLC configurations
def _pat(i, oi, ais, nax=()):
    q = lambda s: "<<%s>>" % ",".join('"%s"' % ch for ch in s)
    return "[id |-> %d, oi |-> %s, ais |-> <<%s>>, nax |-> %s]" % (i, q(oi), ",".join(q(a) for a in ais), q(nax))


PATTERNS = [
    ("i", ["i"]), ("ij", ["ij"]), ("ji", ["ij"]), ("i", ["i", "i"]), ("ij", ["ij", "ij"]), ("ij", ["ij", "ji"]),
    ("ij", ["ij", "j"]), ("i", ["ij"]), ("j", ["ij"]), ("", ["i"]), ("ik", ["ij", "jk"]), ("ij", ["i", "j"]),
    ("ij", ["i"], "j"), ("i", ["ij", "j"]), ("", ["ij"]), ("i", ["ii"]), ("ji", ["i"], "j"),
]


def _leafconf(*ls):
    return "<<%s>>" % ",".join('[name |-> "%s", nb |-> <<%s>>]' % (n, ",".join(map(str, nb))) for n, nb in ls)


def mc_constants(ctx, leafconfs, max_layers, mods, patmods, decos, reqcap):
    return {"LeafConfs": TLA("{%s}" % ",".join(leafconfs)), "Consts": TLA('<<"c0">>'),
            "Pats": TLA("{%s}" % ",".join(_pat(i + 1, *p) for i, p in enumerate(PATTERNS))),
            "NewN": TLA("{1, 2}"), "Decos": TLA("{%s}" % ",".join('"%s"' % d for d in decos)),
            "MaxLayers": max_layers, "Mods": TLA("<<%s>>" % ",".join(map(str, mods))),
            "PatMods": TLA("<<%s>>" % ",".join(map(str, patmods))), "Salt": ctx.seed % 997 + 5, "ReqCap": reqcap}


MC_INVS = ["WellFormed", "DepsInRange", "DepsAcyclic", "CullLeast", "OutCount"]
ANN_INVS = ["FuseConsistent", "NeverLoosens", "Idempotent", "Associative", "Tight"]
ALL_DECOS = ["none", "lit", "ref", "alias", "bidx"]


def run(ctx):
    import dask.blockwise  # noqa: F401 - imported before the worker processes are forked
    import dask.local  # noqa: F401
    quick = ctx.quick
    total = 0
    xval = []
    if quick:
        confs = [([_leafconf(("A", (2, 2)), ("B", (2,))), _leafconf(("A", (1, 2)), ("B", (2, 2))), _leafconf(("A", (2,)), ("B", (1,)))],
                  3, [2, 30, 60], [1, 2, 4], ALL_DECOS, 4)]
    else:
        nb2 = [(a, b) for a in (1, 2, 3) for b in (1, 2, 3)]
        pairs = [_leafconf(("A", x), ("B", y)) for x in nb2 for y in [(1,), (2,), (3,)] if max(x) >= 2 or max(y) >= 2][:18]
        pairs += [_leafconf(("A", x), ("B", y)) for x in [(2, 2), (1, 3), (3, 2)] for y in [(2, 2), (2, 3), (3, 1)]]
        pairs += [_leafconf(("A", (n,)), ("B", (m,))) for n in (1, 2, 3) for m in (2, 3)]
        confs = [(pairs, 3, [1, 60, 200], [1, 4, 8], ALL_DECOS, 4)]
    for leafconfs, depth, mods, patmods, decos, reqcap in confs:
        spec, cfg = ctx.model(ctx.spec("graph", "BlockwiseMC.tla"), mc_constants(ctx, leafconfs, depth, mods, patmods, decos, reqcap),
                              invariants=MC_INVS)
        cases, _r = ctx.tlc_cases(spec, cfg, label="design+cases:stacks depth<=%d mods=%s patmods=%s" % (depth, mods, patmods), timeout=3000, **TLC_OPTS)
        total += len(cases)
        kept, broken = replay_cases(ctx, cases, ctx.pick(2, 6), ctx.pick(2, 3), keep=ctx.pick(200, 3000))
        for c in cases[:2]:
            ctx.sample({"stack": c["st"], "denotes": c["den"], "request": c["reqs"][0]})
        # every clean-sampled observation and a bounded number of the broken ones are re-decided by TLC
        xval += kept + broken[:ctx.pick(100, 2000)]
        del cases
    # annotations: design check of FuseAnn + cases
    ann_cases = []
    for mode, mods in (("perkey", [1, 1, 1]), ("mixed", ctx.pick([54, 72, 72], [6, 36, 36]))):
        spec, cfg = ctx.model(ctx.spec("graph", "BlockwiseAnnMC.tla"),
                              {"Mode": mode, "MaxLayers": 3, "Mods": TLA("<<%s>>" % ",".join(map(str, mods))),
            "Salt": ctx.seed % 997 + 3},
                              invariants=ANN_INVS)
        cs, _r = ctx.tlc_cases(spec, cfg, label="design+cases:annotations " + mode, timeout=1800, **TLC_OPTS)
        ann_cases += cs
    total += len(ann_cases)
    items = ann_items(ctx, ann_cases, CALLABLE_ANNS)
    # code -> spec: random larger stacks
    nrand = ctx.pick(500, 8000)
    for _ in range(nrand):
        st = random_stack(ctx.rng, ctx.pick(3, 4))
        req = random_request(ctx.rng, st)
        pipes = PIPE_NAMES if ctx.rng.random() < 0.3 else sorted(ctx.rng.sample(PIPE_NAMES, 3), key=PIPE_NAMES.index)
        items.append((st, req, _variant(ctx.rng), list(pipes)))
    rnd = []
    for item, obs in zip(items, pmap(_observe_item, items, chunk=16)):
        st, req, variant, pipes = item
        ctx.count(_digest(st, req, variant, pipes), not _trivial(st, req), n=max(1, len(pipes)))
        rnd.append((st, req, obs, variant, None))
    validate_records(ctx, xval + rnd, "trace-validation:enumerated-sample+annotations+random-stacks")
    ctx.sample({"annotation_case": ann_cases[-1]})
    ctx.sample({"recorded_random_stack": rnd[-1][0], "request": rnd[-1][1]})
    ctx.exhaustive = False
    ctx.rule = ("case = (stack of blockwise layers, requested key set, leaf form / getter variant) x pipeline (cull, cull twice, "
                "optimize_blockwise, + fuse_roots, + cull, cull then optimize) plus layer-level Blockwise.cull; one evaluation = one "
                "pipeline run; non-trivial = some layer reads blocks of another collection; distinct by (stack, request, variant, pipelines)")
    ctx.extra["cases_enumerated_by_tlc"] = total
    ctx.assumptions = ["TLC evaluates Den / Deps / Cull / FuseAnn correctly (cross-checked against the Python judge on a sample)",
                       "block values are projected faithfully to term strings (1-element object arrays)",
                       "stack height, numblocks, index-pattern menu and the hashed thinning are bounded as listed in tlc_runs"]


def replay(ctx, obj):
    c = obj["case"]
    stack, req, variant = c["stack"], c["req"], c["variant"]
    obs = observe(stack, req, variant, c.get("pipes") or PIPE_NAMES)
    spec, cfg = ctx.model(ctx.spec("graph", "BlockwiseTrace.tla"), {})
    rej = ctx.tlc_validate(spec, [record_of("r0", stack, req, obs)], cfg, **TLC_OPTS)
    print("stack:", json.dumps(stack))
    print("request:", req, "variant:", variant)
    for p in obs["pipes"]:
        print("pipeline %-8s err=%r values=%s" % (p["p"], p["err"], [(v["n"], v["c"], v["v"]) for v in p["vals"]]))
    for lc in obs["lcull"]:
        print("layer %s cull deps=%s task deps=%s %s" % (lc["layer"], lc["cdeps"], lc["mdeps"], lc["err"]))
    for f in obs["fused"]:
        print("fused %s: %s <- %s annotations %s" % (f["p"], f["root"], f["group"], f["ann"]))
    print("TLC verdict:", rej or "accepted")
    return bool(rej)


# ---------------------------------------------------------------- binding self-test
def _mini_cases():
    R = lambda name, ind, nb: {"k": "coll", "name": name, "ind": list(ind), "nb": list(nb), "v": 0, "sp": ""}
    LY = lambda out, oi, args, conc=False, nax=(), ann=None: {"out": out, "oi": list(oi), "args": args, "nax": list(nax), "conc": conc,
                                                             "ann": ann or dict(NOANN)}
    key = {"k": "key", "name": "c0", "ind": [], "nb": [], "v": 0, "sp": "ref"}
    lit = {"k": "lit", "name": "", "ind": [], "nb": [], "v": 7, "sp": ""}
    P1, P2 = dict(NOANN, pri=[1], wrk=[["a", "b"]]), dict(NOANN, pri=[2], ret=[3], wrk=[["b", "c"]])
    leaves = [{"name": "A", "nb": [2, 2]}, {"name": "B", "nb": [2]}]
    bleaves = [{"name": "A", "nb": [2, 2]}, {"name": "B", "nb": [1, 2]}]
    stacks = [
        {"leaves": bleaves, "consts": ["c0"], "layers": [
            LY("L1", "ij", [R("A", "ij", (2, 2)), R("B", "ij", (1, 2))]), LY("L2", "ji", [R("L1", "ij", (2, 2)), R("B", "ij", (1, 2))]),
            LY("L3", "j", [R("L2", "ji", (2, 2)), R("B", "kj", (1, 2))])]},
        {"leaves": leaves, "consts": ["c0"], "layers": [
            LY("L1", "ji", [R("A", "ij", (2, 2))]), LY("L2", "ij", [R("L1", "ji", (2, 2)), R("B", "j", (2,)), lit]),
            LY("L3", "i", [key, R("L2", "ij", (2, 2))])]},
        {"leaves": leaves, "consts": ["c0"], "layers": [
            LY("L1", "ij", [R("A", "ij", (2, 2)), key], ann=P1), LY("L2", "ij", [R("L1", "ji", (2, 2))], ann=P2),
            LY("L3", "ij", [R("L2", "ij", (2, 2)), R("L1", "ij", (2, 2))], ann=P1)]},
        {"leaves": leaves, "consts": ["c0"], "layers": [
            LY("L1", "i", [R("B", "i", (2,))], ann=P1), LY("L2", "i", [R("L1", "i", (2,)), key], ann=P2),
            LY("L3", "ik", [R("L2", "j", (2,)), R("A", "jk", (2, 2)), R("L2", "i", (2,))], conc=True)]},
    ]
    cases = []
    for st in stacks:
        top, mid = st["layers"][-1], st["layers"][1]
        tk = [{"n": top["out"], "c": list(c)} for c in box(out_nb(top))]
        reqs = [[tk[0]], [tk[-1]], tk, [tk[0], {"n": mid["out"], "c": list(box(out_nb(mid))[-1])}]]
        for req in reqs:
            cases.append((st, sorted(req, key=lambda k: (k["n"], k["c"]))))
    return cases


def _mini_records(variant):
    return [(st, req, observe(st, req, variant, PIPE_NAMES), variant, None) for st, req in _mini_cases()]


def selftest(ctx):
    import dask.blockwise as bw
    import dask.highlevelgraph as hl
    from ..srcmutant import mutant
    ok = True
    variant = {"leaf": "mixed", "get": "core", "annfuse": True}
    mutants = [
        ("Blockwise._cull_dependencies drops the constant (TaskRef) dependencies", bw, "Blockwise._cull_dependencies",
         "key_deps[(self.output,) + out_coords] = deps | const_deps", "key_deps[(self.output,) + out_coords] = deps", {"LD", "CK", "CV"}),
        ("_get_coord_mapping: broadcasting of one-block axes is lost for output indices", bw, "_get_coord_mapping",
         "zero_pos[i] if nb == 1 else index_pos[i]", "index_pos[i]", {"DN", "LD", "RZ", "CV", "FV", "CK"}),
        ("HighLevelGraph.cull forgets all but one dependency of every culled task", hl, "HighLevelGraph.cull",
         "                keys_set |= d\n", "                keys_set |= set(sorted(d, key=repr)[:1])\n", {"CK", "CV", "RZ"}),
        ("_optimize_blockwise fuses layers whose keys were requested", bw, "_optimize_blockwise",
         "if dep != layer and dep in keep:", "if False:", {"FV", "RZ"}),
        ("rewrite_blockwise ignores how the fused layer indexed its dependency", bw, "rewrite_blockwise",
         "sub = dict(zip(inputs[dep].output_indices, current_dep_indices))",
         "sub = dict(zip(inputs[dep].output_indices, sorted(current_dep_indices)))", {"FV", "RZ"}),
        ("_fuse_annotations takes the minimum priority", bw, "_fuse_annotations",
         'annotations["priority"] = max(priorities)', 'annotations["priority"] = min(priorities)', {"FA"}),
        ("_fuse_annotations takes the union of the worker restrictions", bw, "_fuse_annotations",
         "set.intersection(*[set(w) for w in workers])", "set.union(*[set(w) for w in workers])", {"FA"}),
    ]
    # every observation is made first, then ONE TLC run decides all records
    good = _mini_records(variant)
    batches = [("base", good)]
    for title, mod, name, old, new, _expect in mutants:
        with mutant(mod, name, old, new):
            batches.append((title, _mini_records(variant)))
    bad = []
    for st, req, obs, v, _ in good:
        o = json.loads(json.dumps(obs))
        o["base"][-2]["v"] += "x"
        bad.append(("corrupted base value", "DN", (st, req, o, v, None)))
        o = json.loads(json.dumps(obs))
        o["pipes"][0]["keys"] = [k for k in o["pipes"][0]["keys"] if k["n"] != st["leaves"][0]["name"]]
        bad.append(("leaf keys dropped from the culled graph", "CK", (st, req, o, v, None)))
        o = json.loads(json.dumps(obs))
        o["pipes"][2]["vals"] = o["pipes"][2]["vals"][1:]
        bad.append(("a requested value dropped after fusion", "FV", (st, req, o, v, None)))
        o = json.loads(json.dumps(obs))
        o["lcull"][0]["cdeps"] = o["lcull"][0]["cdeps"][1:]
        bad.append(("dropped dependency-map entry", "LD", (st, req, o, v, None)))
        o = json.loads(json.dumps(obs))
        fz = [f for f in o["fused"] if len(f["group"]) > 1]
        if fz:
            fz[0]["ann"]["pri"] = [9]
            bad.append(("corrupted fused annotation", "FA", (st, req, o, v, None)))
    batches.append(("corrupted", [b[2] for b in bad]))
    flat = [t for _, recs in batches for t in recs]
    rej_all = validate_records(ctx, flat, "selftest:all-records", report=False)
    off, per = 0, []
    for _title, recs in batches:
        per.append({i - off: cl for i, cl in rej_all.items() if off <= i < off + len(recs)})
        off += len(recs)
    print("selftest C10: unmutated tree on the mini case set (%d records): %s"
          % (len(good), "clean" if not per[0] else "rejected %s" % per[0]))
    ok &= not per[0]
    for (title, _m, _n, _o, _w, expect), (_t, recs), rej in zip(mutants, batches[1:], per[1:]):
        seen = sorted({c for cl in rej.values() for c in cl})
        hit = bool(rej) and bool(set(seen) & expect)
        sigs = sorted({classify(recs[i][0], c, _detail(recs[i][2], c, recs[i][0])) for i, cl in rej.items() for c in cl})[:3]
        print("selftest C10 mutant [%s]: %s (%d of %d records rejected, clauses %s; e.g. %s)"
              % (title, "DETECTED" if hit else "MISSED", len(rej), len(recs), seen, sigs))
        ok &= bool(hit)
    rej = per[-1]
    missed = [bad[i][0] for i in range(len(bad)) if bad[i][1] not in rej.get(i, [])]
    print("selftest C10 trace spec: %d genuine records accepted, %d corrupted records rejected with the expected clause (%d missed %s)"
          % (len(good), len(bad) - len(missed), len(missed), sorted(set(missed))[:3]))
    ok &= not missed and len(bad) > 8
    print("selftest C10: %s" % ("PASS" if ok else "FAIL"))
    return 0 if ok else 1
