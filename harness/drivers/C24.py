"""C24 - structural array operations equal NumPy.

spec -> code: TLC enumerates (specs/array/StructuralMC.tla) every (operation, input shapes, arguments)
case of the bounded space together with the result demanded by the TLA+ reference semantics
(specs/array/Structural.tla, index maps on element ids) and, per input shape, the complete list of
chunkings; each case is run on real dask arrays under those chunkings (all of them in the thorough tier,
a seeded sample in the quick tier), with NumPy and dask inputs mixed for the joining operations and
several spellings of the same call, every block computed through its own key.
code -> spec: seeded random calls on larger, irregularly chunked arrays (incl. zero-width blocks) are
recorded and TLC decides every record (StructuralTrace.tla).  NumPy is only the reference *guard*."""
from __future__ import annotations

import warnings

import numpy as np

from ..arrays import cells, observe, py_chunks, raised
from ..core import TLA, MachineryError
from ..par import pmap

META = {
    "title": "Structural array operations equal NumPy",
    "design_ref": "DESIGN.md §4.3 C24",
    "technique": "TLA+ reference semantics (index maps on element ids) of reshape/transpose/.../pad/roll; TLC enumerates small "
                 "shapes x arguments and all chunkings; replay into dask + TLC validation of recorded calls",
    "level_text": "Small-scope exhaustive: TLC enumerates, for shapes with <= 3 axes and extents <= 4, every argument of reshape "
                  "(all target shapes incl. -1), transpose/moveaxis/swapaxes (all axes), squeeze/expand_dims, flip/rot90/roll, "
                  "take/shuffle (incl. indexers that are nearly the identity grouping of the input's own chunks)/repeat/tile (reps of every "
                  "length 0..ndim+2)/broadcast_to, expand_dims/squeeze with axis tuples, atleast_nd, block of nesting depth 1-3, "
                  "tril/triu, diff, pad (constant, edge, reflect, symmetric, wrap incl. pads "
                  "wider than the axis, maximum/minimum/mean), concatenate/stack/block with NumPy and dask inputs mixed, and all "
                  "chunkings of every input shape; the TLA+ reference gives shape, content and error; dask is replayed block by "
                  "block. Random larger calls are decided by TLC from recorded observations.",
    "level_note": "Trusted: TLC, the TLA+ reference (cross-checked against NumPy on every case; a disagreement is a machinery "
                  "error), the block-assembly projection, NumPy kernels per block. Bounded shapes; 3-d inputs use a menu of "
                  "chunkings in the quick tier; linear_ramp/median/empty pad modes, reflect_type='odd', stat_length and "
                  "repeat with array repeats are not covered.",
}

NONE = 99
OPS = ["reshape", "transpose", "moveaxis", "swapaxes", "squeeze", "expand_dims", "flip", "rot90", "roll", "take", "shuffle",
       "repeat", "tile", "broadcast_to", "tri", "diff", "pad", "concatenate", "stack", "block"]
INVS = ["CellCount", "OnlyInputCells", "Bijective", "JoinKeepsAll", "PadKeepsCore", "ChunkingsValid", "RelStructure",
        "RelNotIdentity", "RankOK"]


# --------------------------------------------------------------------------- inputs
def input_shapes(case):
    op = case["op"]
    if op in ("concatenate", "stack", "block1"):
        return [list(s) for s in case["shapes"]]
    if op == "block2":
        return [list(s) for row in case["rows"] for s in row]
    if op == "block3":
        return [list(s) for plane in case["planes"] for row in plane for s in row]
    return [list(case["shape"])]


def np_inputs(case):
    out = []
    for k, sh in enumerate(input_shapes(case)):
        n = int(np.prod(sh)) if len(sh) else 1
        base = np.arange(1, n + 1, dtype="i8")
        vals = base * base if case["op"] == "diff" else base + 100 * k
        out.append(vals.reshape(tuple(sh)))
    return out


def _ax(v):
    return None if v == NONE else v


# --------------------------------------------------------------------------- one operation, NumPy or dask
def apply(xp, case, arrs, v):
    """Apply the case's operation with module xp (numpy or dask.array) to the input arrays.
    v: spelling variant (dict)."""
    op = case["op"]
    a = arrs[0]
    alt = v.get("alt", 0)
    if op == "reshape":
        tgt = tuple(case["tgt"])
        if xp is not np and v.get("merge") is False:
            return a.reshape(tgt, merge_chunks=False)
        return [lambda: a.reshape(tgt), lambda: xp.reshape(a, tgt), lambda: a.reshape(*tgt)][alt % 3]()
    if op == "transpose":
        perm = tuple(case["perm"])
        return [lambda: xp.transpose(a, perm), lambda: a.transpose(*perm), lambda: a.transpose(perm)][alt % 3]()
    if op == "T":
        return a.T if alt % 2 == 0 else xp.transpose(a)
    if op == "moveaxis":
        return xp.moveaxis(a, case["src"], case["dst"])
    if op == "swapaxes":
        return xp.swapaxes(a, case["a1"], case["a2"]) if alt % 2 == 0 else a.swapaxes(case["a1"], case["a2"])
    if op == "squeeze":
        ax = _ax(case["ax"])
        return xp.squeeze(a, axis=ax) if alt % 2 == 0 else a.squeeze(axis=ax)
    if op == "expand_dims":
        return xp.expand_dims(a, case["ax"])
    if op == "expand_dims_t":
        axs = tuple(case["axs"])
        return xp.expand_dims(a, axs if alt % 2 == 0 else list(axs))
    if op == "squeeze_t":
        axs = tuple(case["axs"])
        return xp.squeeze(a, axis=axs) if alt % 2 == 0 else a.squeeze(axis=axs)
    if op == "atleast":
        return getattr(xp, "atleast_%dd" % case["k"])(a)
    if op == "flip":
        return xp.flip(a, _ax(case["ax"]))
    if op == "rot90":
        return xp.rot90(a, case["k"], axes=(case["a1"], case["a2"]))
    if op == "roll":
        return xp.roll(a, case["shift"], axis=_ax(case["ax"]))
    if op == "take":
        idx = list(case["idx"])
        idx = np.array(idx, dtype=np.intp) if alt % 2 else idx
        return xp.take(a, idx, axis=case["ax"])
    if op == "shuffle":
        if xp is np:
            return np.take(a, [i for g in case["groups"] for i in g], axis=case["ax"])
        return a.shuffle([list(g) for g in case["groups"]], axis=case["ax"])
    if op == "repeat":
        return xp.repeat(a, case["r"], axis=case["ax"]) if alt % 2 == 0 else a.repeat(case["r"], axis=case["ax"])
    if op == "tile":
        reps = tuple(case["reps"])
        return xp.tile(a, reps[0] if (len(reps) == 1 and alt % 2) else reps)
    if op == "broadcast_to":
        return xp.broadcast_to(a, tuple(case["tgt"]))
    if op in ("tril", "triu"):
        return getattr(xp, op)(a, case["k"]) if alt % 2 == 0 else getattr(xp, op)(a, k=case["k"])
    if op == "diff":
        return xp.diff(a, n=case["n"], axis=case["ax"])
    if op == "pad":
        pw = tuple((int(b), int(c)) for b, c in case["pw"])
        spelled = pw
        if alt % 3 == 1 and len(set(pw)) == 1:
            spelled = pw[0][0] if pw[0][0] == pw[0][1] else (pw[0],)
        elif alt % 3 == 2 and len(set(pw)) == 1:
            spelled = pw[0]
        kw = {"constant_values": case["cval"]} if case["mode"] == "constant" else {}
        return xp.pad(a, spelled, mode=case["mode"], **kw)
    if op == "concatenate":
        return xp.concatenate(list(arrs), axis=case["ax"])
    if op == "stack":
        return xp.stack(list(arrs), axis=case["ax"])
    if op == "block1":
        return xp.block(list(arrs))
    if op == "block2":
        it = iter(arrs)
        return xp.block([[next(it) for _ in row] for row in case["rows"]])
    if op == "block3":
        it = iter(arrs)
        return xp.block([[[next(it) for _ in row] for row in plane] for plane in case["planes"]])
    raise MachineryError("unknown op %r" % op)


def np_reference(case):
    try:
        with warnings.catch_warnings():
            warnings.simplefilter("ignore")
            r = np.asarray(apply(np, case, np_inputs(case), {"alt": 0}))
        return {"err": False, "shape": list(r.shape), "cells": cells(r)}
    except Exception:  # noqa: BLE001 - whatever NumPy raises is "NumPy raises"
        return {"err": True}


def run_dask(case, run, whole=False):
    """run = {"chunks": [chunking per input], "kinds": ["da"|"np" per input], "v": variant}"""
    import dask.array as da
    try:
        arrs = []
        for x, ch, kind in zip(np_inputs(case), run["chunks"], run["kinds"]):
            arrs.append(da.from_array(x, chunks=py_chunks(ch)) if kind == "da" else x)
        with warnings.catch_warnings():
            warnings.simplefilter("ignore")
            y = apply(da, case, arrs, run["v"])
            if not isinstance(y, da.Array):
                return {"lshape": [], "chunks": [], "cshape": [], "blocksok": False, "kind": "", "raised": "",
                        "msg": "result is %s, not a dask array" % type(y).__name__}, None
            obs, full = observe(y, whole_too=whole)
        return obs, (cells(full) if full is not None else None)
    except NotImplementedError as ex:
        return {"skip": "NotImplementedError(%s): %s" % (case["op"], str(ex)[:50])}, None
    except Exception as ex:  # noqa: BLE001 - every other exception is an observation
        o = raised(ex)
        o["msg"] = str(ex)[:200]
        return o, None


def judge(exp, obs, got):
    if "skip" in obs:
        return None
    if exp["err"]:
        return None        # NumPy raises: there is no result to equal; any behaviour of dask is accepted
    if obs["raised"]:
        return "UnexpectedRaise"
    if obs["cshape"] != list(exp["shape"]):
        return "Shape"
    if got != list(exp["cells"]):
        return "Content"
    if len(obs["chunks"]) != len(obs["cshape"]) or not obs["blocksok"]:
        return "Meta"
    for a, ch in enumerate(obs["chunks"]):
        if all(c >= 0 for c in ch) and (sum(ch) != obs["cshape"][a] or obs["lshape"][a] != obs["cshape"][a]):
            return "Meta"
    return None


PAD_FAMILY = {"constant": "edge", "edge": "edge", "reflect": "reuse", "symmetric": "reuse", "wrap": "reuse",
              "maximum": "stats", "minimum": "stats", "mean": "stats"}


def classify(case, clause, run, obs=None):
    """Input class of a violation: the operation (code path) and the structural class of input / arguments that
    names the root cause - never concrete numbers.  Degenerate inputs come first: an empty input array, a pad of
    the reflect/symmetric/wrap family wider than the axis, a zero-width chunk on a non-empty axis, the corner cells
    of a mean pad; anything else is named by the failing clause."""
    op = case["op"]
    fam = {"tril": "tri", "triu": "tri", "block1": "block", "block2": "block", "block3": "block", "T": "transpose",
           "expand_dims_t": "expand_dims", "squeeze_t": "squeeze"}.get(op, op)
    kind = "raises" if clause == "UnexpectedRaise" else "wrong-result"
    shapes = input_shapes(case)
    root = None
    if op == "pad":
        pf = PAD_FAMILY[case["mode"]]
        fam = "pad-" + pf
        n_pad = sum(1 for (b, c) in case["pw"] if b + c > 0)
        wide = any(max(b, c) > (s - 1 if case["mode"] == "reflect" else s) for (b, c), s in zip(case["pw"], case["shape"]))
    if any(int(np.prod(s)) == 0 for s in shapes):
        root = "empty-input"
    elif op == "pad" and pf == "reuse" and wide:
        root = "wider-than-axis"
    elif op == "pad" and case["mode"] == "mean" and n_pad >= 2 and kind == "wrong-result":
        root = "mean-corners"
    elif any(0 in ax and sum(ax) > 0 for ch, k in zip(run["chunks"], run["kinds"]) if k == "da" for ax in ch):
        root = "zero-chunk"
    if root is None:
        return "%s:%s:%s" % (fam, clause, "numpy-input" if "np" in run["kinds"] else "basic")
    return "%s:%s:%s" % (fam, root, kind)


# --------------------------------------------------------------------------- replay of enumerated cases
def _work(item):
    case, exp, runs = item
    ref = np_reference(case)
    if ref["err"] != exp["err"] or (not ref["err"] and (ref["shape"] != list(exp["shape"]) or ref["cells"] != list(exp["cells"]))):
        return [("GUARD", None, ref)]
    res = []
    for run in runs:
        obs, got = run_dask(case, run)
        if "skip" in obs:
            res.append(("SKIP", run, obs["skip"]))
            continue
        cl = judge(exp, obs, got)
        res.append((cl, run, {"obs": obs, "got": got} if cl else None))
    return res


def make_runs(case, chunkings, rng, n, all_chunkings):
    """Choose the chunkings / input kinds / spellings under which a case is run."""
    shapes = input_shapes(case)
    lists = [chunkings[tuple(s)] for s in shapes]
    runs = []
    if "achunks" in case:
        # chunk-relative indexer: the input's axis must be chunked exactly like achunks (other axes: any)
        ax = case["ax"] % len(shapes[0])
        want = list(case["achunks"])
        fits = [c for c in lists[0] if list(c[ax]) == want]
        if not fits:
            fits = [[want if d == ax else list(c[d]) for d in range(len(c))] for c in rng.sample(lists[0], min(3, len(lists[0])))]
        combos = [[c] for c in (fits if all_chunkings else rng.sample(fits, min(len(fits), n)))]
    elif all_chunkings and len(shapes) == 1 and len(lists[0]) <= all_chunkings:
        combos = [[c] for c in lists[0]]
    else:
        combos = [[rng.choice(l) for l in lists] for _ in range(n)]
    for i, combo in enumerate(combos):
        kinds = ["da"] * len(shapes)
        if len(shapes) > 1:
            kinds = [rng.choice(["da", "da", "np"]) for _ in shapes]
            if "da" not in kinds:
                kinds[rng.randrange(len(kinds))] = "da"
        v = {"alt": rng.randrange(6)}
        if case["op"] == "reshape":
            v["merge"] = rng.random() < 0.6
        runs.append({"chunks": combo, "kinds": kinds, "v": v})
    return runs


def replay_cases(ctx, cases, chunkings, nruns, all_chunkings):
    items = [(c["c"], c["e"], make_runs(c["c"], chunkings, ctx.rng, nruns, all_chunkings)) for c in cases]
    for (case, exp, _r), res in zip(items, pmap(_work, items, chunk=16)):
        for cl, run, detail in res:
            if cl == "GUARD":
                raise MachineryError("TLA+ reference disagrees with NumPy on %r: numpy=%r spec=%r" % (case, detail, exp))
            if cl == "SKIP":
                ctx.skip(detail)
                continue
            ctx.count((case, run), (not exp["err"]) and len(exp["cells"]) > 0)
            if cl:
                ctx.violation(classify(case, cl, run, detail["obs"]), "%s: dask %s disagrees with the reference" % (cl, case["op"]),
                              {"case": case, "expected": exp, "run": run, "observed": detail})
    return items


# --------------------------------------------------------------------------- code -> spec: random larger calls
def _rand_chunking(rng, n, zero_p=0.12):
    if n == 0:
        return [0]
    ch, left = [], n
    while left > 0:
        c = rng.randint(1, left)
        ch.append(c)
        left -= c
    if rng.random() < zero_p:
        ch.insert(rng.randint(0, len(ch)), 0)
    return ch


def _factorizations(n, maxlen=3):
    out = [[n]]
    divs = [d for d in range(1, n + 1) if n % d == 0]
    for a in divs:
        out.append([a, n // a])
        for b in [d for d in divs if (n // a) % d == 0]:
            out.append([a, b, n // a // b])
    return out


def random_case(rng):
    op = rng.choice(["reshape", "reshape", "transpose", "moveaxis", "swapaxes", "squeeze", "expand_dims", "expand_dims_t", "atleast",
                     "block3", "flip", "rot90", "roll",
                     "take", "shuffle", "repeat", "tile", "broadcast_to", "tril", "triu", "diff", "pad", "pad", "concatenate",
                     "stack", "block1"])
    nd = rng.choice([1, 2, 2, 3])
    if op in ("rot90", "tril", "triu"):
        nd = rng.choice([2, 2, 3])
    shape = [rng.choice([1, 2, 3, 4, 5, 6]) for _ in range(nd)]
    if nd == 3:
        shape = [min(s, 4) for s in shape]
    axis = rng.randrange(nd)
    saxis = axis - nd if rng.random() < 0.3 else axis
    c = {"op": op, "shape": shape}
    if op == "reshape":
        t = rng.choice(_factorizations(int(np.prod(shape))))
        if rng.random() < 0.3:
            t[rng.randrange(len(t))] = -1
        c["tgt"] = t
    elif op == "transpose":
        p = list(range(nd))
        rng.shuffle(p)
        c["perm"] = p
    elif op == "moveaxis":
        c["src"], c["dst"] = saxis, rng.randrange(-nd, nd)
    elif op == "swapaxes":
        c["a1"], c["a2"] = saxis, rng.randrange(-nd, nd)
    elif op == "squeeze":
        shape[axis] = 1
        c["ax"] = rng.choice([NONE, saxis])
    elif op == "expand_dims":
        c["ax"] = rng.randrange(-nd - 1, nd + 1)
    elif op == "expand_dims_t":
        k = rng.randrange(0, 4)
        c["axs"] = [p if rng.random() < 0.6 else p - (nd + k) for p in sorted(rng.sample(range(nd + k), k))]
        rng.shuffle(c["axs"])
    elif op == "atleast":
        c["k"] = rng.randrange(1, 4)
    elif op == "block3":
        c["planes"] = [[[list(shape) for _ in range(rng.randint(1, 2))]] for _ in range(rng.randint(1, 2))]
    elif op == "flip":
        c["ax"] = rng.choice([NONE, saxis])
    elif op == "rot90":
        a1, a2 = rng.sample(range(nd), 2)
        c["k"], c["a1"], c["a2"] = rng.randrange(-2, 5), a1, a2
    elif op == "roll":
        c["shift"], c["ax"] = rng.randrange(-7, 8), rng.choice([NONE, saxis])
    elif op == "take":
        n = shape[axis]
        c["idx"], c["ax"] = [rng.randrange(-n, n) for _ in range(rng.randrange(0, n + 3))], saxis
    elif op == "shuffle":
        n = shape[axis]
        p = [rng.randrange(n) for _ in range(rng.randrange(1, n + 2))]
        groups, i = [], 0
        while i < len(p):
            k = rng.randint(1, len(p) - i)
            groups.append(p[i:i + k])
            i += k
        c["groups"], c["ax"] = groups, axis
    elif op == "repeat":
        c["r"], c["ax"] = rng.randrange(0, 4), saxis
    elif op == "tile":
        # every length 0 .. ndim + 2, ones (a "nothing is repeated" argument that still adds axes) favoured
        c["reps"] = [rng.choice([0, 1, 1, 1, 2, 3]) for _ in range(rng.randrange(0, nd + 3))]
        if int(np.prod(shape)) * int(np.prod([max(r, 1) for r in c["reps"]])) > 150:
            c["reps"] = [2]
    elif op == "broadcast_to":
        for d in range(nd):
            if rng.random() < 0.5:
                shape[d] = 1
        c["tgt"] = [rng.choice([1, 2])] * rng.randrange(0, 2) + [rng.choice([s, 3]) if s == 1 else s for s in shape]
    elif op in ("tril", "triu"):
        c["k"] = rng.randrange(-3, 4)
    elif op == "diff":
        c["n"], c["ax"] = rng.randrange(0, 4), saxis
    elif op == "pad":
        c["mode"] = rng.choice(["constant", "edge", "reflect", "symmetric", "wrap", "maximum", "minimum", "mean"])
        c["cval"] = rng.choice([0, 7]) if c["mode"] == "constant" else 0
        c["pw"] = [[rng.choice([0, 0, 1, 2, s, s + 1, 2 * s + 1]) if rng.random() < 0.7 else 0 for _ in range(2)] for s in shape]
        if int(np.prod([s + b + a for s, (b, a) in zip(shape, c["pw"])])) > 250:
            c["pw"] = [[1, 0] for _ in shape]
    elif op == "concatenate":
        k = rng.randint(1, 3)
        c["shapes"] = [list(shape)] + [[rng.randrange(0, 4) if d == axis else s for d, s in enumerate(shape)] for _ in range(k - 1)]
        c["ax"] = saxis
    elif op == "stack":
        c["shapes"] = [list(shape) for _ in range(rng.randint(1, 3))]
        c["ax"] = rng.randrange(-nd - 1, nd + 1)
    elif op == "block1":
        c["shapes"] = [list(shape)] + [[rng.randrange(1, 4) if d == nd - 1 else s for d, s in enumerate(shape)]
                                       for _ in range(rng.randint(0, 2))]
    return c


def random_runs(ctx, n):
    items = []
    for i in range(n):
        case = random_case(ctx.rng)
        shapes = input_shapes(case)
        kinds = ["da"] + [ctx.rng.choice(["da", "np"]) for _ in shapes[1:]]
        run = {"chunks": [[_rand_chunking(ctx.rng, s) for s in sh] for sh in shapes], "kinds": kinds,
               "v": {"alt": ctx.rng.randrange(6), "merge": ctx.rng.random() < 0.6}}
        if case["op"] in ("shuffle", "take") and ctx.rng.random() < 0.5:
            near_identity(ctx.rng, case, run)
        items.append(("r%d" % i, case, run))
    return items


def near_identity(rng, case, run):
    """Replace the indexer of a shuffle / take case by one that is nearly the identity grouping of the chunks the
    input actually has along the axis (same group lengths, same first and last position of every group; interior
    positions exchanged inside a group, repeated, or exchanged between groups) - the inputs next to the
    'already shuffled the way we want' shortcut.  For take, the axis is re-chunked regularly with probability 1/2,
    since take regroups its index by the average chunk size."""
    ax = case["ax"] % len(case["shape"])
    n = case["shape"][ax]
    ch = [c for c in run["chunks"][0][ax] if c > 0] or [n]
    if case["op"] == "take" and rng.random() < 0.5 and n >= 3:
        k = rng.choice([d for d in range(1, n + 1) if n % d == 0 and d >= min(3, n)])
        ch = [k] * (n // k)
    run["chunks"][0][ax] = ch
    groups, o = [], 0
    for c in ch:
        groups.append(list(range(o, o + c)))
        o += c
    big = [g for g in groups if len(g) >= 3]
    kind = rng.choice(["swap", "dup", "cross", "identity", "swap"])
    if kind == "swap" and any(len(g) >= 4 for g in groups):
        g = rng.choice([g for g in groups if len(g) >= 4])
        i, j = rng.sample(range(1, len(g) - 1), 2)
        g[i], g[j] = g[j], g[i]
    elif kind in ("dup", "swap") and big:
        g = rng.choice(big)
        i = rng.randrange(1, len(g) - 1)
        g[i] = g[i - 1] if rng.random() < 0.5 else g[i + 1]
    elif kind == "cross" and len(big) >= 2:
        g, h = rng.sample(big, 2)
        i, j = rng.randrange(1, len(g) - 1), rng.randrange(1, len(h) - 1)
        g[i], h[j] = h[j], g[i]
    if case["op"] == "shuffle":
        case["groups"] = groups
    else:
        case["idx"] = [i for g in groups for i in g]
        case["ax"] = ax


def _record(item):
    rid, case, run = item
    obs, got = run_dask(case, run, whole=True)
    if "skip" in obs:
        return {"skip": obs["skip"]}
    obs = {k: v for k, v in obs.items() if k not in ("msg", "kind")}
    obs["cells"] = got if got is not None else []
    return {"id": rid, "c": case, "run": run, "obs": obs}


def validate(ctx, recs, label, report=True):
    spec, cfg = ctx.model(ctx.spec("array", "StructuralTrace.tla"), {})
    out = {}
    for lo in range(0, len(recs), 10000):
        part = recs[lo:lo + 10000]
        slim = [{"id": r["id"], "c": r["c"], "obs": r["obs"]} for r in part]
        rej = ctx.tlc_validate(spec, slim, cfg, timeout=1800, label="trace-validation:" + label)
        byid = {r["id"]: r for r in part}
        for rid, clauses in sorted(rej.items()):
            r = byid[rid]
            cl = next((n for n in ("UnexpectedRaise", "ErrorExpected", "Shape", "Content", "Meta") if '"%s"' % n in clauses[0]),
                      "Rejected")
            out[rid] = cl
            if report:
                ctx.violation(classify(r["c"], cl, r["run"], r["obs"]),
                              "TLC rejects a recorded %s call (%s)" % (r["c"]["op"], clauses[0]), {"record": r, "clauses": clauses})
    return out


def enumerate_cases(ctx, ops, shapes, max_chunk_nd, label, wide="{}"):
    spec, cfg = ctx.model(ctx.spec("array", "StructuralMC.tla"),
                          {"Ops": set(ops), "Shapes": TLA(shapes), "WideShapes": TLA(wide), "MaxChunkNd": max_chunk_nd},
                          invariants=INVS)
    cases, _ = ctx.tlc_cases(spec, cfg, label="design+cases:" + label, timeout=2400)
    chunkings = {tuple(c["c"]["shape"]): c["e"]["all"] for c in cases if c["c"]["op"] == "chunkings"}
    return [c for c in cases if c["c"]["op"] != "chunkings"], chunkings


def run(ctx):
    shapes = ctx.pick("{<<0>>, <<1>>, <<3>>, <<4>>, <<1, 3>>, <<2, 3>>, <<3, 1>>, <<4, 4>>, <<0, 2>>, <<2, 1, 3>>, <<2, 3, 2>>}",
                      "{<<0>>, <<1>>, <<2>>, <<3>>, <<4>>, <<1, 3>>, <<2, 3>>, <<3, 1>>, <<3, 4>>, <<4, 4>>, <<0, 2>>, <<1, 1>>, "
                      "<<2, 1, 3>>, <<2, 3, 2>>, <<1, 4, 1>>, <<3, 2, 4>>, <<0, 2, 2>>}")
    cases, chunkings = enumerate_cases(ctx, OPS, shapes, ctx.pick(2, 3), "structural",
                                       wide=ctx.pick("{<<6>>, <<2, 5>>}", "{<<5>>, <<6>>, <<7>>, <<2, 5>>, <<6, 2>>}"))
    total = len(cases)
    cap = ctx.pick(9000, 10 ** 9)
    sampled = len(cases) > cap
    if sampled:
        rel = [c for c in cases if "achunks" in c["c"]]
        rest = [c for c in cases if "achunks" not in c["c"]]
        cases = rel + ctx.rng.sample(rest, max(0, cap - len(rel)))
    items = replay_cases(ctx, cases, chunkings, ctx.pick(2, 6), ctx.pick(0, 16))
    for it in items[:3]:
        ctx.sample({"case": it[0], "expected": it[1], "run": it[2][0]})
    # code -> spec
    recs = []
    for r in pmap(_record, random_runs(ctx, ctx.pick(1500, 20000)), chunk=32):
        if "skip" in r:
            ctx.skip(r["skip"])
            continue
        recs.append(r)
        ctx.count(("rec", r["c"], r["run"]), r["obs"]["raised"] == "" and len(r["obs"]["cells"]) > 0)
    validate(ctx, recs, "random-calls")
    if recs:
        ctx.sample({"recorded_call": {"case": recs[0]["c"], "run": recs[0]["run"]}})
    ctx.exhaustive = False if (sampled or ctx.quick) else True
    ctx.extra["cases_enumerated_by_tlc"] = total
    ctx.extra["chunkings_enumerated_by_tlc"] = sum(len(v) for v in chunkings.values())
    ctx.rule = ("cases = TLC-enumerated (operation, input shapes, arguments) x TLC-enumerated chunkings of every input x input kinds "
                "(dask/NumPy) x spellings, plus recorded random calls; non-trivial = NumPy does not raise and the result is "
                "non-empty; distinct by (case, chunkings, kinds, spelling)")
    ctx.assumptions = ["NumPy per-block kernels are correct", "TLC evaluates the reference semantics correctly",
                       "shapes / arguments bounded as listed in tlc_runs constants"]


# --------------------------------------------------------------------------- replay
def replay(ctx, obj):
    c = obj["case"]
    if "record" in c:
        r = c["record"]
        rec = _record((r["id"], r["c"], r["run"]))
        rej = validate(ctx, [rec], "replay", report=False)
        print("observed:", rec["obs"], "rejected:", rej)
        return bool(rej)
    case, exp, run = c["case"], c["expected"], c["run"]
    obs, got = run_dask(case, run)
    cl = judge(exp, obs, got)
    print("case:", case, "\nrun:", run, "\nexpected:", exp, "\nobserved:", obs, got, "\nclause:", cl)
    return cl is not None


# --------------------------------------------------------------------------- selftest
def _selftest_replay(cases, chunkings, seed=11):
    """Run the case loop serially (mutants are patched in this process).  -> (#violations, {signature})"""
    import random
    rng = random.Random(seed)
    bad, sigs = 0, set()
    for c in cases:
        case, exp = c["c"], c["e"]
        if exp["err"]:
            continue
        for run in make_runs(case, chunkings, rng, 2, 0):
            if any(0 in ax and sum(ax) > 0 for ch in run["chunks"] for ax in ch):
                continue            # the self-test uses inputs on which unmutated dask is correct
            obs, got = run_dask(case, run)
            if "skip" in obs:
                continue
            cl = judge(exp, obs, got)
            if cl:
                bad += 1
                sigs.add(classify(case, cl, run, obs))
    return bad, sigs


def selftest(ctx):
    import copy
    import importlib
    from ..srcmut import mutant
    routines = importlib.import_module("dask.array.routines")
    creation = importlib.import_module("dask.array.creation")
    ok = True
    cases, chunkings = enumerate_cases(ctx, ["roll", "rot90", "tri", "pad", "flip", "shuffle", "take", "tile"], "{<<3>>, <<2, 3>>}", 2,
                                       "selftest", wide="{<<4>>, <<2, 4>>}")
    cases = [c for c in cases if not (c["c"]["op"] == "pad" and
                                      (c["c"]["mode"] not in ("reflect", "edge") or max(max(p) for p in c["c"]["pw"]) > 1))]
    base, sigs = _selftest_replay(cases, chunkings)
    print("selftest C24: unmutated dask on the self-test case set (%d cases): %d violations %s -> %s"
          % (len(cases), base, sorted(sigs), "ok" if base == 0 else "FAILED"))
    ok &= base == 0
    mutants = [
        ("M1 routines.roll: -s % shape -> s % shape  [sign slip]", routines, "roll",
         "s = 0 if shape == 0 else -s % shape", "s = 0 if shape == 0 else s % shape"),
        ("M2 creation.pad_reuse: reflect takes slice(1, pw+1) -> slice(0, pw)  [edge repeated]", creation, "pad_reuse",
         "select.append(slice(1, pw[0] + 1, None))", "select.append(slice(0, pw[0], None))"),
        ("M3 routines.rot90 (k == 3): flip along axes[1] -> axes[0]  [wrong operand]", routines, "rot90",
         "return flip(transpose(m, axes_list), axes[1])", "return flip(transpose(m, axes_list), axes[0])"),
        ("M4 routines.triu: mask k - 1 -> k  [boundary off by one]", routines, "triu", "k=k - 1,", "k=k,"),
        ("M6 creation.tile: early return 'nothing is repeated' when every rep is 1, also when reps is longer than the rank  "
         "[added shortcut]", creation, "tile", "    c = asarray(A)\n",
         "    c = asarray(A)\n    if all(nrep == 1 for nrep in tup):\n        return c\n"),
        ("M5 _shuffle._shuffle: 'already shuffled' shortcut compares only length, first and last of each group  [weakened test]",
         importlib.import_module("dask.array._shuffle"), "_shuffle", "if idx != list(range(ctr, ctr + c)):",
         "if len(idx) != c or (c and (idx[0] != ctr or idx[-1] != ctr + c - 1)):"),
    ]
    import dask.array as da
    for title, mod, fn, old, new in mutants:
        with mutant(mod, fn, old, new) as f:
            saved = getattr(da, fn, None)
            saved = saved if callable(saved) else None       # (da._shuffle is the submodule, not a re-export)
            if saved is not None:
                setattr(da, fn, f)          # dask.array re-exports the function object
            try:
                n, sigs = _selftest_replay(cases, chunkings)
            finally:
                if saved is not None:
                    setattr(da, fn, saved)
        print("selftest C24: mutant %s: %d violations %s -> %s" % (title, n, sorted(sigs)[:3], "DETECTED" if n > 0 else "MISSED"))
        ok &= n > 0
    # (ii) corrupted recorded fields are rejected by the trace specification
    good = []
    for item in random_runs(ctx, 40):
        r = _record(item)
        if "skip" not in r and r["obs"]["raised"] == "" and len(r["obs"]["cells"]) > 1 and \
                not any(0 in ax for ch in r["run"]["chunks"] for ax in ch):
            good.append(r)
        if len(good) == 3:
            break
    bads = []
    c1 = copy.deepcopy(good[0]); c1["id"] = "c_cells"
    c1["obs"]["cells"][0], c1["obs"]["cells"][-1] = c1["obs"]["cells"][-1], c1["obs"]["cells"][0]
    if c1["obs"]["cells"] == good[0]["obs"]["cells"]:
        c1["obs"]["cells"][0] += 1
    c2 = copy.deepcopy(good[1]); c2["id"] = "c_shape"; c2["obs"]["cshape"] = c2["obs"]["cshape"] + [1]
    c3 = copy.deepcopy(good[2]); c3["id"] = "c_chunks"; c3["obs"]["chunks"][0] = c3["obs"]["chunks"][0] + [1]
    bads = [c1, c2, c3]
    rej = validate(ctx, good + bads, "selftest", report=False)
    for r in good:
        print("selftest C24: uncorrupted record %s (%s) -> %s" % (r["id"], r["c"]["op"], "accepted" if r["id"] not in rej else "rejected  FAILED"))
        ok &= r["id"] not in rej
    for r in bads:
        print("selftest C24: corrupted record %s (%s) -> %s" % (r["id"], r["c"]["op"],
                                                               ("rejected (%s)" % rej[r["id"]]) if r["id"] in rej else "accepted  FAILED"))
        ok &= r["id"] in rej
    print("selftest C24: %s" % ("all binding checks hold" if ok else "FAILED"))
    return 0 if ok else 1
