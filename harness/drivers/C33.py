"""C33 - masked array operations equal numpy.ma.

spec -> code: TLC enumerates (specs/array/MaskedMC.tla) every (data fill, mask, operation, parameters) of the
bounded space - ALL masks for the small shapes - together with all chunkings of the shape and the result the
TLA+ reference semantics of numpy.ma (specs/array/Masked.tla) demands; every case is run on real dask arrays for
every chunking (quick: a seeded sample; all-masked blocks arise from the mask x chunking pairs), every output
block computed through its own key, data and mask observed separately.  code -> spec: seeded random calls on
larger arrays are recorded and TLC decides every record (MaskedTrace.tla).  numpy.ma is only the reference guard.

The data under a masked cell is a don't-care (both sides are canonicalised to 0 there) except for getdata /
filled of a freshly constructed masked array, which are plain results."""
from __future__ import annotations

import itertools
import math
import warnings
from fractions import Fraction

import numpy as np

from ..arrays import assemble, compute_blocks, py_chunks, raised, _nan_to
from ..core import TLA, MachineryError
from ..par import pmap
from .. import tlc as T
from .C22 import NONE, _mutate, py_axis, random_chunks, split_every

META = {
    "title": "Masked array operations equal numpy.ma",
    "design_ref": "DESIGN.md §4.3 C33",
    "technique": "TLA+ reference semantics of numpy.ma with cells [value, mask]; TLC enumerates all masks x operations x all "
                 "chunkings of small shapes; replay into dask (data and mask observed per block) + TLC validation of recorded calls",
    "level_text": "Small-scope exhaustive: for seeded data fills of every shape with <= 2 axes and <= 6 cells (thorough: plus (3,3)), ALL masks "
                  "(quick: all masks up to 4 cells, a seeded menu incl. all-masked above) x masked_array (ndarray / dask / scalar / "
                  "nomask mask, fill_value), re-wrapping a masked array with a new fill_value / a further mask, getdata, getmaskarray, filled, elementwise ops with masked and plain operands (mask = or, "
                  "domain mask of floor division), reductions skipping masked cells (sum prod min max any all mean count argmin argmax, "
                  "all axes, keepdims, split_every), cumsum/cumprod (sequential, blelloch), masked_equal/values/not_equal/greater(_equal)/"
                  "less(_equal)/inside/outside/where; dask is replayed on every chunking, block by block.",
    "level_note": "Trusted: TLC, the TLA+ reference (cross-checked against numpy.ma on every case; a disagreement is a machinery "
                  "error), the block-assembly projection. The value under a mask is not compared. masked_invalid / fix_invalid / "
                  "average with weights / set_fill_value / ma.where / nonzero are not covered; shapes bounded as listed.",
}

FOLD_OPS = {"sum", "prod", "min", "max", "any", "all", "mean", "count", "argmin", "argmax"}
BIN_OPS = {"add": "__add__", "sub": "__sub__", "mul": "__mul__", "floordiv": "__floordiv__", "lt": "__lt__"}
MASK_OPS = {"masked_equal", "masked_values", "masked_not_equal", "masked_greater", "masked_greater_equal", "masked_less",
            "masked_less_equal", "masked_inside", "masked_outside", "masked_where"}
PLAIN = {"getdata", "getmaskarray", "filled", "refill", "count", "argmin", "argmax"}


def variants_of(case):
    op = case["op"]
    if op in FOLD_OPS:
        return ["none", "2", "3", "dict"]
    if op in ("cumsum", "cumprod"):
        return ["sequential", "blelloch"]
    return ["-"]


def _arr(case, name, dtype="i8"):
    return np.array(case[name], dtype=dtype).reshape(tuple(case["shape"]))


def build(mod, ma, case, chunks, aux):
    """The masked input `a` of the case: with mod = numpy plain ndarrays, with mod = dask.array dask arrays chunked by
    `chunks` (data) and `aux` (a dask mask / second operand / condition)."""
    is_dask = chunks is not None
    wrap = (lambda x, ch: mod.from_array(x, chunks=py_chunks(ch))) if is_dask else (lambda x, ch: x)
    data = wrap(_arr(case, "data"), chunks)
    mask = _arr(case, "mask", bool)
    kw = {}
    if case["fv"]:
        kw["fill_value"] = case["fv"]
    mf = case["maskform"]
    if mf == "np":
        kw["mask"] = mask
    elif mf == "da":
        kw["mask"] = wrap(mask, aux)
    elif mf == "scalar":
        kw["mask"] = bool(mask.ravel()[0])
    return ma.masked_array(data, **kw), wrap


def apply_op(mod, ma, case, chunks, aux, variant):
    """The call under test (mod, ma = dask.array, dask.array.ma) or the reference call (numpy, numpy.ma)."""
    is_dask = chunks is not None
    a, wrap = build(mod, ma, case, chunks, aux)
    op = case["op"]
    if op == "id":
        return a
    if op in ("getdata", "getmaskarray"):
        return getattr(ma, op)(a)
    if op == "filled":
        return ma.filled(a, case["p"]) if case["p"] else ma.filled(a)
    if op in ("rewrap", "refill"):
        b = ma.masked_array(a, fill_value=case["p"])
        return ma.filled(b) if op == "refill" else b
    if op == "remask":
        return ma.masked_array(a, mask=_arr(case, "mask2", bool))
    if op == "neg":
        return -a
    if op == "mul2":
        return a * 2
    if op in BIN_OPS:
        b = wrap(_arr(case, "data2"), aux)
        if case["form2"] == "masked":
            b = ma.masked_array(b, mask=_arr(case, "mask2", bool))
        return getattr(a, BIN_OPS[op])(b)
    if op in FOLD_OPS:
        axis = py_axis(case["ax"])
        kw = {"split_every": split_every(case, variant)} if is_dask else {}
        if op == "count":
            return ma.count(a, axis=axis, keepdims=case["kd"], **kw)
        if op in ("argmin", "argmax"):
            if is_dask:
                return getattr(mod, op)(a, axis=axis, keepdims=case["kd"], **kw)
            return getattr(a, op)(axis=axis, keepdims=case["kd"])
        return getattr(a, op)(axis=axis, keepdims=case["kd"], **kw)
    if op in ("cumsum", "cumprod"):
        axis = py_axis(case["ax"])
        if is_dask:
            return getattr(mod, op)(a, axis=axis, method=variant)
        return getattr(a, op)(axis=axis)
    if op == "masked_where":
        return ma.masked_where(wrap(_arr(case, "cond", bool), aux), a)
    if op in ("masked_inside", "masked_outside"):
        return getattr(ma, op)(a, case["v1"], case["v2"])
    if op in MASK_OPS:
        return getattr(ma, op)(a, case["v1"])
    raise MachineryError("unknown operation %r" % op)


# ----------------------------------------------------------------------------- observation
def split(v):
    """(data, mask) of a computed value, canonical: 0 under the mask."""
    m = np.ma.getmaskarray(v)
    d = np.array(np.ma.getdata(v))
    if d.shape != m.shape:
        m = np.broadcast_to(m, d.shape)
    if d.dtype.kind in "biuf":
        d = np.where(m, np.zeros((), dtype=d.dtype), d)
    return d, m


def observe_masked(y, whole_too=False):
    lshape = [_nan_to(s) for s in y.shape]
    chunks = [[_nan_to(c) for c in ax] for ax in y.chunks]
    blocks, whole = compute_blocks(y, whole_too)
    numblocks = tuple(len(c) for c in y.chunks)
    complete = set(blocks) == set(itertools.product(*[range(n) for n in numblocks]))
    blocksok = complete
    dblocks, mblocks = {}, {}
    for idx, b in blocks.items():
        d, m = split(b)
        dblocks[idx], mblocks[idx] = d, m
        if d.ndim != len(numblocks):
            blocksok = False
            continue
        for ax, i in enumerate(idx):
            c = chunks[ax][i]
            if c >= 0 and d.shape[ax] != c:
                blocksok = False
    data = mask = None
    if complete and all(d.ndim == len(numblocks) for d in dblocks.values()):
        try:
            data, mask = assemble(dblocks, numblocks), assemble(mblocks, numblocks)
        except ValueError:
            blocksok = False
    obs = {"lshape": lshape, "chunks": chunks, "cshape": list(data.shape) if data is not None else [],
           "blocksok": bool(blocksok), "kind": np.dtype(y.dtype).kind, "raised": "",
           "ckind": data.dtype.kind if data is not None else ""}
    if whole is not None and data is not None:
        wd, wm = split(whole)
        if wd.shape != data.shape or not np.array_equal(wm, mask) or not np.array_equal(wd, data, equal_nan=True):
            obs["blocksok"] = False
    return obs, data, mask


def run_dask(case, chunks, aux, variant):
    import dask.array as da
    try:
        with warnings.catch_warnings():
            warnings.simplefilter("ignore")
            with np.errstate(all="ignore"):
                y = apply_op(da, da.ma, case, chunks, aux, variant)
                return observe_masked(y, whole_too=case.get("whole", False))
    except NotImplementedError as ex:
        return {"skip": "NotImplementedError: " + str(ex)[:60]}, None, None
    except Exception as ex:  # noqa: BLE001
        o = raised(ex)
        o["msg"] = str(ex)[:200]
        return o, None, None


# ----------------------------------------------------------------------------- comparison
def tolerance(case):
    return Fraction(max(1, len(case["data"])), 2 ** 40) * 4


def exp_cells(exp):
    """[(value Fraction | None, mask)] of the expected result."""
    out = []
    for v, m in exp["cells"]:
        if exp["rat"]:
            out.append((None if v[1] == 0 else Fraction(v[0], v[1]), m))
        else:
            out.append((Fraction(v), m))
    return out


def data_ok(case, exp, data, mask, exact=None):
    want = exp_cells(exp)
    d, m = list(np.asarray(data).ravel()), list(np.asarray(mask).ravel())
    if len(d) != len(want):
        return "Shape"
    if [int(bool(x)) for x in m] != [w[1] for w in want]:
        return "Mask"
    for (e, em), v in zip(want, d):
        if em:
            continue
        fv = float(v)
        if math.isnan(fv) or math.isinf(fv):
            return "Data"
        fr = Fraction(int(v)) if np.asarray(v).dtype.kind in "biu" else Fraction(fv)
        if exp["rat"]:
            if abs(fr - e) > tolerance(case) * max(1, abs(e)):
                return "Data"
        elif fr != e:
            return "Data"
    return None


def scalar_masked(exp):
    """numpy.ma returns the constant `masked` (a float64 0-d value) for a fully masked 0-d result: no dtype to compare."""
    return exp["shape"] == [] and len(exp["cells"]) == 1 and exp["cells"][0][1] == 1


def guard(case, exp):
    try:
        with warnings.catch_warnings():
            warnings.simplefilter("ignore")
            with np.errstate(all="ignore"):
                r = apply_op(np, np.ma, case, None, None, None)
    except Exception as ex:  # noqa: BLE001
        return None if exp["err"] else "numpy.ma raises %s: %s, spec has a value" % (type(ex).__name__, ex)
    if exp["err"]:
        return "spec says numpy.ma raises, it returns %r" % (r,)
    d, m = split(r)
    if list(d.shape) != list(exp["shape"]):
        return "shape: numpy %r spec %r" % (d.shape, exp["shape"])
    if d.dtype.kind != exp["kind"] and not scalar_masked(exp):
        return "dtype kind: numpy %r spec %r" % (d.dtype.kind, exp["kind"])
    cl = data_ok(case, exp, d, m)
    if cl:
        return "%s: numpy.ma data %r mask %r, spec %r" % (cl, d.tolist(), m.tolist(), exp["cells"])
    if exp["plain"] and isinstance(r, np.ma.MaskedArray) and np.ma.getmaskarray(r).any():
        return "spec says the result is plain, numpy.ma returns a masked value"
    return None


def judge(case, exp, obs, data, mask):
    if "skip" in obs:
        return None
    if exp["err"]:
        return None if obs["raised"] else "ErrorExpected"
    if obs["raised"]:
        return "UnexpectedRaise"
    if data is None or obs["cshape"] != list(exp["shape"]):
        return "Shape"
    cl = data_ok(case, exp, data, mask)
    if cl:
        return cl
    if (obs["kind"] != exp["kind"] or obs["ckind"] != exp["kind"]) and not scalar_masked(exp):
        return "Kind"
    for a, ch in enumerate(obs["chunks"]):
        if all(c >= 0 for c in ch):
            if sum(ch) != obs["cshape"][a] or obs["lshape"][a] != obs["cshape"][a]:
                return "Meta"
    if len(obs["chunks"]) != len(obs["cshape"]) or not obs["blocksok"]:
        return "Meta"
    return None


def opclass(op):
    if op in FOLD_OPS:
        return "reduce:" + op
    if op in ("cumsum", "cumprod"):
        return "scan:" + op
    if op in BIN_OPS or op in ("neg", "mul2"):
        return "elementwise:" + op
    if op in MASK_OPS:
        return "maskby:" + op
    return op


def classify(case, chunks, clause, variant):
    """Signature: operation, failing clause and the structural class of the input (mask class, spelling of the
    mask / operand, variant) - never concrete numbers."""
    n = len(case["mask"])
    k = sum(case["mask"])
    feats = ["nomask" if k == 0 else ("allmasked" if k == n else "somemasked")]
    # does some block consist of masked cells only?
    if 0 < k < n:
        shape = tuple(case["shape"])
        m = np.array(case["mask"], dtype=bool).reshape(shape)
        offs = [np.cumsum([0] + list(ch)) for ch in chunks]
        for idx in itertools.product(*[range(len(ch)) for ch in chunks]):
            sl = tuple(slice(int(o[i]), int(o[i + 1])) for o, i in zip(offs, idx))
            if m[sl].size and m[sl].all():
                feats.append("allmasked-block")
                break
    if case["op"] in ("id", "filled", "rewrap", "refill"):
        feats.append("mask=" + case["maskform"])
    if case["op"] in BIN_OPS:
        feats.append("other=" + case["form2"])
    if case["op"] in ("cumsum", "cumprod"):
        feats.append(str(variant))
    if case["op"] in FOLD_OPS and case["ax"] == [NONE]:
        feats.append("axis=None")
    return "%s:%s:%s" % (opclass(case["op"]), clause, "+".join(feats))


def slim(case):
    return {k: v for k, v in case.items() if k != "chunkings"}


def _work(item):
    case, exp, chunks, aux, variants = item
    g = guard(case, exp)
    if g is not None:
        return [("GUARD", None, g)]
    res = []
    for v in variants:
        obs, data, mask = run_dask(case, chunks, aux, v)
        if "skip" in obs:
            res.append(("SKIP", v, obs["skip"]))
            continue
        cl = judge(case, exp, obs, data, mask)
        det = None
        if cl:
            det = {"obs": obs, "data": None if data is None else np.asarray(data).tolist(),
                   "mask": None if mask is None else np.asarray(mask).astype(int).tolist()}
        res.append((cl, v, det))
    return res


def replay_cases(ctx, items, on_violation=None):
    results = pmap(_work, items, chunk=32)
    for (case, exp, chunks, aux, _v), res in zip(items, results):
        for cl, variant, detail in res:
            if cl == "GUARD":
                raise MachineryError("TLA+ reference disagrees with numpy.ma on %r: %s (spec=%r)" % (slim(case), detail, exp))
            if cl == "SKIP":
                ctx.skip(detail)
                continue
            nontrivial = (not exp["err"]) and sum(case["mask"]) > 0 and sum(len(c) for c in chunks) > len(chunks)
            ctx.count((slim(case), chunks, aux, variant), nontrivial)
            if cl:
                sig = classify(case, chunks, cl, variant)
                if on_violation:
                    on_violation(sig, cl)
                else:
                    ctx.violation(sig, "%s: dask disagrees with numpy.ma on %s" % (cl, case["op"]),
                                  {"case": slim(case), "chunks": chunks, "aux": aux, "expected": exp, "variant": variant,
                                   "observed": detail})


# ----------------------------------------------------------------------------- TLC constants
def make_fills(ctx):
    rng = ctx.rng
    shapes = [(n,) for n in range(1, ctx.pick(4, 6) + 1)] + [(a, b) for a in (1, 2, 3) for b in (1, 2, 3) if not (ctx.quick and a * b == 9)]
    fills, menu = [], []
    allupto = ctx.pick(4, 6)
    for sh in shapes:
        n = int(np.prod(sh))
        fills.append({"shape": list(sh), "data": [rng.choice((0, 1, 2, 3)) for _ in range(n)],
                      "data2": [rng.choice((0, 1, 2, 3)) for _ in range(n)],
                      "cond": [rng.choice((0, 1)) for _ in range(n)]})
        if n > allupto:
            masks = {tuple([0] * n), tuple([1] * n)}
            want = ctx.pick(6, 24)
            # masks that make whole rows / leading runs masked (all-masked blocks), then random ones
            if len(sh) == 2:
                row = [0] * n
                for j in range(sh[1]):
                    row[j] = 1
                masks.add(tuple(row))
                masks.add(tuple(1 if j % sh[1] == 0 else 0 for j in range(n)))
            else:
                masks.add(tuple(1 if j < n // 2 else 0 for j in range(n)))
            while len(masks) < want:
                masks.add(tuple(rng.choice((0, 0, 1)) for _ in range(n)))
            menu += [{"shape": list(sh), "mask": list(m)} for m in sorted(masks)]
    return fills, menu, allupto


def _rec(d, keys):
    return "[" + ", ".join("%s |-> %s" % (k, T.tla_value(d[k])) for k in keys) + "]"


INVARIANTS = ["CellCount", "Canonical", "MaskMonotone", "CountComplement", "SumOfUnmasked", "AllMaskedLane", "FilledAgrees",
              "RewrapKeepsMask", "RefillUsesNew",
              "UnmaskedAgrees"]


def enumerate_cases(ctx, fills, menu, allupto, label="design+cases"):
    consts = {"Fills": TLA("{" + ", ".join(_rec(f, ("shape", "data", "data2", "cond")) for f in fills) + "}"),
              "AllMasksUpTo": allupto,
              "MaskMenu": TLA("{" + ", ".join(_rec(m, ("shape", "mask")) for m in menu) + "}")}
    spec, cfg = ctx.model(ctx.spec("array", "MaskedMC.tla"), consts, invariants=INVARIANTS)
    cases, r = ctx.tlc_cases(spec, cfg, label=label, timeout=3000)
    return [c for c in cases if c], r


# ----------------------------------------------------------------------------- code -> spec
def random_case(rng):
    nd = rng.choice([1, 2, 2, 3])
    shape = [rng.randint(1, 10)] if nd == 1 else ([rng.randint(1, 5), rng.randint(1, 4)] if nd == 2 else
                                                   [rng.randint(1, 3), rng.randint(1, 3), rng.randint(1, 3)])
    n = int(np.prod(shape))
    op = rng.choice(["id", "getdata", "getmaskarray", "filled", "rewrap", "refill", "refill", "remask", "neg", "mul2", "add", "sub", "mul", "floordiv", "lt",
                     "sum", "prod", "min", "max", "any", "all", "mean", "count", "argmin", "argmax", "sum", "mean", "min",
                     "cumsum", "cumprod"] + sorted(MASK_OPS))
    prodlike = op in ("prod", "cumprod")
    data = [rng.choice((1, 1, 1, 2, 0, 3) if prodlike else (0, 1, 2, 3)) for _ in range(n)]
    if prodlike:
        big = 1
        for i, v in enumerate(data):
            if v > 1:
                big *= v
                if big > 2 ** 20:
                    data[i] = 1
    style = rng.random()
    if style < 0.15:
        mask = [0] * n
    elif style < 0.25:
        mask = [1] * n
    elif style < 0.6 and nd >= 2:      # whole leading slices masked: all-masked blocks and lanes
        inner = n // shape[0]
        rows = [rng.random() < 0.5 for _ in range(shape[0])]
        mask = [1 if rows[j // inner] else rng.choice((0, 0, 1)) for j in range(n)]
    else:
        mask = [rng.choice((0, 0, 1)) for _ in range(n)]
    case = {"shape": shape, "data": data, "mask": mask, "op": op, "fv": 0, "p": 0,
            "maskform": rng.choice(["np", "da"]), "chunks": random_chunks(rng, shape, zero_p=0), "aux": random_chunks(rng, shape, zero_p=0)}
    singles = [[a] for a in range(-nd, nd)]
    if op == "filled":
        if rng.random() < 0.5:
            case["p"] = 7
        else:
            case["fv"] = 8
    if op in ("rewrap", "refill"):
        case["p"] = rng.choice((5, 7))
        case["fv"] = rng.choice((0, 8))
    if op == "remask":
        case["mask2"] = [rng.choice((0, 0, 1)) for _ in range(n)]
    if op in BIN_OPS:
        case.update(data2=[rng.choice((0, 1, 2, 3)) for _ in range(n)], form2=rng.choice(["masked", "plain"]))
        case["mask2"] = [rng.choice((0, 0, 1)) for _ in range(n)] if case["form2"] == "masked" else [0] * n
    if op in FOLD_OPS:
        axes = singles if op in ("argmin", "argmax") else singles + [[NONE]] + ([[0, 1]] if nd >= 2 else []) + ([[0, 2], [0, 1, 2]] if nd == 3 else [])
        case.update(ax=rng.choice(axes), kd=rng.random() < 0.4)
    if op in ("cumsum", "cumprod"):
        case.update(ax=rng.choice(singles + [[NONE]]))
    if op in MASK_OPS:
        case.update(v1=rng.choice((0, 1, 2, 3)), v2=rng.choice((0, 1, 2, 3)), cond=[rng.choice((0, 1)) for _ in range(n)])
    case["variant"] = rng.choice(variants_of(case))
    case["whole"] = True
    return case


def _record(item):
    i, case = item
    obs, data, mask = run_dask(case, case["chunks"], case["aux"], case["variant"])
    if "skip" in obs:
        return None
    obs = dict(obs)
    obs.pop("msg", None)
    dl, ml, close = [], [], True
    if data is not None:
        for v, m in zip(np.asarray(data).ravel(), np.asarray(mask).ravel()):
            ml.append(int(bool(m)))
            if case["op"] == "mean":
                if m:
                    dl.append([0, 0])
                    continue
                fv = float(v)
                if math.isnan(fv) or math.isinf(fv):
                    dl.append([0, 0])
                    close = False
                    continue
                small = Fraction(fv).limit_denominator(1 << 12)
                if abs(Fraction(fv) - small) > tolerance(case) * max(1, abs(small)):
                    close = False
                dl.append([small.numerator, small.denominator])
            else:
                fv = float(v)
                if math.isnan(fv) or math.isinf(fv) or fv != int(fv) or abs(fv) >= 2 ** 30:
                    dl.append(0)
                    close = False
                else:
                    dl.append(int(fv))
    obs.update(data=dl, mask=ml, close=bool(close))
    rec = {k: v for k, v in case.items() if k != "whole"}
    rec["id"] = "r%d" % i
    rec["obs"] = obs
    return rec


def validate_records(ctx, recs, on_violation=None):
    spec, cfg = ctx.model(ctx.spec("array", "MaskedTrace.tla"), {})
    for lo in range(0, len(recs), 4000):
        part = recs[lo:lo + 4000]
        rej = ctx.tlc_validate(spec, part, cfg, timeout=1800)
        byid = {r["id"]: r for r in part}
        for r in part:
            ctx.count(("rec", {k: v for k, v in r.items() if k not in ("obs", "id")}),
                      r["obs"]["raised"] == "" and sum(r["mask"]) > 0)
        for rid, clauses in rej.items():
            r = byid[rid]
            cl = clauses[0].strip("{}\" ").split('"')[0] or "Rejected"
            sig = classify(r, r["chunks"], cl, r["variant"])
            if on_violation:
                on_violation(sig, cl)
            else:
                ctx.violation(sig, "TLC rejects a recorded numpy.ma-style call (%s)" % clauses[0], {"record": r, "clauses": clauses})


# ----------------------------------------------------------------------------- entry points
def run(ctx):
    thorough = not ctx.quick
    fills, menu, allupto = make_fills(ctx)
    cases, _ = enumerate_cases(ctx, fills, menu, allupto)
    shared = {}
    for c in cases:
        c["c"]["chunkings"] = shared.setdefault(tuple(c["c"]["shape"]), c["c"]["chunkings"])
    counts = [len(c["c"]["chunkings"]) for c in cases]
    total_pairs = sum(counts)
    cap = ctx.pick(5000, 100000)
    sampled = total_pairs > cap
    picks = sorted(ctx.rng.sample(range(total_pairs), cap)) if sampled else range(total_pairs)
    items, ci, base = [], 0, 0
    for p in picks:
        while p >= base + counts[ci]:
            base += counts[ci]
            ci += 1
        c = cases[ci]
        chs = c["c"]["chunkings"]
        vs = variants_of(c["c"])
        if not thorough and len(vs) > 2:
            vs = ctx.rng.sample(vs, 2)
        items.append((c["c"], c["e"], chs[p - base], ctx.rng.choice(chs), vs))
    replay_cases(ctx, items)
    seen = set()
    for it in items:
        oc = opclass(it[0]["op"]).split(":")[0]
        if oc not in seen and sum(it[0]["mask"]) > 0:
            seen.add(oc)
            ctx.sample({"case": slim(it[0]), "chunks": it[2], "expected": it[1]})
    nrec = ctx.pick(600, 8000)
    recs = [r for r in pmap(_record, [(i, random_case(ctx.rng)) for i in range(nrec)], chunk=32) if r is not None]
    validate_records(ctx, recs)
    ctx.exhaustive = not sampled
    ctx.rule = ("cases = TLC-enumerated (data fill, mask, operation, parameters) x every chunking of the shape (second operand / "
                "dask mask / condition chunked by a seeded choice) x split_every/method variants, plus recorded random calls; "
                "non-trivial = at least one masked cell, more than one block, not an expected error; distinct by (case, chunkings, variant)")
    ctx.extra["cases_enumerated_by_tlc"] = len(cases)
    ctx.extra["case_x_chunking_pairs"] = total_pairs
    ctx.extra["pairs_replayed"] = len(items)
    ctx.extra["all_masks_up_to_cells"] = allupto
    ctx.assumptions = ["numpy.ma per-block kernels are correct", "TLC evaluates the reference semantics correctly",
                       "data fills are seeded samples over values 0..3; all masks only up to the stated cell count",
                       "the value under a masked cell is not compared"]


def replay(ctx, obj):
    c = obj["case"]
    if "record" in c:
        r = c["record"]
        case = {k: v for k, v in r.items() if k not in ("obs", "id")}
        case["whole"] = True
        rec = _record((int(r["id"][1:]), case))
        spec, cfg = ctx.model(ctx.spec("array", "MaskedTrace.tla"), {})
        rej = ctx.tlc_validate(spec, [rec], cfg)
        print("observed:", rec["obs"], "rejected:", rej)
        return bool(rej)
    case, exp = c["case"], c["expected"]
    obs, data, mask = run_dask(case, c["chunks"], c["aux"], c["variant"])
    cl = judge(case, exp, obs, data, mask)
    print("case:", case, "\nchunks:", c["chunks"], "aux:", c["aux"], "variant:", c["variant"], "\nexpected:", exp, "\nobserved:", obs,
          None if data is None else np.asarray(data).tolist(), None if mask is None else np.asarray(mask).astype(int).tolist(),
          "\nclause:", cl)
    return cl is not None


# ----------------------------------------------------------------------------- selftest
def selftest(ctx):
    import copy
    import dask.array.ma as M
    import dask.array.reductions as R
    rng = ctx.rng
    fills = [{"shape": [4], "data": [2, 0, 3, 1], "data2": [1, 0, 2, 3], "cond": [0, 1, 1, 0]},
             {"shape": [2, 2], "data": [1, 3, 0, 2], "data2": [0, 2, 1, 3], "cond": [1, 0, 0, 1]}]
    cases, _ = enumerate_cases(ctx, fills, [], 4, label="selftest cases")
    known = set(ctx.known)

    def items_for(pred, limit=50):
        pairs = [(c, ch) for c in cases if pred(c["c"]) and 0 < sum(c["c"]["mask"]) for ch in c["c"]["chunkings"]]
        pairs = rng.sample(pairs, min(limit, len(pairs)))
        return [(c["c"], c["e"], ch, rng.choice(c["c"]["chunkings"]), variants_of(c["c"])) for c, ch in pairs]

    def new_violations(items):
        found = []
        replay_cases(ctx, items, on_violation=lambda sig, cl: found.append((sig, cl)))
        return [f for f in found if f[0] not in known]

    mutants = [
        ("masked_array: the mask is aligned with the data axes in reverse order",
         [M], "masked_array", "arginds.extend([mask, inds])", "arginds.extend([mask, inds[::-1]])",
         lambda c: c["op"] in ("id", "getmaskarray", "filled") and len(c["shape"]) == 2),
        ("filled: the fill value argument is dropped",
         [M], "filled", "fill_value=fill_value)", "fill_value=None)",
         lambda c: c["op"] == "filled"),
        ("masked_where: the input array is passed where the condition belongs",
         [M], "masked_where", "np.ma.masked_where, ainds, condition, cinds, a, ainds", "np.ma.masked_where, ainds, a, ainds, a, ainds",
         lambda c: c["op"] == "masked_where"),
        ("_cumsum_merge: the carried block's mask is used instead of the current block's",
         [R], "_cumsum_merge", "mask=np.ma.getmaskarray(b)", "mask=np.ma.getmaskarray(a)",
         lambda c: c["op"] == "cumsum"),
        ("arg_chunk: masked cells filled with the fill value of the opposite extreme",
         [R], "arg_chunk", 'if "min" in argfunc.__name__:', 'if "max" in argfunc.__name__:',
         lambda c: c["op"] in ("argmin", "argmax")),
        ("_chunk_count: counts every cell, masked or not",
         [M], "_chunk_count", "np.ma.count(x, axis=axis", "np.ma.count(np.ma.getdata(x), axis=axis",
         lambda c: c["op"] == "count"),
    ]
    ok = True
    for what, mods, fn, old, new, pred in mutants:
        items = items_for(pred)
        base = new_violations(items)
        restore = _mutate(mods, fn, old, new)
        try:
            got = new_violations(items)
        finally:
            restore()
        good = not base and len(got) > 0
        ok = ok and good
        print("selftest mutant [%s]: %s -> %s (%d evaluations of %d cases flagged, e.g. %s; unmutated: %d)"
              % (fn, what, "DETECTED" if good else "MISSED", len(got), len(items), got[0][0] if got else "-", len(base)))
    recs, i = [], 0
    while len(recs) < 32 and i < 300:
        i += 1
        case = random_case(rng)
        r = _record((i, case))
        if r is not None and r["obs"]["raised"] == "" and len(r["obs"]["data"]) > 1 and 0 in r["obs"]["mask"]:
            recs.append(r)
    corrupt = []
    for j, r in enumerate(recs):
        c = copy.deepcopy(r)
        kind = j % 4
        if kind == 0:          # one recorded mask bit flipped
            c["obs"]["mask"][-1] = 1 - c["obs"]["mask"][-1]
            c["want"] = "Mask"
        elif kind == 1:        # one unmasked recorded value changed
            p = c["obs"]["mask"].index(0)
            cell = c["obs"]["data"][p]
            c["obs"]["data"][p] = [cell[0] + 1, max(1, cell[1])] if isinstance(cell, list) else cell + 1
            c["want"] = "Data"
        elif kind == 2:        # an output block was dropped from the record
            c["obs"]["blocksok"] = False
            c["want"] = "Meta"
        else:                  # recorded shape changed
            c["obs"]["cshape"] = c["obs"]["cshape"] + [1]
            c["want"] = "Shape"
        c["id"] = "x" + r["id"]
        corrupt.append(c)
    spec, cfg = ctx.model(ctx.spec("array", "MaskedTrace.tla"), {})
    rej = ctx.tlc_validate(spec, recs + corrupt, cfg)
    rej0 = {k: v for k, v in rej.items() if not k.startswith("x")}
    clean = [r for r in recs if r["id"] not in rej0]
    corrupt = [c for c in corrupt if c["id"][1:] not in rej0]
    missed = [c["id"] for c in corrupt if c["id"] not in rej or c["want"] not in rej[c["id"]][0]]
    good = bool(clean) and not missed and len(rej0) <= len(recs) // 4
    ok = ok and good
    print("selftest trace: %d recorded calls accepted (%d rejected before corruption); %d corrupted copies "
          "(mask bit / value / dropped block / shape) -> %d rejected with the expected clause: %s"
          % (len(clean), len(rej0), len(corrupt), len(corrupt) - len(missed), "DETECTED" if good else "MISSED %r" % missed[:3]))
    print("C33 selftest: %s" % ("ok" if ok else "FAILED"))
    return 0 if ok else 1
