"""C29 - storing arrays writes exactly the array into the targets.

Pattern A.  specs/array/Store.tla gives the geometry of da.store (which cell of which target every
element of every block goes to) and the operations of a store call as functions on a state record
(targets, written cells, writes in flight, lock holder) together with the clauses of the property.
StoreMC.tla is the state machine of one call (one task per block: [acquire] write-begin write-end
[load] [release]; compute=False; return_stored): TLC explores every interleaving of the block tasks of
a menu of calls (several sources, several targets, two sources in one target, stepped regions) under
every lock mode and checks the clauses as invariants / action properties / termination.

spec -> code: (i) complete behaviours are exported and executed on the real da.store with a scheduler
whose worker threads park at gates (lock release, __setitem__ entry / exit, __getitem__) and are let
through in exactly the order of the behaviour; after every step the real targets, lock holder, writes in
flight and loaded blocks are compared with the specification state.  (ii) StoreCasesMC.tla enumerates
every chunking x region (offsets, steps, padding) of small sources with the expected target content;
each case runs through the real da.store (NumPy `t[region] = x` is the reference guard).
code -> spec: targets are array-likes whose __setitem__ / __getitem__ log write-enter / write-exit /
read events, the caller's lock logs acquire / release, all with sequence numbers taken under one
harness lock; calls run on the synchronous and the threaded scheduler with random chunkings, regions,
locks, return_stored, compute=False, several sources and targets; TLC (StoreTrace.tla) decides every
recorded trace.  to_npy_stack / from_npy_stack: TLC enumerates every chunking x axis of small shapes;
the round trip is recorded and decided by TLC."""
from __future__ import annotations

import itertools
import os
import random
import threading
import time

import numpy as np

from ..core import TLA, MachineryError
from ..par import pmap

META = {
    "title": "Storing arrays writes exactly the array into the targets",
    "design_ref": "DESIGN.md §4.3 C29",
    "technique": "TLA+ state machine of da.store (block tasks, lock, compute=False, return_stored) model-checked by TLC over all "
                 "interleavings; behaviours replayed on the real store through a gate-controlled scheduler; event traces of "
                 "real sync/threaded runs on instrumented targets and locks validated by TLC; TLC-enumerated region/chunking "
                 "cases and npy-stack round trips replayed",
    "level_text": "TLC checks every interleaving of the block tasks (acquire / write-begin / write-end / load / release) of a menu "
                  "of store calls (1-2 sources, <= 4 (quick) / 6 (thorough) blocks, 1-d and 2-d, two targets, two sources in one "
                  "target, stepped regions) x lock in {False, True, Lock()} x {compute, compute+return_stored, compute=False, "
                  "compute=False+return_stored}: writes never overlap, are mutually exclusive under a lock, land only on their "
                  "own cells, every cell is written once, target[region] = source and the rest is untouched at the end, nothing "
                  "happens before compute, loads follow their store, every schedule terminates. Complete behaviours are replayed "
                  "step by step on da.store (all for the small calls, sampled for the others). Every chunking x region offset / "
                  "step / padding of sources up to (2,3) (quick) / (3,3),(2,2,2) (thorough) is replayed; recorded traces of "
                  "random calls on the synchronous and threaded schedulers are decided by TLC. npy stack: every chunking x axis "
                  "of shapes with extents <= 5 (1-d) / <= 3 (2-d, 3-d).",
    "level_note": "Trusted: TLC, the instrumented target / lock (positions via an index grid), NumPy assignment as reference guard. "
                  "The property is judged cell by cell (how many __setitem__ calls dask uses is free). lock=True builds dask's own "
                  "lock, which is not observed: only its effect (no two writes in flight) is. Not decided: the multiprocessing and "
                  "distributed schedulers, targets other than in-memory array-likes (zarr/h5py), load_stored given explicitly, "
                  "overlapping regions in one call (caller error), real-time overlap of NumPy writes inside one __setitem__.",
}

INVS = ["WritesRespectContract", "NoOverlap", "MutualExclusion", "OutsideUntouched", "WrittenCorrect", "NothingBeforeCompute",
        "FinalContent", "LoadSeesStored", "LoadsComplete", "HolderIsActive"]
PROPS = ["WrittenOnce", "Terminates"]
SMODES = {"now": (True, False), "nowret": (True, True), "lazy": (False, False), "lazyret": (False, True)}   # compute, return_stored


def src(shape, chunks, tgt, start=None, step=None, base=0):
    nd = len(shape)
    return {"shape": list(shape), "chunks": [list(c) for c in chunks], "tgt": tgt, "start": list(start or [0] * nd),
            "step": list(step or [1] * nd), "base": base}


# the calls whose interleavings TLC explores (positive chunks; <= 4 blocks) ...
MENU = [
    {"tshape": [[6]], "src": [src([4], [[1, 2, 1]], 1, [1])]},
    {"tshape": [[3, 3]], "src": [src([2, 2], [[1, 1], [1, 1]], 1, [1, 0])]},
    {"tshape": [[4], [2]], "src": [src([3], [[2, 1]], 1, [1]), src([2], [[1, 1]], 2, base=3)]},
    {"tshape": [[5]], "src": [src([2], [[1, 1]], 1), src([2], [[2]], 1, [3], base=2)]},
    {"tshape": [[6]], "src": [src([3], [[1, 2]], 1, [1], [2])]},
    {"tshape": [[2, 2]], "src": [src([2, 2], [[2], [1, 1]], 1)]},
]
# ... and the larger ones of the thorough tier (<= 6 blocks)
MENU_T = [
    {"tshape": [[4, 5]], "src": [src([2, 3], [[1, 1], [2, 1]], 1, [1, 2])]},
    {"tshape": [[7], [3, 2]], "src": [src([3], [[1, 1, 1]], 1, [1], [2]), src([3, 2], [[1, 2], [2]], 2, base=3)]},
    {"tshape": [[4, 2]], "src": [src([2, 2], [[1, 1], [2]], 1), src([2, 2], [[2], [1, 1]], 1, [2, 0], base=4)]},
    {"tshape": [[8]], "src": [src([6], [[1, 1, 2, 1, 1]], 1, [2])]},
]


# ------------------------------------------------------------------ instrumentation
class GateTimeout(Exception):
    pass


class Recorder:
    """The event log of one run.  Sequence numbers = positions in `ev`, taken under one lock."""

    def __init__(self, seed=0, sleepy=False):
        self.lock = threading.Lock()
        self.ev = []
        self.names = {}
        self.rnd = random.Random(seed)
        self.sleepy = sleepy
        self.gates = None           # set in stepper mode

    def who(self):
        t = threading.current_thread()
        task = getattr(t, "verif_task", None)
        if task is not None:
            return task
        with self.lock:
            return self.names.setdefault(t.ident, len(self.names) + 1)

    def emit(self, e):
        with self.lock:
            self.ev.append(e)

    def pause(self):
        if self.sleepy:
            with self.lock:
                d = self.rnd.choice((0, 0, 0.0002, 0.001))
            if d:
                time.sleep(d)


class Target:
    """An in-memory array-like that logs every write (enter / exit) and read with the 1-based row-major
    positions it touches.  It tokenizes like the ndarray it wraps, i.e. like a plain NumPy target."""

    def __init__(self, tid, shape, rec):
        self.tid = tid
        self.a = np.zeros(tuple(shape), dtype="i8")
        self.shape = self.a.shape
        self.dtype = self.a.dtype
        self.ndim = self.a.ndim
        self.grid = np.arange(1, self.a.size + 1, dtype="i8").reshape(self.shape)
        self.rec = rec

    def __dask_tokenize__(self):
        from dask.tokenize import normalize_token
        return normalize_token(self.a)

    def __setitem__(self, key, value):
        rec = self.rec
        pos = self.grid[key]
        val = np.broadcast_to(np.asarray(value), pos.shape)
        who = rec.who()
        e = {"a": "wb", "who": who, "t": self.tid, "pos": [int(v) for v in pos.ravel()], "val": [int(v) for v in val.ravel()]}
        if rec.gates is not None:
            rec.gates.arrive(who, "wb", e)
            rec.emit(e)
            rec.gates.arrive(who, "we", None)
        else:
            rec.emit(e)
            rec.pause()
        self.a[key] = value
        rec.emit({"a": "we", "who": who})

    def __getitem__(self, key):
        rec = self.rec
        who = rec.who()
        pos = self.grid[key]
        if rec.gates is not None:
            rec.gates.arrive(who, "rd", None)
        v = np.array(self.a[key])
        rec.emit({"a": "rd", "who": who, "t": self.tid, "pos": [int(x) for x in np.asarray(pos).ravel()],
                  "val": [int(x) for x in v.ravel()]})
        return v

    def cells(self):
        return [int(v) for v in self.a.ravel()]


_lock_ids = itertools.count()


class RecLock:
    """The caller's Lock object: a real lock that logs who holds it."""

    def __init__(self, rec):
        self.rec = rec
        self._l = threading.Lock()
        self.owner = 0
        self._tok = "verif-lock-%d-%d" % (os.getpid(), next(_lock_ids))

    def __dask_tokenize__(self):
        return self._tok

    def acquire(self, blocking=True, timeout=-1):
        if self.rec.gates is not None and blocking and timeout == -1:
            ok = self._l.acquire(True, 10)
            if not ok:
                raise GateTimeout("lock not released")
        else:
            ok = self._l.acquire(blocking, timeout)
        if ok and not isinstance(self.rec.who(), _Probe):
            self.owner = self.rec.who()
            self.rec.emit({"a": "acq", "who": self.owner})
        return ok

    def release(self):
        who = self.rec.who()
        if isinstance(who, _Probe):
            self._l.release()
            return
        if self.rec.gates is not None:
            self.rec.gates.arrive(who, "rel", None)
        self.rec.emit({"a": "rel", "who": who})
        self.owner = 0
        self._l.release()

    def __enter__(self):
        self.acquire()
        return self

    def __exit__(self, *a):
        self.release()

    def locked(self):
        return self._l.locked()


# ------------------------------------------------------------------ building a real call
def n_blocks(call):
    return sum(int(np.prod([len(c) for c in s["chunks"]])) for s in call["src"])


def has_zero_chunk(call):
    return any(0 in c for s in call["src"] for c in s["chunks"])


def dup_pairs(call):
    """pairs of sources that are the same dask array stored into different targets of equal shape, same region"""
    out = []
    for i, a in enumerate(call["src"]):
        for j in range(i + 1, len(call["src"])):
            b = call["src"][j]
            if (a["base"], a["shape"], a["chunks"], a["start"], a["step"]) == (b["base"], b["shape"], b["chunks"], b["start"], b["step"]) \
                    and a["tgt"] != b["tgt"] and call["tshape"][a["tgt"] - 1] == call["tshape"][b["tgt"] - 1]:
                out.append((i, j))
    return out


def build(call, rec, plain=False, region_style=0):
    """-> (sources, targets (one per source), regions, target objects)"""
    import dask.array as da
    tobjs = [np.zeros(tuple(s), dtype="i8") if plain else Target(i + 1, s, rec) for i, s in enumerate(call["tshape"])]
    made = {}
    sources, targets, regions = [], [], []
    for s in call["src"]:
        key = (s["base"], tuple(s["shape"]), tuple(map(tuple, s["chunks"])))
        if key not in made:      # the same (base, shape, chunks) twice = the same dask array stored twice
            n = int(np.prod(s["shape"])) if s["shape"] else 1
            made[key] = da.from_array(np.arange(s["base"] + 1, s["base"] + n + 1, dtype="i8").reshape(tuple(s["shape"])),
                                      chunks=tuple(map(tuple, s["chunks"])))
        sources.append(made[key])
        targets.append(tobjs[s["tgt"] - 1])
        tsh = call["tshape"][s["tgt"] - 1]
        trivial = all(a == 0 and st == 1 and n == t for a, st, n, t in zip(s["start"], s["step"], s["shape"], tsh))
        if trivial and region_style % 2 == 0:
            regions.append(None)
        else:
            reg = []
            for a, st, n, t in zip(s["start"], s["step"], s["shape"], tsh):
                last = a + st * (max(n, 1) - 1)
                stop = last + 1 if n else a
                if region_style >= 2 and n and stop == t:
                    stop = None
                reg.append(slice(a if (a or region_style < 2) else None, stop, st if (st != 1 or region_style % 3 == 0) else None))
            regions.append(tuple(reg))
    return sources, targets, regions, tobjs


def numpy_reference(call):
    """t[region] = x with plain NumPy: the reference guard for Store!Expected"""
    ts = [np.zeros(tuple(s), dtype="i8") for s in call["tshape"]]
    for s in call["src"]:
        n = int(np.prod(s["shape"])) if s["shape"] else 1
        x = np.arange(s["base"] + 1, s["base"] + n + 1, dtype="i8").reshape(tuple(s["shape"]))
        reg = tuple(slice(a, a + st * (max(m, 1) - 1) + 1 if m else a, st) for a, st, m in zip(s["start"], s["step"], s["shape"]))
        ts[s["tgt"] - 1][reg] = x
    return [[int(v) for v in t.ravel()] for t in ts]


def run_store(item):
    """code -> spec: one real da.store call, recorded.  item = dict(id, call, lm, sm, sched, nw, plain, style, seed)"""
    import dask
    import dask.array as da
    call, lm, sm = item["call"], item["lm"], item["sm"]
    compute, ret = SMODES[sm]
    plain = item.get("plain", False)
    rec = Recorder(item.get("seed", 0), sleepy=item["sched"] == "threads")
    out = {"id": item["id"], "kind": "store", "call": call, "lm": lm, "lazy": not compute, "ret": ret,
           "obs": "final" if plain else "events", "ev": [], "final": [], "retc": [], "raised": ""}
    try:
        sources, targets, regions, tobjs = build(call, rec, plain, item.get("style", 0))
        user = None
        if lm == "user":
            user = RecLock(rec)
            lock = user
        elif lm == "auto":
            lock = True if item.get("style", 0) % 2 == 0 else threading.Lock()   # an unobserved caller lock behaves like lock=True
        else:
            lock = False
        kw = {"scheduler": item["sched"]}
        if item["sched"] == "threads":
            kw["num_workers"] = item.get("nw", 3)
        one = len(sources) == 1 and item.get("style", 0) % 2 == 1
        a_s, a_t = (sources[0], targets[0]) if one else (sources, targets)
        a_r = regions[0] if one else (None if all(r is None for r in regions) else regions)
        if compute:
            r = da.store(a_s, a_t, lock=lock, regions=a_r, compute=True, return_stored=ret, **kw)
        else:
            r = da.store(a_s, a_t, lock=lock, regions=a_r, compute=False, return_stored=ret)
        rec.emit({"a": "return"})
        if (not compute) or ret:
            rec.emit({"a": "compute"})
            got = dask.compute(*(r if isinstance(r, tuple) else (r,)), **kw)
            rec.emit({"a": "computed"})
            if ret:
                out["retc"] = [[int(v) for v in np.asarray(g).ravel()] for g in got]
                if [list(np.asarray(g).shape) for g in got] != [s["shape"] for s in call["src"]]:
                    out["retc"] = [[-1]]
        if user is not None and user.locked():
            rec.emit({"a": "acq", "who": 99})       # still held at the end: FinalBad names it
        out["final"] = [[int(v) for v in t.ravel()] for t in tobjs] if plain else [t.cells() for t in tobjs]
    except Exception as ex:  # noqa: BLE001 - every exception of dask is an observation
        out["raised"] = "%s: %s" % (type(ex).__name__, str(ex)[:150])
    out["ev"] = [] if plain else list(rec.ev)
    return out


# ------------------------------------------------------------------ spec -> code: the stepper
class Gates:
    """Worker threads park here; the controller lets exactly one through at a time."""

    def __init__(self, timeout=10.0):
        self.cv = threading.Condition()
        self.parked = {}       # who -> (kind, info)
        self.permit = set()
        self.done = {}         # who -> exception or None
        self.timeout = timeout

    def arrive(self, who, kind, info):
        with self.cv:
            self.parked[who] = (kind, info)
            self.cv.notify_all()
            end = time.time() + 6 * self.timeout
            while who not in self.permit:
                left = end - time.time()
                if left <= 0:
                    raise GateTimeout("no permission for %r at %s" % (who, kind))
                self.cv.wait(left)
            self.permit.discard(who)
            del self.parked[who]

    def allow(self, who):
        with self.cv:
            self.permit.add(who)
            self.cv.notify_all()

    def finished(self, who, exc):
        with self.cv:
            self.done[who] = exc
            self.cv.notify_all()

    def settle(self, who):
        """wait until task `who` is parked (and not yet permitted) or finished -> ("parked", kind, info) | ("done", exc) | ("hang",)"""
        end = time.time() + self.timeout
        with self.cv:
            while True:
                if who in self.parked and who not in self.permit:
                    return ("parked",) + self.parked[who]
                if who in self.done:
                    return ("done", self.done[who])
                left = end - time.time()
                if left <= 0:
                    return ("hang",)
                self.cv.wait(left)


class Mismatch(Exception):
    def __init__(self, clause, detail):
        super().__init__(clause)
        self.clause, self.detail = clause, detail


class Stepper:
    """Executes one exported behaviour of StoreMC on the real da.store."""

    def __init__(self, beh, timeout=10.0):
        self.beh = beh
        self.call = beh["call"]
        self.blk = beh["blk"]
        self.lm, self.sm = beh["lm"], beh["sm"]
        self.ev = beh["ev"]
        self.i = 0
        self.rec = Recorder()
        self.rec.gates = Gates(timeout)
        self.user = None
        self.reads = {}
        self.nb = len(self.blk)
        self.inside = set()
        self.nwr = 0

    # -- the scheduler handed to dask
    def get(self, dsk, keys, **kwargs):
        """A scheduler: runs the tasks that touch a target one per thread, in the order and up to the gates
        the behaviour says; everything else (getters before, finalize after) runs inline."""
        from dask._task_spec import convert_legacy_graph
        from dask.order import order
        if not isinstance(dsk, dict):
            dsk = dsk.__dask_graph__()
        dsk = convert_legacy_graph(dict(dsk))
        prio = order(dsk)
        topo = sorted(dsk, key=prio.get)
        phase2 = self.i < len(self.ev) and self.ev[self.i]["a"] in ("lstart", "lread")
        # which node is which task of the specification: run the graph in probe mode - a target raises
        # _ProbeHit (saying what was about to be touched) instead of doing anything
        self.rec.gates = None
        cache, tasks = {}, {}
        me = threading.current_thread()
        me.verif_task = _Probe()
        try:
            for key in topo:
                node = dsk[key]
                if any(d not in cache for d in node.dependencies):
                    continue
                try:
                    cache[key] = node(cache)
                except _ProbeHit as hit:
                    cand = [j + 1 for j, b in enumerate(self.blk) if b["t"] == hit.t and sorted(b["pos"]) == sorted(hit.pos)]
                    if len(cand) != 1 or cand[0] in tasks:
                        raise Mismatch("BlockWrite", {"key": str(key), "touches": [hit.t, hit.pos]})
                    tasks[cand[0]] = key
        finally:
            me.verif_task = None
            self.rec.gates = self._gates
        if len(tasks) != self.nb:
            raise Mismatch("BlockTasks", {"tasks_touching_a_target": len(tasks), "blocks": self.nb})
        self.results = {}
        self.dsk, self.cache, self.tasks = dsk, cache, tasks
        self.off = self.nb if phase2 else 0
        stop = "end" if phase2 else "return"
        while self.ev[self.i]["a"] != stop:
            self.step(self.ev[self.i])
            self.i += 1
        for k, key in tasks.items():
            if key not in self.results:
                raise Mismatch("Gate:TaskNotRun", {"task": k})
        cache.update(self.results)
        for key in topo:
            if key not in cache:
                cache[key] = dsk[key](cache)

        def pick(k):
            return [pick(x) for x in k] if isinstance(k, list) else cache[k]
        return pick(keys)

    def launch(self, k):
        key = self.tasks[k]
        who = self.off + k
        gates = self.gates

        def body():
            threading.current_thread().verif_task = who
            try:
                self.results[key] = self.dsk[key](self.cache)
                gates.finished(who, None)
            except BaseException as ex:  # noqa: BLE001
                gates.finished(who, ex)
        t = threading.Thread(target=body, daemon=True)
        t.start()

    def expect(self, who, kinds):
        """the task must now be parked at one of `kinds` ("done" = finished) -> info"""
        s = self.gates.settle(who)
        if s[0] == "hang":
            raise Mismatch("Gate:Hang", {"task": who, "expected": kinds})
        if s[0] == "done":
            if s[1] is not None:
                raise Mismatch("UnexpectedRaise", {"task": who, "raised": repr(s[1])[:200]})
            if "done" not in kinds:
                raise Mismatch("Gate:%s" % kinds[0], {"task": who, "expected": kinds, "got": "finished"})
            return None
        if s[1] not in kinds:
            raise Mismatch("Gate:%s" % kinds[0], {"task": who, "expected": kinds, "got": s[1]})
        return s[2]

    def after_write(self):
        nxt = []
        if self.sm == "lazyret":
            return ["rd"]
        if self.lm == "user":
            return ["rel"]
        return ["done"]

    def step(self, e):
        a, k = e["a"], e["k"]
        who = self.off + k
        g = self.gates
        locked = self.lm != "none"
        if a in ("start", "lstart"):
            self.launch(k)
            self.expect(who, ["wb"] if a == "start" else ["rd"])
        elif a == "wbegin":
            if not locked:
                self.launch(k)
            info = self.expect(who, ["wb"])
            b = self.blk[k - 1]
            if (info["t"], info["pos"], info["val"]) != (b["t"], list(b["pos"]), list(b["val"])):
                raise Mismatch("BlockWrite", {"task": k, "observed": info, "expected": b})
            g.allow(who)
            self.expect(who, ["we"])
            self.inside.add(who)
        elif a == "wend":
            self.expect(who, ["we"])
            g.allow(who)
            self.expect(who, self.after_write())
            self.inside.discard(who)
            self.nwr += len(self.blk[k - 1]["pos"])
        elif a in ("load", "lread"):
            if a == "lread" and not locked:
                self.launch(k)
            self.expect(who, ["rd"])
            g.allow(who)
            self.expect(who, ["rel"] if self.lm == "user" else ["done"])
        elif a in ("finish", "lfinish"):
            if self.lm == "user":
                self.expect(who, ["rel"])
                g.allow(who)
            self.expect(who, ["done"])
        else:
            raise MachineryError("stepper: unexpected action %r inside the scheduler" % a)
        self.compare(e)

    def compare(self, e):
        tg = [t.cells() for t in self.tobjs]
        if tg != [list(x) for x in e["tg"]]:
            raise Mismatch("Projection:targets", {"step": self.i, "observed": tg, "expected": e["tg"]})
        if self.lm == "user" and self.user.owner != e["hold"]:
            raise Mismatch("Projection:holder", {"step": self.i, "observed": self.user.owner, "expected": e["hold"]})
        if sorted(self.inside) != sorted(e["fl"]):
            raise Mismatch("Projection:inflight", {"step": self.i, "observed": sorted(self.inside), "expected": e["fl"]})
        if self.nwr != e["nwr"]:
            raise Mismatch("Projection:written", {"step": self.i, "observed": self.nwr, "expected": e["nwr"]})
        reads = {}
        for ev in self.rec.ev:
            if ev["a"] == "rd":
                w = ev["who"]
                reads[w - self.nb if w > self.nb else w] = ev["val"]
        ld = [reads.get(j + 1, []) for j in range(self.nb)]
        if ld != [list(x) for x in e["ld"]]:
            raise Mismatch("Projection:loaded", {"step": self.i, "observed": ld, "expected": e["ld"]})

    @property
    def gates(self):
        return self._gates

    def run(self):
        """-> None or (clause, detail)"""
        import dask
        import dask.array as da
        self._gates = self.rec.gates
        try:
            compute, ret = SMODES[self.sm]
            sources, targets, regions, self.tobjs = build(self.call, self.rec, False, 1)
            if self.lm == "user":
                self.user = RecLock(self.rec)
                lock = self.user
            else:
                lock = self.lm == "auto"
            kw = {"lock": lock, "regions": regions, "return_stored": ret}
            if compute:
                r = da.store(sources, targets, compute=True, scheduler=self.get, **kw)
            else:
                r = da.store(sources, targets, compute=False, **kw)
                self.outer("compute")
                got = dask.compute(*(r if isinstance(r, tuple) else (r,)), scheduler=self.get)
            self.outer("return")
            if self.sm == "nowret":
                self.outer("compute2")
                got = dask.compute(*(r if isinstance(r, tuple) else (r,)), scheduler=self.get)
                self.outer("end")
            if self.i != len(self.ev):
                raise Mismatch("Gate:Incomplete", {"consumed": self.i, "of": len(self.ev)})
            if ret:
                want = [list(range(s["base"] + 1, s["base"] + int(np.prod(s["shape"])) + 1)) for s in self.call["src"]]
                have = [[int(v) for v in np.asarray(x).ravel()] for x in got]
                if have != want:
                    raise Mismatch("ReturnedContent", {"observed": have, "expected": want})
        except Mismatch as m:
            return (m.clause, m.detail)
        except GateTimeout as ex:
            return ("Gate:Hang", {"raised": str(ex)})
        except MachineryError:
            raise
        except Exception as ex:  # noqa: BLE001
            return ("UnexpectedRaise", {"raised": "%s: %s" % (type(ex).__name__, str(ex)[:200])})
        return None

    def outer(self, name):
        if self.i >= len(self.ev) or self.ev[self.i]["a"] != name:
            raise Mismatch("Gate:%s" % name, {"step": self.i, "expected": self.ev[self.i]["a"] if self.i < len(self.ev) else None,
                                              "got": name})
        self.compare(self.ev[self.i])
        self.i += 1


class _Probe(int):
    """thread marker: the next target access raises _ProbeHit instead of touching anything"""

    def __new__(cls):
        return super().__new__(cls, -1)


class _ProbeHit(Exception):
    def __init__(self, t, pos):
        super().__init__("probe")
        self.t, self.pos = t, pos


def _probe_guard(fn):
    def wrapped(self, key, *a):
        if isinstance(getattr(threading.current_thread(), "verif_task", None), _Probe):
            raise _ProbeHit(self.tid, [int(v) for v in np.asarray(self.grid[key]).ravel()])
        return fn(self, key, *a)
    return wrapped


Target.__setitem__ = _probe_guard(Target.__setitem__)
Target.__getitem__ = _probe_guard(Target.__getitem__)


def replay_behaviour(beh):
    return Stepper(beh).run()
