"""C29 - storing arrays writes exactly the array into the targets.

Pattern A.  specs/array/Store.tla gives the geometry of da.store (which cell of which target every
element of every block goes to) and the operations of a store call as functions on a state record
(targets, written cells, writes in flight, lock holder) together with the clauses of the property.
StoreMC.tla is the state machine of one call (one task per block: [acquire] write-begin write-end
[load] [release]; compute=False; return_stored): TLC explores every interleaving of the block tasks of
a menu of calls (several sources, several targets, two sources in one target, stepped regions) under
every lock mode and checks the clauses as invariants / action properties / termination.

spec -> code: (i) complete behaviours are exported and executed on the real da.store with a scheduler
whose worker threads park at gates (lock release, __setitem__ entry / exit, __getitem__) and are let
through in exactly the order of the behaviour; after every step the real targets, lock holder, writes in
flight and loaded blocks are compared with the specification state.  (ii) StoreCasesMC.tla enumerates
every chunking x region (offsets, steps, padding) of small sources with the expected target content;
each case runs through the real da.store (NumPy `t[region] = x` is the reference guard).
code -> spec: targets are array-likes whose __setitem__ / __getitem__ log write-enter / write-exit /
read events, the caller's lock logs acquire / release, all with sequence numbers taken under one
harness lock; calls run on the synchronous and the threaded scheduler with random chunkings, regions,
locks, return_stored, compute=False, several sources and targets; TLC (StoreTrace.tla) decides every
recorded trace.  to_npy_stack / from_npy_stack: TLC enumerates every chunking x axis of small shapes;
the round trip is recorded and decided by TLC."""
from __future__ import annotations

import itertools
import os
import random
import threading
import time

import numpy as np

from ..core import TLA, MachineryError
from ..par import pmap

META = {
    "title": "Storing arrays writes exactly the array into the targets",
    "design_ref": "DESIGN.md §4.3 C29",
    "technique": "TLA+ state machine of da.store (block tasks, lock, compute=False, return_stored) model-checked by TLC over all "
                 "interleavings; behaviours replayed on the real store through a gate-controlled scheduler; event traces of "
                 "real sync/threaded runs on instrumented targets and locks validated by TLC; TLC-enumerated region/chunking "
                 "cases and npy-stack round trips replayed",
    "level_text": "TLC checks every interleaving of the block tasks (acquire / write-begin / write-end / load / release) of a menu "
                  "of store calls (1-2 sources, <= 4 (quick) / 6 (thorough) blocks, 1-d and 2-d, two targets, two sources in one "
                  "target, stepped regions, one array stored twice: tiled into one target, into two targets, into overlapping regions "
                  "with equal content) x lock in {False, True, Lock()} x {compute, compute+return_stored, compute=False, "
                  "compute=False+return_stored}: writes never overlap, are mutually exclusive under a lock, land only on their "
                  "own cells, every cell is written once, target[region] = source and the rest is untouched at the end, nothing "
                  "happens before compute, loads follow their store, every schedule terminates. Complete behaviours are replayed "
                  "step by step on da.store (all for the small calls, sampled for the others). Every chunking x region offset / "
                  "step / padding of sources up to (2,3) (quick) / (3,3),(2,2,2) (thorough) is replayed, and every chunking x tiling "
                  "(one array stored twice into one target: gap, adjacent, interleaved, overlapping by whole periods); recorded traces of "
                  "random calls on the synchronous and threaded schedulers are decided by TLC. npy stack: every chunking x axis "
                  "of the shapes (1..5), (2,3), (3,2), (3,3), (2,2,2) (quick) plus (5,2), (2,5), (4,3), (3,2,3), (2,3,3) (thorough).",
    "level_note": "Trusted: TLC, the instrumented target / lock (positions via an index grid), NumPy assignment as reference guard. "
                  "The property is judged cell by cell (how many __setitem__ calls dask uses is free). lock=True builds dask's own "
                  "lock, which is not observed: only its effect (no two writes in flight) is. Not decided: the multiprocessing and "
                  "distributed schedulers, targets other than in-memory array-likes (zarr/h5py), load_stored given explicitly, "
                  "overlapping regions in one call (caller error), real-time overlap of NumPy writes inside one __setitem__.",
}

INVS = ["WritesRespectContract", "NoOverlap", "WriteCounts", "MutualExclusion", "OutsideUntouched", "WrittenCorrect", "NothingBeforeCompute",
        "FinalContent", "LoadSeesStored", "LoadsComplete", "HolderIsActive"]
PROPS = ["WrittenOnce", "Terminates"]
SMODES = {"now": (True, False), "nowret": (True, True), "lazy": (False, False), "lazyret": (False, True)}   # compute, return_stored


def src(shape, chunks, tgt, start=None, step=None, base=0, per=0):
    """per: period of the content in elements (0 = every element has its own id)"""
    nd = len(shape)
    return {"shape": list(shape), "chunks": [list(c) for c in chunks], "tgt": tgt, "start": list(start or [0] * nd),
            "step": list(step or [1] * nd), "base": base, "per": per or max(1, int(np.prod(shape)))}


# the calls whose interleavings TLC explores (positive chunks; <= 4 blocks) ...
MENU = [
    {"tshape": [[6]], "src": [src([4], [[1, 2, 1]], 1, [1])]},
    {"tshape": [[3, 3]], "src": [src([2, 2], [[1, 1], [1, 1]], 1, [1, 0])]},
    {"tshape": [[4], [2]], "src": [src([3], [[2, 1]], 1, [1]), src([2], [[1, 1]], 2, base=3)]},
    {"tshape": [[5]], "src": [src([2], [[1, 1]], 1), src([2], [[2]], 1, [3], base=2)]},
    {"tshape": [[6]], "src": [src([3], [[1, 2]], 1, [1], [2])]},
    {"tshape": [[2, 2]], "src": [src([2, 2], [[2], [1, 1]], 1)]},
    # one array stored several times in one call: tiled into one target (adjacent regions), into two targets,
    # into overlapping regions (periodic content: equal elements on the overlap)
    {"tshape": [[4]], "src": [src([2], [[1, 1]], 1), src([2], [[1, 1]], 1, [2])]},
    {"tshape": [[2], [2]], "src": [src([2], [[1, 1]], 1), src([2], [[1, 1]], 2)]},
    {"tshape": [[6]], "src": [src([4], [[2, 2]], 1, per=2), src([4], [[2, 2]], 1, [2], per=2)]},
]
# ... and the larger ones of the thorough tier (<= 6 blocks)
MENU_T = [
    {"tshape": [[4, 5]], "src": [src([2, 3], [[1, 1], [2, 1]], 1, [1, 2])]},
    {"tshape": [[7], [3, 2]], "src": [src([3], [[1, 1, 1]], 1, [1], [2]), src([3, 2], [[1, 2], [2]], 2, base=3)]},
    {"tshape": [[4, 2]], "src": [src([2, 2], [[1, 1], [2]], 1), src([2, 2], [[2], [1, 1]], 1, [2, 0], base=4)]},
    {"tshape": [[8]], "src": [src([6], [[1, 1, 2, 1, 1]], 1, [2])]},
    {"tshape": [[5, 2]], "src": [src([2, 2], [[1, 1], [2]], 1), src([2, 2], [[1, 1], [2]], 1, [3, 0])]},
    {"tshape": [[6]], "src": [src([3], [[1, 2]], 1, step=[2]), src([3], [[1, 2]], 1, [1], [2])]},
]


# ------------------------------------------------------------------ instrumentation
class GateTimeout(Exception):
    pass


class OutsideTask(Exception):
    pass


class Recorder:
    """The event log of one run.  Sequence numbers = positions in `ev`, taken under one lock."""

    def __init__(self, seed=0, sleepy=False):
        self.lock = threading.Lock()
        self.ev = []
        self.names = {}
        self.rnd = random.Random(seed)
        self.sleepy = sleepy
        self.gates = None           # set in stepper mode

    def who(self):
        t = threading.current_thread()
        task = getattr(t, "verif_task", None)
        if task is not None:
            return task
        with self.lock:
            return self.names.setdefault(t.ident, len(self.names) + 1)

    def emit(self, e):
        with self.lock:
            self.ev.append(e)

    def pause(self):
        if self.sleepy:
            with self.lock:
                d = self.rnd.choice((0, 0, 0.0002, 0.001))
            if d:
                time.sleep(d)


class Target:
    """An in-memory array-like that logs every write (enter / exit) and read with the 1-based row-major
    positions it touches.  It tokenizes like the ndarray it wraps, i.e. like a plain NumPy target."""

    def __init__(self, tid, shape, rec):
        self.tid = tid
        self.a = np.zeros(tuple(shape), dtype="i8")
        self.shape = self.a.shape
        self.dtype = self.a.dtype
        self.ndim = self.a.ndim
        self.grid = np.arange(1, self.a.size + 1, dtype="i8").reshape(self.shape)
        self.rec = rec

    def __dask_tokenize__(self):
        from dask.tokenize import normalize_token
        return normalize_token(self.a)

    def __setitem__(self, key, value):
        rec = self.rec
        pos = self.grid[key]
        val = np.broadcast_to(np.asarray(value), pos.shape)
        who = rec.who()
        e = {"a": "wb", "who": who, "t": self.tid, "pos": [int(v) for v in pos.ravel()], "val": [int(v) for v in val.ravel()]}
        if rec.gates is not None:
            rec.gates.arrive(who, "wb", e)
            rec.emit(e)
            rec.gates.arrive(who, "we", None)
        else:
            rec.emit(e)
            rec.pause()
        self.a[key] = value
        rec.emit({"a": "we", "who": who})

    def __getitem__(self, key):
        rec = self.rec
        who = rec.who()
        pos = self.grid[key]
        if rec.gates is not None:
            rec.gates.arrive(who, "rd", None)
        v = np.array(self.a[key])
        rec.emit({"a": "rd", "who": who, "t": self.tid, "pos": [int(x) for x in np.asarray(pos).ravel()],
                  "val": [int(x) for x in v.ravel()]})
        return v

    def cells(self):
        return [int(v) for v in self.a.ravel()]


_lock_ids = itertools.count()


class RecLock:
    """The caller's Lock object: a real lock that logs who holds it."""

    def __init__(self, rec):
        self.rec = rec
        self._l = threading.Lock()
        self.owner = 0
        self._tok = "verif-lock-%d-%d" % (os.getpid(), next(_lock_ids))

    def __dask_tokenize__(self):
        return self._tok

    def acquire(self, blocking=True, timeout=-1):
        if self.rec.gates is not None and blocking and timeout == -1:
            ok = self._l.acquire(True, 10)
            if not ok:
                raise GateTimeout("lock not released")
        else:
            ok = self._l.acquire(blocking, timeout)
        if ok and not isinstance(self.rec.who(), _Probe):
            self.owner = self.rec.who()
            self.rec.emit({"a": "acq", "who": self.owner})
        return ok

    def release(self):
        who = self.rec.who()
        if isinstance(who, _Probe):
            self._l.release()
            return
        if self.rec.gates is not None:
            self.rec.gates.arrive(who, "rel", None)
        self.rec.emit({"a": "rel", "who": who})
        self.owner = 0
        self._l.release()

    def __enter__(self):
        self.acquire()
        return self

    def __exit__(self, *a):
        self.release()

    def locked(self):
        return self._l.locked()


# ------------------------------------------------------------------ building a real call
def n_blocks(call):
    return sum(int(np.prod([len(c) for c in s["chunks"]])) for s in call["src"])


def has_zero_chunk(call):
    return any(0 in c for s in call["src"] for c in s["chunks"])


def dup_pairs(call):
    """pairs of sources that are the same dask array stored into different targets of equal shape, same region"""
    out = []
    for i, a in enumerate(call["src"]):
        for j in range(i + 1, len(call["src"])):
            b = call["src"][j]
            if (a["base"], a["per"], a["shape"], a["chunks"], a["start"], a["step"]) == (b["base"], b["per"], b["shape"], b["chunks"], b["start"], b["step"]) \
                    and a["tgt"] != b["tgt"] and call["tshape"][a["tgt"] - 1] == call["tshape"][b["tgt"] - 1]:
                out.append((i, j))
    return out


def source_array(s):
    n = int(np.prod(s["shape"])) if s["shape"] else 1
    return (s["base"] + 1 + np.arange(n, dtype="i8") % s["per"]).reshape(tuple(s["shape"]))


def build(call, rec, plain=False, region_style=0):
    """-> (sources, targets (one per source), regions, target objects)"""
    import dask.array as da
    tobjs = [np.zeros(tuple(s), dtype="i8") if plain else Target(i + 1, s, rec) for i, s in enumerate(call["tshape"])]
    made = {}
    sources, targets, regions = [], [], []
    for s in call["src"]:
        key = (s["base"], tuple(s["shape"]), tuple(map(tuple, s["chunks"])), s["per"])
        if key not in made:      # the same (base, shape, chunks, period) twice = the same dask array stored twice
            made[key] = da.from_array(source_array(s), chunks=tuple(map(tuple, s["chunks"])))
        sources.append(made[key])
        targets.append(tobjs[s["tgt"] - 1])
        tsh = call["tshape"][s["tgt"] - 1]
        trivial = all(a == 0 and st == 1 and n == t for a, st, n, t in zip(s["start"], s["step"], s["shape"], tsh))
        if trivial and region_style % 2 == 0:
            regions.append(None)
        else:
            reg = []
            for a, st, n, t in zip(s["start"], s["step"], s["shape"], tsh):
                last = a + st * (max(n, 1) - 1)
                stop = last + 1 if n else a
                if region_style >= 2 and n and stop == t:
                    stop = None
                reg.append(slice(a if (a or region_style < 2) else None, stop, st if (st != 1 or region_style % 3 == 0) else None))
            regions.append(tuple(reg))
    return sources, targets, regions, tobjs


def numpy_reference(call):
    """t[region] = x with plain NumPy: the reference guard for Store!Expected"""
    ts = [np.zeros(tuple(s), dtype="i8") for s in call["tshape"]]
    for s in call["src"]:
        x = source_array(s)
        reg = tuple(slice(a, a + st * (max(m, 1) - 1) + 1 if m else a, st) for a, st, m in zip(s["start"], s["step"], s["shape"]))
        ts[s["tgt"] - 1][reg] = x
    return [[int(v) for v in t.ravel()] for t in ts]


def run_store(item):
    """code -> spec: one real da.store call, recorded.  item = dict(id, call, lm, sm, sched, nw, plain, style, seed)"""
    import dask
    import dask.array as da
    call, lm, sm = item["call"], item["lm"], item["sm"]
    compute, ret = SMODES[sm]
    plain = item.get("plain", False)
    rec = Recorder(item.get("seed", 0), sleepy=item["sched"] == "threads")
    out = {"id": item["id"], "kind": "store", "call": call, "lm": lm, "lazy": not compute, "ret": ret,
           "obs": "final" if plain else "events", "ev": [], "final": [], "retc": [], "raised": ""}
    try:
        sources, targets, regions, tobjs = build(call, rec, plain, item.get("style", 0))
        user = None
        if lm == "user":
            user = RecLock(rec)
            lock = user
        elif lm == "auto":
            lock = True if item.get("style", 0) % 2 == 0 else threading.Lock()   # an unobserved caller lock behaves like lock=True
        else:
            lock = False
        kw = {"scheduler": item["sched"]}
        if item["sched"] == "threads":
            kw["num_workers"] = item.get("nw", 3)
        one = len(sources) == 1 and item.get("style", 0) % 2 == 1
        a_s, a_t = (sources[0], targets[0]) if one else (sources, targets)
        a_r = regions[0] if one else (None if all(r is None for r in regions) else regions)
        if compute:
            r = da.store(a_s, a_t, lock=lock, regions=a_r, compute=True, return_stored=ret, **kw)
        else:
            r = da.store(a_s, a_t, lock=lock, regions=a_r, compute=False, return_stored=ret)
        rec.emit({"a": "return"})
        if (not compute) or ret:
            rec.emit({"a": "compute"})
            got = dask.compute(*(r if isinstance(r, tuple) else (r,)), **kw)
            rec.emit({"a": "computed"})
            if ret:
                out["retc"] = [[int(v) for v in np.asarray(g).ravel()] for g in got]
                if [list(np.asarray(g).shape) for g in got] != [s["shape"] for s in call["src"]]:
                    out["retc"] = [[-1]]
        if user is not None and user.locked():
            rec.emit({"a": "acq", "who": 99})       # still held at the end: FinalBad names it
        out["final"] = [[int(v) for v in t.ravel()] for t in tobjs] if plain else [t.cells() for t in tobjs]
    except Exception as ex:  # noqa: BLE001 - every exception of dask is an observation
        out["raised"] = "%s: %s" % (type(ex).__name__, str(ex)[:150])
    out["ev"] = [] if plain else list(rec.ev)
    return out


# ------------------------------------------------------------------ spec -> code: the stepper
class Gates:
    """Worker threads park here; the controller lets exactly one through at a time."""

    def __init__(self, timeout=10.0):
        self.cv = threading.Condition()
        self.parked = {}       # who -> (kind, info)
        self.permit = set()
        self.done = {}         # who -> exception or None
        self.known = set()     # the tasks the controller has launched
        self.timeout = timeout

    def arrive(self, who, kind, info):
        if who not in self.known:
            raise OutsideTask("a target / lock is used outside the block tasks (%s)" % kind)
        with self.cv:
            self.parked[who] = (kind, info)
            self.cv.notify_all()
            end = time.time() + 6 * self.timeout
            while who not in self.permit:
                left = end - time.time()
                if left <= 0:
                    raise GateTimeout("no permission for %r at %s" % (who, kind))
                self.cv.wait(left)
            self.permit.discard(who)
            del self.parked[who]

    def allow(self, who):
        with self.cv:
            self.permit.add(who)
            self.cv.notify_all()

    def finished(self, who, exc):
        with self.cv:
            self.done[who] = exc
            self.cv.notify_all()

    def settle(self, who):
        """wait until task `who` is parked (and not yet permitted) or finished -> ("parked", kind, info) | ("done", exc) | ("hang",)"""
        end = time.time() + self.timeout
        with self.cv:
            while True:
                if who in self.parked and who not in self.permit:
                    return ("parked",) + self.parked[who]
                if who in self.done:
                    return ("done", self.done[who])
                left = end - time.time()
                if left <= 0:
                    return ("hang",)
                self.cv.wait(left)


class Mismatch(Exception):
    def __init__(self, clause, detail):
        super().__init__(clause)
        self.clause, self.detail = clause, detail


class Stepper:
    """Executes one exported behaviour of StoreMC on the real da.store."""

    def __init__(self, beh, timeout=10.0):
        self.beh = beh
        self.call = beh["call"]
        self.blk = beh["blk"]
        self.lm, self.sm = beh["lm"], beh["sm"]
        self.ev = beh["ev"]
        self.i = 0
        self.rec = Recorder()
        self.rec.gates = Gates(timeout)
        self.user = None
        self.reads = {}
        self.nb = len(self.blk)
        self.inside = set()
        self.written = set()

    # -- the scheduler handed to dask
    def get(self, dsk, keys, **kwargs):
        """A scheduler: runs the tasks that touch a target one per thread, in the order and up to the gates
        the behaviour says; everything else (getters before, finalize after) runs inline."""
        from dask._task_spec import convert_legacy_graph
        from dask.order import order
        if not isinstance(dsk, dict):
            dsk = dsk.__dask_graph__()
        dsk = convert_legacy_graph(dict(dsk))
        prio = order(dsk)
        topo = sorted(dsk, key=prio.get)
        phase2 = self.i < len(self.ev) and self.ev[self.i]["a"] in ("lstart", "lread")
        # which node is which task of the specification: run the graph in probe mode - a target raises
        # _ProbeHit (saying what was about to be touched) instead of doing anything
        self.rec.gates = None
        cache, tasks = {}, {}
        me = threading.current_thread()
        me.verif_task = _Probe()
        try:
            for key in topo:
                node = dsk[key]
                if any(d not in cache for d in node.dependencies):
                    continue
                try:
                    cache[key] = node(cache)
                except _ProbeHit as hit:
                    cand = [j + 1 for j, b in enumerate(self.blk) if b["t"] == hit.t and sorted(b["pos"]) == sorted(hit.pos)]
                    cand = [k for k in cand if k not in tasks]      # (blocks of overlapping regions may coincide)
                    if not cand:
                        raise Mismatch("BlockWrite", {"key": str(key), "touches": [hit.t, hit.pos]})
                    tasks[cand[0]] = key
        finally:
            me.verif_task = None
            self.rec.gates = self._gates
        if len(tasks) != self.nb:
            raise Mismatch("BlockTasks", {"tasks_touching_a_target": len(tasks), "blocks": self.nb})
        self.results = {}
        self.dsk, self.cache, self.tasks = dsk, cache, tasks
        self.off = self.nb if phase2 else 0
        stop = "end" if phase2 else "return"
        while self.ev[self.i]["a"] != stop:
            self.step(self.ev[self.i])
            self.i += 1
        for k, key in tasks.items():
            if key not in self.results:
                raise Mismatch("Gate:TaskNotRun", {"task": k})
        cache.update(self.results)
        for key in topo:
            if key not in cache:
                cache[key] = dsk[key](cache)

        def pick(k):
            return [pick(x) for x in k] if isinstance(k, list) else cache[k]
        return pick(keys)

    def launch(self, k):
        key = self.tasks[k]
        who = self.off + k
        gates = self.gates

        def body():
            threading.current_thread().verif_task = who
            try:
                self.results[key] = self.dsk[key](self.cache)
                gates.finished(who, None)
            except BaseException as ex:  # noqa: BLE001
                gates.finished(who, ex)
        gates.known.add(who)
        t = threading.Thread(target=body, daemon=True)
        t.start()

    def expect(self, who, kinds):
        """the task must now be parked at one of `kinds` ("done" = finished) -> info"""
        s = self.gates.settle(who)
        if s[0] == "hang":
            raise Mismatch("Gate:Hang", {"task": who, "expected": kinds})
        if s[0] == "done":
            if s[1] is not None:
                raise Mismatch("UnexpectedRaise", {"task": who, "raised": repr(s[1])[:200]})
            if "done" not in kinds:
                raise Mismatch("Gate:%s" % kinds[0], {"task": who, "expected": kinds, "got": "finished"})
            return None
        if s[1] not in kinds:
            raise Mismatch("Gate:%s" % kinds[0], {"task": who, "expected": kinds, "got": s[1]})
        return s[2]

    def after_write(self):
        if self.sm == "lazyret":
            return ["rd"]
        if self.lm == "user":
            return ["rel"]
        return ["done"]

    def step(self, e):
        a, k = e["a"], e["k"]
        who = self.off + k
        g = self.gates
        locked = self.lm != "none"
        if a in ("start", "lstart"):
            self.launch(k)
            self.expect(who, ["wb"] if a == "start" else ["rd"])
        elif a == "wbegin":
            if not locked:
                self.launch(k)
            info = self.expect(who, ["wb"])
            b = self.blk[k - 1]
            if (info["t"], info["pos"], info["val"]) != (b["t"], list(b["pos"]), list(b["val"])):
                raise Mismatch("BlockWrite", {"task": k, "observed": info, "expected": b})
            g.allow(who)
            self.expect(who, ["we"])
            self.inside.add(who)
        elif a == "wend":
            self.expect(who, ["we"])
            g.allow(who)
            self.expect(who, self.after_write())
            self.inside.discard(who)
            self.written |= {(self.blk[k - 1]["t"], p) for p in self.blk[k - 1]["pos"]}
        elif a in ("load", "lread"):
            if a == "lread" and not locked:
                self.launch(k)
            self.expect(who, ["rd"])
            g.allow(who)
            self.expect(who, ["rel"] if self.lm == "user" else ["done"])
        elif a in ("finish", "lfinish"):
            if self.lm == "user":
                self.expect(who, ["rel"])
                g.allow(who)
            self.expect(who, ["done"])
        else:
            raise MachineryError("stepper: unexpected action %r inside the scheduler" % a)
        self.compare(e)

    def compare(self, e):
        tg = [t.cells() for t in self.tobjs]
        if tg != [list(x) for x in e["tg"]]:
            raise Mismatch("Projection:targets", {"step": self.i, "observed": tg, "expected": e["tg"]})
        if self.lm == "user" and self.user.owner != e["hold"]:
            raise Mismatch("Projection:holder", {"step": self.i, "observed": self.user.owner, "expected": e["hold"]})
        if sorted(self.inside) != sorted(e["fl"]):
            raise Mismatch("Projection:inflight", {"step": self.i, "observed": sorted(self.inside), "expected": e["fl"]})
        if len(self.written) != e["nwr"]:
            raise Mismatch("Projection:written", {"step": self.i, "observed": len(self.written), "expected": e["nwr"]})
        reads = {}
        for ev in self.rec.ev:
            if ev["a"] == "rd":
                w = ev["who"]
                reads[w - self.nb if w > self.nb else w] = ev["val"]
        ld = [reads.get(j + 1, []) for j in range(self.nb)]
        if ld != [list(x) for x in e["ld"]]:
            raise Mismatch("Projection:loaded", {"step": self.i, "observed": ld, "expected": e["ld"]})

    @property
    def gates(self):
        return self._gates

    def run(self):
        """-> None or (clause, detail)"""
        import dask
        import dask.array as da
        self._gates = self.rec.gates
        try:
            compute, ret = SMODES[self.sm]
            sources, targets, regions, self.tobjs = build(self.call, self.rec, False, 1)
            if self.lm == "user":
                self.user = RecLock(self.rec)
                lock = self.user
            else:
                lock = self.lm == "auto"
            kw = {"lock": lock, "regions": regions, "return_stored": ret}
            if compute:
                r = da.store(sources, targets, compute=True, scheduler=self.get, **kw)
            else:
                r = da.store(sources, targets, compute=False, **kw)
                self.outer("compute")
                got = dask.compute(*(r if isinstance(r, tuple) else (r,)), scheduler=self.get)
            self.outer("return")
            if self.sm == "nowret":
                self.outer("compute2")
                got = dask.compute(*(r if isinstance(r, tuple) else (r,)), scheduler=self.get)
                self.outer("end")
            if self.i != len(self.ev):
                raise Mismatch("Gate:Incomplete", {"consumed": self.i, "of": len(self.ev)})
            if ret:
                want = [[int(v) for v in source_array(s).ravel()] for s in self.call["src"]]
                have = [[int(v) for v in np.asarray(x).ravel()] for x in got]
                if have != want:
                    raise Mismatch("ReturnedContent", {"observed": have, "expected": want})
        except Mismatch as m:
            return (m.clause, m.detail)
        except GateTimeout as ex:
            return ("Gate:Hang", {"raised": str(ex)})
        except OutsideTask as ex:
            return ("Gate:OutsideTask", {"raised": str(ex)})
        except MachineryError:
            raise
        except Exception as ex:  # noqa: BLE001
            return ("UnexpectedRaise", {"raised": "%s: %s" % (type(ex).__name__, str(ex)[:200])})
        return None

    def outer(self, name):
        if self.i >= len(self.ev) or self.ev[self.i]["a"] != name:
            raise Mismatch("Gate:%s" % name, {"step": self.i, "expected": self.ev[self.i]["a"] if self.i < len(self.ev) else None,
                                              "got": name})
        self.compare(self.ev[self.i])
        self.i += 1


class _Probe(int):
    """thread marker: the next target access raises _ProbeHit instead of touching anything"""

    def __new__(cls):
        return super().__new__(cls, -1)


class _ProbeHit(Exception):
    def __init__(self, t, pos):
        super().__init__("probe")
        self.t, self.pos = t, pos


def _probe_guard(fn):
    def wrapped(self, key, *a):
        if isinstance(getattr(threading.current_thread(), "verif_task", None), _Probe):
            raise _ProbeHit(self.tid, [int(v) for v in np.asarray(self.grid[key]).ravel()])
        return fn(self, key, *a)
    return wrapped


Target.__setitem__ = _probe_guard(Target.__setitem__)
Target.__getitem__ = _probe_guard(Target.__getitem__)


def replay_behaviour(beh):
    res = Stepper(beh).run()
    if res is not None and res[0] == "Gate:Hang":      # confirm with a generous timeout: the machine may just be busy
        res = Stepper(beh, timeout=60.0).run()
    return res


# ------------------------------------------------------------------ generators
def _comp(rng, n, zero=False):
    out, left = [], n
    while left > 0:
        c = rng.randint(1, left)
        out.append(c)
        left -= c
    if n == 0:
        out = [0]
    elif zero:
        out.insert(rng.randint(0, len(out)), 0)
    return out


def well_formed(call):
    """Python mirror of Store!WellFormed (in bounds; where regions overlap the elements agree)"""
    seen = [dict() for _ in call["tshape"]]
    for s in call["src"]:
        T = call["tshape"][s["tgt"] - 1]
        if len(T) != len(s["shape"]):
            return False
        x = source_array(s)
        for g in itertools.product(*[range(n) for n in s["shape"]]):
            ti = [a + st * i for a, st, i in zip(s["start"], s["step"], g)]
            if any(v >= t for v, t in zip(ti, T)):
                return False
            if seen[s["tgt"] - 1].setdefault(tuple(ti), int(x[g])) != int(x[g]):
                return False
    return True


def gen_call(rng):
    while True:
        call = _gen_call(rng)
        if well_formed(call):
            return call


def _gen_call(rng):
    """a random store call: 1-3 sources, 1-3 targets, 1-3 axes.  A further source is a new array in a new target, a new
    array behind the others in an existing target, or an array that is already being stored: into a new equal target,
    or again into its own target - behind itself, interleaved with itself (step 2), or overlapping itself by whole
    periods (periodic content).  Sometimes a zero-width chunk / a zero-length axis."""
    nd = rng.choice([1, 1, 2, 2, 2, 3])
    nsrc = rng.choice([1, 2, 2, 2, 3, 3])
    cap = {1: 6, 2: 4, 3: 3}[nd]
    tshape, srcs, base = [], [], 0
    for _ in range(nsrc):
        r = rng.random()
        if srcs and r < 0.10:                      # the same array into a second, equal target
            s0 = rng.choice(srcs)
            tshape.append(list(tshape[s0["tgt"] - 1]))
            srcs.append(dict(s0, tgt=len(tshape)))
            continue
        if srcs and r < 0.30:                      # the same array again into its own target
            s0 = rng.choice(srcs)
            T = tshape[s0["tgt"] - 1]
            n0, a0, st0 = s0["shape"][0], s0["start"][0], s0["step"][0]
            row = int(np.prod(s0["shape"][1:])) if len(s0["shape"]) > 1 else 1
            how = rng.choice(["behind", "behind", "interleaved", "overlap"])
            if how == "interleaved" and st0 >= 2:
                a = a0 + rng.randint(1, st0 - 1)
            elif how == "overlap" and row and s0["per"] % row == 0 and s0["per"] < max(1, n0 * row):
                a = a0 + st0 * (s0["per"] // row) * rng.randint(0, max(1, (n0 * row) // s0["per"] - 1))
            else:
                a = T[0] + rng.choice([0, 0, 1])
            T[0] = max(T[0], a + st0 * (max(n0, 1) - 1) + 1)
            srcs.append(dict(s0, start=[a] + list(s0["start"][1:])))
            continue
        shape, start, step = [], [], []
        share = srcs and r < 0.5
        if share:
            t = rng.randrange(len(tshape))
            T = tshape[t]
            for d in range(nd):
                st = rng.choice([1, 1, 2])
                if d == 0:
                    a = T[0] + rng.choice([0, 0, 1])
                    n = rng.randint(1, cap)
                    T[0] = a + st * (n - 1) + 1 + rng.choice([0, 0, 1])
                else:
                    a = rng.randint(0, min(2, T[d] - 1))
                    n = rng.randint(1, (T[d] - 1 - a) // st + 1)
                shape.append(n)
                start.append(a)
                step.append(st)
            tg = t + 1
        else:
            T = []
            for d in range(nd):
                n = 0 if rng.random() < 0.02 else rng.randint(1, cap)
                a, st = rng.choice([0, 0, 1, 2]), rng.choice([1, 1, 1, 2, 3])
                shape.append(n)
                start.append(a)
                step.append(st)
                T.append(a + st * (max(n, 1) - 1) + 1 + rng.choice([0, 0, 1, 2]))
            tshape.append(T)
            tg = len(tshape)
        zero = rng.random() < 0.08
        zax = rng.randrange(nd)
        chunks = [_comp(rng, n, zero and d == zax) for d, n in enumerate(shape)]
        size = int(np.prod(shape)) if shape else 1
        per = max(1, size)
        if shape and shape[0] >= 2 and size and rng.random() < 0.25:      # periodic along axis 0
            per = rng.randint(1, shape[0] - 1) * (size // shape[0])
        srcs.append({"shape": shape, "chunks": chunks, "tgt": tg, "start": start, "step": step, "base": base, "per": per})
        base += max(1, size)
    return {"tshape": tshape, "src": srcs}


def gen_items(rng, n, prefix):
    items = []
    for i in range(n):
        call = gen_call(rng)
        sched = rng.choice(["sync", "threads"])
        items.append({"id": "%s%d" % (prefix, i), "call": call, "lm": rng.choice(["none", "auto", "user", "user"]),
                      "sm": rng.choice(list(SMODES)), "sched": sched, "nw": rng.choice([2, 3, 4]), "style": rng.randrange(6),
                      "plain": rng.random() < 0.15, "seed": rng.randrange(1 << 30)})
    return items


def smode_of(rec):
    return {(False, False): "now", (False, True): "nowret", (True, False): "lazy", (True, True): "lazyret"}[(rec["lazy"], rec["ret"])]


def repeats(call):
    """the ways one array occurs several times in the call (same base / period / shape / chunks = same dask array)"""
    out = set()
    srcs = call["src"]
    for i, a in enumerate(srcs):
        for b in srcs[i + 1:]:
            if (a["base"], a["per"], a["shape"], a["chunks"]) != (b["base"], b["per"], b["shape"], b["chunks"]):
                continue
            if a["tgt"] != b["tgt"]:
                out.add("other-target")
            elif (a["start"], a["step"]) == (b["start"], b["step"]):
                out.add("same-region")
            else:
                out.add("same-target")
    return out


def classify(rec, clause):
    """signature = the input class of the failing run, not its numbers"""
    if rec["kind"] == "npy":
        return "npy:%s%s" % (clause, ":zero-chunk" if any(0 in c for c in rec["chunks"]) and min(rec["shape"]) > 0 else "")
    call = rec["call"]
    if "same-target" in repeats(call) and clause in ("AllWritten", "FinalContent", "StoredOnReturn", "StoredOnCompute", "ReturnedContent",
                                                     "WriteOnce"):
        return "store:same-source-twice-into-one-target:%s" % clause
    if dup_pairs(call) and clause in ("AllWritten", "FinalContent", "StoredOnReturn", "StoredOnCompute", "ReturnedContent"):
        return "store:same-source-into-equal-targets"
    if has_zero_chunk(call) and all(min(s["shape"] or [1]) > 0 for s in call["src"]):
        return "store:%s:zero-chunk" % clause
    return "store:%s:lock=%s:%s" % (clause, rec["lm"], smode_of(rec))


def first_clause(text):
    names = [x for x in text.strip("{} ").replace('"', "").split(", ") if x and x != "More"]
    return names[0] if names else "Rejected"


def nontrivial(call):
    return n_blocks(call) >= 2 and any(any(a != 0 or st != 1 for a, st in zip(s["start"], s["step"])) or len(call["src"]) > 1
                                       for s in call["src"])


# ------------------------------------------------------------------ workers (run in forked children: they use threads)
def _store_work(item):
    return run_store(item)


def _geom_work(item):
    """a TLC-enumerated geometry case: reference guard, real run, comparison with the exported expectation"""
    case, exp, variant, rid = item
    call = case["call"]
    ref = numpy_reference(call)
    if ref != [list(x) for x in exp["exp"]]:
        return ("GUARD", {"numpy": ref, "spec": exp["exp"]}, None)
    lm = ("none", "auto", "user")[variant % 3]
    sm = ("now", "lazyret", "nowret", "lazy")[(variant // 3) % 4]
    sched = ("sync", "threads")[(variant // 12) % 2]
    rec = run_store({"id": rid, "call": call, "lm": lm, "sm": sm, "sched": sched, "nw": 3, "style": variant % 6,
                     "plain": variant % 7 == 3, "seed": variant})
    clause = None
    if rec["raised"]:
        clause = "UnexpectedRaise"
    elif rec["final"] != ref:
        clause = "FinalContent"
    elif rec["obs"] == "events":
        # the writes seen touch exactly the cells of the block writes of the specification, with their values
        want = {(b["t"], p, v) for b in exp["blocks"] for p, v in zip(b["pos"], b["val"])}
        have = {(e["t"], p, v) for e in rec["ev"] if e["a"] == "wb" for p, v in zip(e["pos"], e["val"])}
        if want != have:
            clause = "WriteOnce"
    return (clause, rec, variant)


def _npy_work(item):
    import dask
    import dask.array as da
    from ..arrays import observe
    case, exp, variant, rid, scratch = item
    shape, chunks, axis = case["shape"], case["chunks"], case["axis"]
    n = int(np.prod(shape))
    rec = {"id": rid, "kind": "npy", "shape": shape, "chunks": chunks, "axis": axis, "raised": "",
           "o": {"shape": [], "chunks": [], "lchunks": [], "cells": []}}
    if list(exp["cells"]) != list(range(1, n + 1)) or sum(exp["axchunks"]) != shape[axis - 1]:
        return ("GUARD", exp, None)
    try:
        x = da.from_array(np.arange(1, n + 1, dtype="i8").reshape(tuple(shape)), chunks=tuple(map(tuple, chunks)))
        d = os.path.join(scratch, "npy-%s" % rid)
        with dask.config.set(scheduler=("sync", "sync", "threads")[variant % 3]):
            da.to_npy_stack(d if variant % 4 else d + os.sep, x, axis=axis - 1)
        y = da.from_npy_stack(d, mmap_mode=(None, "r")[(variant // 2) % 2]) if variant % 5 else da.from_npy_stack(d)
        obs, full = observe(y, whole_too=True)
        blocks_chunks = obs["chunks"] if obs["blocksok"] else [[-1]]
        rec["o"] = {"shape": obs["cshape"], "chunks": blocks_chunks, "lchunks": obs["chunks"],
                    "cells": [int(v) for v in np.asarray(full).ravel()] if full is not None else []}
        import shutil
        shutil.rmtree(d, ignore_errors=True)
    except Exception as ex:  # noqa: BLE001
        rec["raised"] = "%s: %s" % (type(ex).__name__, str(ex)[:150])
    clause = None
    if rec["raised"]:
        clause = "UnexpectedRaise"
    elif rec["o"]["shape"] != list(exp["shape"]) or rec["o"]["cells"] != list(exp["cells"]):
        clause = "Content"
    elif len(rec["o"]["chunks"]) != len(shape) or rec["o"]["chunks"][axis - 1] != list(exp["axchunks"]):
        clause = "AxisChunks"
    return (clause, rec, variant)


def _beh_work(beh):
    return replay_behaviour(beh)


# ------------------------------------------------------------------ TLC
def combos(triples):
    return TLA("{" + ", ".join('<<%d, "%s", "%s">>' % t for t in triples) + "}")


def mc_model(ctx, calls, triples, keep):
    return ctx.model(ctx.spec("array", "StoreMC.tla"), {"Calls": calls, "Combos": combos(triples), "KeepHist": keep},
                     invariants=INVS, properties=PROPS if not keep else ["WrittenOnce"], spec="Spec", deadlock=True)


def export_triples(calls, quick):
    """the configurations whose complete behaviours are exported: everything under a lock (the lock serializes the
    tasks: k! behaviours), without lock as far as the number of interleavings allows"""
    out = []
    for c, call in enumerate(calls, 1):
        nb = n_blocks(call)
        for lm in ("auto", "user"):
            for sm in SMODES:
                if nb <= 3 or (sm != "nowret" and nb <= 4 and (not quick or repeats(call))):
                    out.append((c, lm, sm))
        if nb <= 2:
            out += [(c, "none", sm) for sm in SMODES]
        elif nb == 3:
            out += [(c, "none", sm) for sm in (("now", "lazy") if quick else ("now", "lazy", "nowret", "lazyret"))]
        elif nb == 4 and not quick:
            out += [(c, "none", "now")]
    return out


def validate(ctx, recs, report, shards=2):
    """code -> spec: TLC decides every record; `report(record, clause_text)` for the rejected ones"""
    from ..sidebyside import in_parallel
    if not recs:
        return
    spec, cfg = ctx.model(ctx.spec("array", "StoreTrace.tla"), {})
    shards = max(1, min(shards, len(recs) // 200 or 1))
    clean = [{k: v for k, v in r.items() if not k.startswith("_")} for r in recs]
    parts = [clean[i::shards] for i in range(shards)]
    # ctx.tlc_validate names its trace file after len(ctx.tlc_runs): give every shard its own context slot
    rejs = []
    if shards == 1:
        rejs = [ctx.tlc_validate(spec, parts[0], cfg, timeout=1500)]
    else:
        import copy
        subs = []
        for i, part in enumerate(parts):
            sub = copy.copy(ctx)
            sub.scratch = os.path.join(ctx.scratch, "shard%d-%d" % (i, len(ctx.tlc_runs)))
            os.makedirs(sub.scratch, exist_ok=True)
            sub.tlc_runs, sub.states, sub.transitions, sub.traces = [], 0, 0, 0
            subs.append(sub)
        rejs = in_parallel([lambda s=s, p=p: s.tlc_validate(spec, p, cfg, timeout=1500) for s, p in zip(subs, parts)])
        for sub in subs:
            ctx.tlc_runs += sub.tlc_runs
            ctx.states += sub.states
            ctx.transitions += sub.transitions
            ctx.traces += sub.traces
    byid = {r["id"]: r for r in recs}
    if len(byid) != len(recs):
        raise MachineryError("record ids are not unique")
    for rej in rejs:
        for rid, clauses in rej.items():
            report(byid[rid], clauses[0])


# ------------------------------------------------------------------ the check
def explore(ctx, calls, triples_design, triples_export, plans):
    """all TLC enumeration runs side by side -> (behaviours, geometry cases, npy cases)"""
    from ..sidebyside import in_parallel
    design = mc_model(ctx, calls, triples_design, False) if triples_design else None
    export = mc_model(ctx, calls, triples_export, True)
    cas = ctx.model(ctx.spec("array", "StoreCasesMC.tla"), {"Plans": TLA(plans)}, invariants=["GeomOK", "TileOK", "NpyOK"])
    res = in_parallel([(lambda: ctx.tlc(design[0], design[1], label="design: all interleavings", timeout=2400)) if design else (lambda: None),
                       lambda: ctx.tlc_cases(export[0], export[1], label="design+behaviours", timeout=2400)[0],
                       lambda: ctx.tlc_cases(cas[0], cas[1], label="cases: geometry + npy stack", timeout=2400)[0]])
    import json
    behs = sorted(res[1], key=lambda b: json.dumps([b["c"], b["lm"], b["sm"], [(e["a"], e["k"]) for e in b["ev"]]]))
    for b in behs:                          # (TLC's dump order depends on its worker threads: sort for determinism)
        b["call"] = calls[b["c"] - 1]
    cases = sorted(res[2], key=lambda c: json.dumps(c["c"], sort_keys=True))
    return behs, [c for c in cases if c["c"]["fam"] in ("geom", "tile")], [c for c in cases if c["c"]["fam"] == "npy"]


def _any_work(tagged):
    kind, item = tagged
    return {"b": _beh_work, "g": _geom_work, "n": _npy_work, "s": _store_work}[kind](item)


def collect(behs, gitems, nitems, sitems, violation, count, procs=None):
    """runs everything on the real code (in forked children, which may use threads); verdicts that are taken by
    comparing with the exported specification state are reported at once, the records go to TLC -> records"""
    recs = []
    t0 = time.time()
    tagged = [("b", x) for x in behs] + [("g", x) for x in gitems] + [("n", x) for x in nitems] + [("s", x) for x in sitems]
    procs = procs or min(int(os.environ.get("VERIF_PROCS", "14")), 4)       # (measured: more workers do not help, see notes)
    results = pmap(_any_work, tagged, procs=max(2, procs), chunk=32, always=True)
    if os.environ.get("VERIF_DEBUG"):
        print("  [%d behaviours, %d geometry cases, %d npy cases, %d random calls: %.1fs]"
              % (len(behs), len(gitems), len(nitems), len(sitems), time.time() - t0), flush=True)
    for (kind, item), res in zip(tagged, results):
        if kind == "b":
            beh = item
            count(("beh", beh["c"], beh["lm"], beh["sm"], [(e["a"], e["k"]) for e in beh["ev"]]), True)
            if res is not None:
                clause, detail = res
                violation("replay:%s:lock=%s:%s" % (clause, beh["lm"], beh["sm"]),
                          "%s: da.store does not follow the behaviour of the specification" % clause,
                          {"kind": "behaviour", "beh": beh, "observed": detail})
        elif kind == "g":
            (case, exp, variant, rid), (clause, rec, _v) = item, res
            if clause == "GUARD":
                raise MachineryError("Store!Expected disagrees with NumPy assignment on %r: %r" % (case, rec))
            count(("geom", case, variant), n_blocks(case["call"]) >= 2)
            recs.append(rec)
            if clause:
                violation(classify(rec, clause), "%s: da.store disagrees with the specification on an enumerated region/chunking case" % clause,
                          {"kind": "geom", "case": case, "expected": exp, "variant": variant, "observed": rec})
        elif kind == "n":
            (case, exp, variant, rid, _s), (clause, rec, _v) = item, res
            if clause == "GUARD":
                raise MachineryError("npy-stack expectation of the specification is inconsistent on %r: %r" % (case, rec))
            count(("npy", case, variant), len(case["chunks"][case["axis"] - 1]) >= 2)
            recs.append(rec)
            if clause:
                violation(classify(rec, clause), "%s: the npy stack does not round-trip" % clause,
                          {"kind": "npy", "case": case, "expected": exp, "variant": variant, "observed": rec})
        else:
            rec = res
            count(("store", item["call"], item["lm"], item["sm"], item["sched"], item["plain"]), nontrivial(item["call"]))
            rec["_item"] = item
            recs.append(rec)
    return recs


def decide(ctx, recs, violation):
    """code -> spec: TLC decides the records"""
    def report(rec, clause_text):
        cl = first_clause(clause_text)
        violation(classify(rec, cl), "TLC rejects a recorded %s run (%s)%s" % (rec["kind"], clause_text, (": " + rec["raised"]) if rec["raised"] else ""),
                  {"kind": "record", "record": {k: v for k, v in rec.items() if k != "_item"}, "item": rec.get("_item")})
    t0 = time.time()
    validate(ctx, recs, report, shards=2 if len(recs) > 3000 else 1)
    if os.environ.get("VERIF_DEBUG"):
        print("  [validation of %d records: %.1fs]" % (len(recs), time.time() - t0), flush=True)


def judge_all(ctx, behs, gitems, nitems, sitems, violation, count, procs=None):
    recs = collect(behs, gitems, nitems, sitems, violation, count, procs)
    decide(ctx, recs, violation)
    return recs


def plan(fam, shapes, starts=(0,), steps=(1,), pads=(0,), zero=False):
    st = lambda v: "{" + ", ".join(str(x) for x in v) + "}"
    return '[fam |-> "%s", shapes |-> {%s}, starts |-> %s, steps |-> %s, pads |-> %s, zero |-> %s]' % (
        fam, ", ".join("<<" + ", ".join(map(str, sh)) + ">>" for sh in shapes), st(starts), st(steps), st(pads), "TRUE" if zero else "FALSE")


def sizes(ctx):
    q = ctx.quick
    plans = [plan("geom", [(1,), (2,), (3,), (4,)], (0, 2), (1, 2), (0, 1), True),
             plan("geom", [(2, 3), (3, 2)] if q else [(2, 3), (3, 2), (3, 3)], (0, 1), (1, 2), (0,) if q else (0, 1)),
             plan("npy", [(1,), (2,), (3,), (4,), (5,), (2, 3), (3, 2), (3, 3), (2, 2, 2)] if q else
                  [(1,), (2,), (3,), (4,), (5,), (2, 3), (3, 2), (3, 3), (5, 2), (2, 5), (4, 3), (2, 2, 2), (3, 2, 3), (2, 3, 3)])]
    plans.append(plan("tile", [(2,), (3,), (4,), (2, 2)] if q else [(2,), (3,), (4,), (5,), (2, 2), (3, 2), (2, 2, 2)], steps=(1, 2)))
    if not q:
        plans.append(plan("geom", [(5,), (2, 2, 2)], (0, 1), (1, 2), (0,), True))
    return "{" + ", ".join(plans) + "}"


def run(ctx):
    import gc
    gc.collect()
    gc.freeze()        # forked workers must not copy the whole heap on their first collection
    calls = MENU if ctx.quick else MENU + MENU_T
    design = [(c, lm, sm) for c in range(1, len(calls) + 1) for lm in ("none", "auto", "user") for sm in SMODES]
    export = export_triples(calls, ctx.quick)
    behs, gcases, ncases = explore(ctx, calls, design, export, sizes(ctx))
    cap_b, cap_g = ctx.pick(400, 4000), ctx.pick(1200, 10 ** 9)
    sampled = False
    nbeh = len(behs)
    if len(behs) > cap_b:
        # keep every behaviour under a lock (few), sample the lock-free interleavings
        locked = [b for b in behs if b["lm"] != "none"]
        free = [b for b in behs if b["lm"] == "none"]
        if len(locked) > cap_b // 2:
            locked = ctx.rng.sample(locked, cap_b // 2)
        behs = locked + ctx.rng.sample(free, min(len(free), cap_b - len(locked)))
        sampled = True
    if len(gcases) > cap_g:                # every tiling case, a sample of the single-source geometry cases
        tiles = [c for c in gcases if c["c"]["fam"] == "tile"]
        geoms = [c for c in gcases if c["c"]["fam"] != "tile"]
        gcases = tiles + ctx.rng.sample(geoms, max(0, cap_g - len(tiles)))
        sampled = True
    gitems = [(c["c"], c["e"], ctx.rng.randrange(168), "g%d" % i) for i, c in enumerate(gcases)]
    nitems = [(c["c"], c["e"], ctx.rng.randrange(60), "n%d" % i, ctx.scratch) for i, c in enumerate(ncases)]
    sitems = gen_items(ctx.rng, ctx.pick(400, 4000), "s")
    recs = judge_all(ctx, behs, gitems, nitems, sitems, ctx.violation, ctx.count)
    ctx.sample({"behaviour": {"call": behs[0]["call"], "lock": behs[0]["lm"], "mode": behs[0]["sm"],
                              "steps": [(e["a"], e["k"]) for e in behs[0]["ev"]]}})
    ctx.sample({"geometry_case": gitems[len(gitems) // 2][0], "expected_target": gitems[len(gitems) // 2][1]["exp"]})
    ctx.sample({"npy_case": nitems[len(nitems) // 2][0]})
    r0 = next(r for r in recs if r["kind"] == "store" and r["id"].startswith("s") and len(r["ev"]) > 6)
    ctx.sample({"recorded_trace": {"call": r0["call"], "lock": r0["lm"], "lazy": r0["lazy"], "ret": r0["ret"], "events": r0["ev"][:14]}})
    ctx.exhaustive = not sampled
    ctx.rule = ("cases = complete behaviours of StoreMC replayed step by step + TLC-enumerated (shape, chunking, region) cases x a "
                "(lock, mode, scheduler, target kind) variant + npy (shape, chunking, axis) cases + recorded random calls; "
                "non-trivial = at least 2 blocks (and, for random calls, a proper region or several sources); distinct by case and variant")
    ctx.extra["behaviours_enumerated_by_tlc"] = nbeh
    ctx.extra["behaviours_replayed"] = len(behs)
    ctx.extra["geometry_cases"] = len(gitems)
    ctx.extra["npy_cases"] = len(nitems)
    ctx.extra["recorded_random_calls"] = len(sitems)
    ctx.assumptions = ["TLC evaluates the specification correctly", "the instrumented target reports the cells NumPy assignment touches",
                       "sequence numbers are taken under one lock, so the logged order is a real order of the instrumented events",
                       "NumPy per-block assignment is correct"]


def replay(ctx, obj):
    c = obj["case"]
    kind = c["kind"]
    if kind == "behaviour":
        res = pmap(_beh_work, [c["beh"]], procs=2, always=True)[0]
        print("behaviour:", c["beh"]["call"], c["beh"]["lm"], c["beh"]["sm"], [(e["a"], e["k"]) for e in c["beh"]["ev"]], "\nresult:", res)
        return res is not None
    if kind == "geom":
        clause, rec, _ = pmap(_geom_work, [(c["case"], c["expected"], c["variant"], "g0")], procs=2, always=True)[0]
    elif kind == "npy":
        clause, rec, _ = pmap(_npy_work, [(c["case"], c["expected"], c["variant"], "n0", ctx.scratch)], procs=2, always=True)[0]
    else:
        old = c["record"]
        if old["kind"] == "npy" or c.get("item") is None:
            rec = old
        else:
            rec = pmap(_store_work, [c["item"]], procs=2, always=True)[0]
        clause = None
    rej = {}
    spec, cfg = ctx.model(ctx.spec("array", "StoreTrace.tla"), {})
    rej = ctx.tlc_validate(spec, [rec], cfg)
    print("record:", rec, "\nclause:", clause, "\nTLC:", rej)
    return bool(clause) or bool(rej)


# ------------------------------------------------------------------ selftest
class patched:
    """In-memory mutant: re-compiles module.func with textual replacements (each must occur exactly once) inside
    the module's namespace for the duration of the block.  /repo is never written."""

    def __init__(self, module, name, repl, also=()):
        import inspect
        import textwrap
        self.module, self.name, self.also = module, name, also
        self.orig = getattr(module, name)
        src = textwrap.dedent(inspect.getsource(self.orig))
        for old, new in repl:
            if src.count(old) != 1:
                raise MachineryError("mutant anchor %r occurs %d times in %s.%s" % (old, src.count(old), module.__name__, name))
            src = src.replace(old, new)
        ns = {}
        exec(compile(src, "<mutant of %s.%s>" % (module.__name__, name), "exec"), module.__dict__, ns)
        self.fn = ns[name]

    def __enter__(self):
        setattr(self.module, self.name, self.fn)
        self.saved = [(m, getattr(m, self.name)) for m in self.also]
        for m in self.also:
            setattr(m, self.name, self.fn)

    def __exit__(self, *a):
        setattr(self.module, self.name, self.orig)
        for m, o in self.saved:
            setattr(m, self.name, o)


def mutants():
    import dask.array as da
    import dask.array.core as core
    return [
        ("load_store_chunk ignores the lock (no acquire / release)", lambda: patched(core, "load_store_chunk", [
            ("    if lock:\n        lock.acquire()\n", ""), ("        if lock:\n            lock.release()\n", "        pass\n")])),
        ("load_store_chunk drops the region offset of block writes", lambda: patched(core, "load_store_chunk", [
            ("index = fuse_slice(region, index)", "index = index")])),
        ("load_store_chunk skips one-element blocks (size != 0 -> size > 1)", lambda: patched(core, "load_store_chunk", [
            ("x.size != 0", "x.size > 1")])),
        ("store: load_stored defaults to return_stored (wrong operand)", lambda: patched(core, "store", [
            ("load_stored = return_stored and not compute", "load_stored = return_stored")], also=[da])),
        ("store: compute=False without return_stored computes at once", lambda: patched(core, "store", [
            ("    if compute:\n        if not return_stored:", "    if compute or not return_stored:\n        if not return_stored:")], also=[da])),
        ("store: every source is written through the first region", lambda: patched(core, "store", [
            ("region=r,\n                lock=lock,\n                return_stored=return_stored,", "region=regions_list[0],\n                lock=lock,\n                return_stored=return_stored,")], also=[da])),
        ("store: the region is missing from the name of the store layer (tiling one array collapses)", lambda: patched(core, "store", [
            ("s.name, target_token, r, lock, return_stored, load_stored", "s.name, target_token, lock, return_stored, load_stored")], also=[da])),
        ("store: the store layer is named after the content of the target, not its identity", lambda: patched(core, "store", [
            ("target_token = t if isinstance(t, Delayed) else (type(t).__name__, id(t))", "target_token = t")], also=[da])),
        ("from_npy_stack reads the files in reverse order", lambda: patched(core, "from_npy_stack", [
            ("for i in range(len(chunks[axis]))", "for i in reversed(range(len(chunks[axis])))")], also=[da])),
        ("to_npy_stack writes merged chunks into the info file", lambda: patched(core, "to_npy_stack", [
            ("meta = {\"chunks\": chunks,", "meta = {\"chunks\": tuple((sum(c),) for c in chunks),")], also=[da])),
    ]


def selftest(ctx):
    import copy
    ok = True
    calls = MENU
    triples = [(1, "user", "now"), (1, "user", "lazyret"), (1, "auto", "nowret"), (1, "none", "now"), (4, "none", "lazy"),
               (4, "user", "nowret"), (5, "user", "lazy"), (3, "auto", "lazyret"), (7, "user", "now"), (8, "auto", "lazy"),
               (9, "user", "lazyret")]
    plans = "{" + ", ".join([plan("geom", [(2,), (3,)], (0, 2), (1, 2), (0, 1)), plan("geom", [(2, 2)], (0, 1), (1,), (0, 1)),
                             plan("tile", [(2,), (3,)], steps=(1, 2)), plan("npy", [(3,), (2, 3)])]) + "}"
    behs, gcases, ncases = explore(ctx, calls, None, triples, plans)
    rng = random.Random(11)
    behs = rng.sample(behs, min(len(behs), 16))
    gcases = rng.sample(gcases, min(len(gcases), 20))
    gitems = [(c["c"], c["e"], rng.randrange(168), "g%d" % i) for i, c in enumerate(gcases)]
    nitems = [(c["c"], c["e"], rng.randrange(60), "n%d" % i, ctx.scratch) for i, c in enumerate(ncases)]
    sitems = gen_items(rng, 40, "s")

    def attempt(tag, npy=None):
        out = []
        t0 = time.time()
        parts = (behs, gitems, nitems, sitems) if npy is None else ([], [], nitems, []) if npy else (behs, gitems, [], sitems)
        recs = collect(*parts, lambda sig, what, rp: out.append(sig), lambda k, n: None, procs=4)
        for r in recs:
            r["id"] = "%s-%s" % (tag, r["id"])
        return out, recs

    runs = [("base", "unchanged tree", attempt("base"))]
    for i, (name, make) in enumerate(mutants()):
        with make():
            runs.append(("m%d" % i, name, attempt("m%d" % i, npy="npy_stack" in name)))
    # recorded traces, corrupted by hand
    good = next(r for r in runs[0][2][1] if r["kind"] == "store" and r["lm"] == "user" and r["obs"] == "events" and not r["lazy"]
                and sum(1 for e in r["ev"] if e["a"] == "wb") >= 2 and not r["raised"])
    goodn = next(r for r in runs[0][2][1] if r["kind"] == "npy" and len(r["chunks"][r["axis"] - 1]) >= 2)

    def corrupt(name, fn, base=good):
        r = copy.deepcopy({k: v for k, v in base.items() if not k.startswith("_")})
        r["id"] = "c-" + name
        fn(r)
        return r

    def drop_exit(r):
        del r["ev"][[i for i, e in enumerate(r["ev"]) if e["a"] == "we"][0]]

    def bad_value(r):
        [e for e in r["ev"] if e["a"] == "wb"][-1]["val"][0] += 1

    def write_before_acquire(r):
        i = [i for i, e in enumerate(r["ev"]) if e["a"] == "acq"][0]
        j = [j for j, e in enumerate(r["ev"]) if e["a"] == "wb" and j > i][0]
        r["ev"][i], r["ev"][j] = r["ev"][j], r["ev"][i]

    def drop_block(r):
        i = [i for i, e in enumerate(r["ev"]) if e["a"] == "wb"][0]
        j = [j for j, e in enumerate(r["ev"]) if e["a"] == "we" and j > i][0]
        del r["ev"][j], r["ev"][i]

    def final_cell(r):
        r["final"][0][0] += 5

    def overlap(r):
        i = [i for i, e in enumerate(r["ev"]) if e["a"] == "we"][0]
        e = r["ev"].pop(i)
        k = [k for k, x in enumerate(r["ev"]) if x["a"] == "wb" and k >= i][0]
        r["ev"][k]["who"] = e["who"] + 50
        nxt = [m for m, x in enumerate(r["ev"]) if x["a"] == "we" and m > k][0]
        r["ev"][nxt]["who"] = e["who"] + 50
        r["ev"].insert(k + 1, e)

    def merged_axis(r):
        a = r["axis"] - 1
        r["o"]["chunks"][a] = [sum(r["o"]["chunks"][a])]
        r["o"]["lchunks"][a] = [sum(r["o"]["lchunks"][a])]

    hand = [(corrupt("untouched-copy", lambda r: None), False), (corrupt("dropped-write-exit", drop_exit), True),
            (corrupt("corrupted-value", bad_value), True), (corrupt("write-before-acquire", write_before_acquire), True),
            (corrupt("dropped-block-write", drop_block), True), (corrupt("corrupted-final-cell", final_cell), True),
            (corrupt("two-writes-in-flight-under-a-lock", overlap), True),
            (corrupt("npy-axis-chunks-merged", merged_axis, goodn), True)]
    allrecs = [r for _t, _n, (_o, recs) in runs for r in recs] + [r for r, _w in hand]
    rejected = {}
    validate(ctx, allrecs, lambda rec, text: rejected.setdefault(rec["id"], text), shards=2)
    base_sigs = set()
    for tag, name, (out, recs) in runs:
        tlc_rej = [r for r in recs if r["id"] in rejected]
        sigs = sorted(set(out) | {classify(r, first_clause(rejected[r["id"]])) for r in tlc_rej})
        if tag == "base":
            base_sigs = set(sigs)
            print("selftest baseline (unchanged tree): %d replay/case violations, %d records rejected by TLC of %d %s"
                  % (len(out), len(tlc_rej), len(recs), sigs))
            ok &= not sigs
            continue
        new = [s for s in sigs if s not in base_sigs]
        print("selftest mutant [%s]: %s (replay/cases: %d, TLC rejects %d of %d records; e.g. %s)"
              % (name, "DETECTED" if new else "MISSED", len(out), len(tlc_rej), len(recs), new[:3]))
        ok &= bool(new)
    for r, want in hand:
        got = r["id"] in rejected
        print("selftest trace [%s]: %s %s" % (r["id"][2:], "rejected" if got else "accepted", rejected.get(r["id"], "")))
        ok &= got == want
    print("selftest C29:", "OK" if ok else "FAILED")
    return 0 if ok else 1
