"""C14 - compute, persist and optimize preserve structure and values.

spec -> code: TLC enumerates (specs/graph/CollectionsMC.tla) the argument tuples of dask.compute /
dask.persist / dask.optimize - nested lists, tuples, sets, dicts, OrderedDicts, dataclasses,
namedtuples and iterators over three collections and two plain leaves, every order of the collections,
repeated occurrences, collections as dict keys and set members, traverse on/off - with the results the
contract demands (specs/graph/Collections.tla over specs/common/Nested.tla).  The harness gives the
three collections KINDS (delayed, bag, bag item, array, dataframe series; A-B-A assignments included)
and pairwise different values, calls the real functions and projects what they return back to the
abstract structure (harness/nested.py).  code -> spec: seeded random deeper structures are recorded and
TLC decides every record (CollectionsTrace.tla)."""
from __future__ import annotations

import json
import random
import warnings

from ..core import MachineryError
from ..nested import HASHABLE_KINDS, Env, build, canon, leaves, project, show, skeleton
from ..par import pmap

META = {
    "title": "compute, persist and optimize preserve structure and values",
    "design_ref": "DESIGN.md §4.2 C14",
    "technique": "TLA+ contract over a Python container algebra (Nested.tla); TLC enumerates nested argument structures x traverse; "
                 "replay into dask.compute/persist/optimize with collections of interleaved kinds + TLC validation of recorded calls",
    "level_text": "TLC enumerates every argument tuple of depth <= 2 (<= 3 arguments, one nested argument - a container of <= 2-3 leaves - "
                  "among <= 1 leaf sibling; thorough: <= 2 siblings, and depth 3: a container holding one container and <= 1 leaf) over 3 collections and 2 plain leaves for all 8 container "
                  "kinds, with collections as dict keys / set members, x traverse; design invariants (ShapeKept, AllComputed, TopOnly, "
                  "Idempotent) are checked on every case. Each case is run through dask.compute, dask.persist and dask.optimize with the "
                  "collections' kinds drawn from a menu of all-different and A-B-A assignments (delayed, Delayed with a declared length "
                  "nout = 0..3, bag, bag item, array, dataframe series), schedulers sync/threads, optimize_graph on/off; the returned "
                  "objects are projected back (container kinds, order, value fingerprints, and for returned collections the full metadata "
                  "projection: type, keys-shape, array shape/dtype/chunks/name kind, bag npartitions, frame columns/dtypes/divisions, "
                  "Delayed len() and tuple unpacking) and compared with the originals'. Random deeper and wider "
                  "structures are recorded and decided by TLC.",
    "level_note": "Trusted: TLC, the projection (harness/nested.py; cross-checked on every case by projecting the eagerly built result: a "
                  "disagreement with the TLA+ expectation is a machinery error), value fingerprints (pairwise different values). "
                  "dask.dataframe runs through the inert pyarrow shim. Not covered: processes / Executor schedulers in the quick tier, "
                  "distributed, custom collections (__dask_exprs__), annotations.",
}

# kinds of the collections 1..3: all-different and A-B-A assignments
MENU = [
    ("delayed", "bag", "delayed"), ("array", "delayed", "array"), ("bag", "array", "bag"), ("delayed", "array", "bag"),
    ("bag", "delayed", "array"), ("array", "bag", "delayed"), ("delayed", "item", "delayed"), ("item", "delayed", "bag"),
    ("array", "item", "delayed"), ("delayed", "bag", "array"), ("bag", "delayed", "item"),
    # Delayed objects with a declared length (delayed(f, nout=n)(...)), nout = 0..3
    ("dnout2", "bag", "dnout3"), ("array", "dnout1", "delayed"), ("dnout0", "item", "dnout2"), ("delayed", "dnout3", "array"),
    ("dnout1", "dnout2", "dnout3"), ("bag", "dnout0", "array"), ("dnout3", "array", "dnout1"), ("dnout2", "delayed", "bag"),
]
FRAME_MENU = [("delayed", "frame", "delayed"), ("frame", "array", "delayed"), ("bag", "delayed", "frame"), ("frame", "delayed", "frame"),
              ("array", "frame", "array")]
LOWERING_MENU = [("delayed", "frame_rep", "array"), ("frame_rep", "delayed", "bag")]
GROUP = {"delayed": "D", "dnout0": "D", "dnout1": "D", "dnout2": "D", "dnout3": "D", "bag": "B", "item": "B", "array": "A",
         "frame": "F", "frame_rep": "F"}
OPS = ("compute", "persist", "optimize")

_ENVS = {}


def env_for(kinds):
    kinds = tuple(kinds)
    if kinds not in _ENVS:
        with warnings.catch_warnings():
            warnings.simplefilter("ignore")
            _ENVS[kinds] = Env(kinds)
    return _ENVS[kinds]


def call_op(op, args, traverse, sched, og):
    import dask
    if op == "compute":
        return dask.compute(*args, traverse=traverse, scheduler=sched, optimize_graph=og)
    if op == "persist":
        return dask.persist(*args, traverse=traverse, scheduler=sched, optimize_graph=og)
    return dask.optimize(*args, traverse=traverse)


def run_case(case, kinds, sched, og, ops=OPS):
    """Call the real functions; returns {op: obs}; obs = {"raised", "msg", "res": [trees]}."""
    env = env_for(kinds)
    out = {}
    for op in ops:
        obs = {"raised": "", "msg": "", "res": []}
        try:
            with warnings.catch_warnings():
                warnings.simplefilter("ignore")
                args = [build(s, env) for s in case["args"]]          # iterators are consumed: fresh arguments per call
                res = call_op(op, args, case["traverse"], sched, og)
                if not isinstance(res, tuple):
                    obs["res"] = [{"k": "other", "s": "result is a %s" % type(res).__name__}]
                else:
                    obs["res"] = [project(x, env) for x in res]
        except Exception as ex:  # noqa: BLE001 - every exception of dask is an observation
            obs["raised"] = type(ex).__name__
            obs["msg"] = str(ex)[:160]
        out[op] = obs
    return out


def eager_guard(case, kinds):
    """Reference guard: the structure built EAGERLY from the values the collections have alone, projected,
    must be what the specification expects from compute; the untouched structure must be what it expects
    from persist / optimize (up to the leniency of canon)."""
    env = env_for(kinds)

    class VEnv:
        colls = env.alone
    if case["traverse"]:
        got = [canon(project(build(s, VEnv), env)) for s in case["args"]]
    else:
        got = [canon(project(env.alone[s["c"] - 1], env)) if s["k"] == "coll" else canon(project(build(s, env), env)) for s in case["args"]]
    want = [canon(s) for s in case["compute"]]
    if got != want:
        return "compute", got, want
    got = [canon(project(build(s, env), env)) for s in case["args"]]
    want = [canon(s) for s in case["persist"]]
    if got != want:
        return "persist", got, want
    return None


def _states(s):
    k = s["k"]
    if k in ("coll", "lazy"):
        return {"k": "L"}
    if k == "val":
        return {"k": "V"}
    if "xs" in s:
        return {"k": "list" if k == "iter" else k, "xs": sorted((_states(x) for x in s["xs"]), key=json.dumps) if k == "set" else [_states(x) for x in s["xs"]]}
    if "vs" in s:
        pairs = [[_states(a), _states(b)] for a, b in zip(s["ks"], s["vs"])]
        return {"k": k, "kvs": sorted(pairs, key=json.dumps) if k == "dict" else pairs}
    return dict(s)


def judge(want, obs, mds):
    """Python twin of CollectionsTrace!Bad: first failing clause or None.  mds: metadata strings of the collections."""
    if obs["raised"]:
        return "UnexpectedRaise"
    got = obs["res"]
    if len(got) != len(want):
        return "Length"
    if [skeleton(g) for g in got] != [skeleton(w) for w in want]:
        return "Structure"
    if [_states(g) for g in got] != [_states(w) for w in want]:
        return "State"
    for g in got:
        for lf in leaves(g):
            if lf["k"] == "broken" or (lf["k"] == "lazy" and not (1 <= lf["c"] <= len(mds) and lf["md"] == mds[lf["c"] - 1])):
                return "Lazy"
    if [canon(g) for g in got] != [canon(w) for w in want]:
        return "Values"
    return None


def lazy_detail(obs, mds):
    """The first returned collection whose type / keys-shape / metadata differs from the original's."""
    for g in obs["res"]:
        for lf in leaves(g):
            if lf["k"] == "lazy" and not (1 <= lf["c"] <= len(mds) and lf["md"] == mds[lf["c"] - 1]):
                return " - returned %s, original %s" % (lf["md"], mds[lf["c"] - 1] if 1 <= lf["c"] <= len(mds) else "?")
    return ""


def interleaved(found_kinds):
    """The collections dask finds, in order, regrouped by low-level optimizer (first appearance) change their order."""
    groups = {}
    for i, k in enumerate(found_kinds):
        groups.setdefault(GROUP[k], []).append(i)
    if all(len(g) == 1 for g in groups.values()):
        return False
    return [i for g in groups.values() for i in g] != list(range(len(found_kinds)))


def classify(case, kinds, op, clause, obs):
    found = [kinds[c - 1] for c in case["found"]]
    if op == "optimize" and len(found) > 1 and any(GROUP[k] == "F" for k in found):
        return "optimize:frame+other"
    if op in ("compute", "persist") and len(found) > 1 and interleaved(found):      # optimize() does not regroup
        return "interleaved-kinds:" + op
    if "frame_rep" in found and op == "optimize" and obs["raised"] == "NotImplementedError":
        return "optimize:frame-needs-lowering"
    kinds_in = sorted({s["k"] for a in case["args"] for s in _nodes(a)} - {"coll", "plain", "pstr"})
    if not found and "iter" in kinds_in and case["traverse"]:
        return "no-collections:iterator-exhausted"
    return "%s:%s:traverse=%s:%s:%s" % (op, clause, case["traverse"], "+".join(sorted(set(found))) or "none", "+".join(kinds_in) or "flat")


def _nodes(s, acc=None):
    acc = [] if acc is None else acc
    acc.append(s)
    for x in s.get("xs", []) + s.get("ks", []) + s.get("vs", []):
        _nodes(x, acc)
    return acc


def _work(item):
    case, kinds, sched, og = item
    try:
        g = eager_guard(case, kinds)
    except Exception as ex:  # noqa: BLE001
        from ..frames import is_shim_error
        return [("GUARD", "exception in the guard: %s: %s (shim=%s)" % (type(ex).__name__, ex, is_shim_error(ex)), None)]
    if g is not None:
        return [("GUARD", "projection of the eager result differs from the specification for %s: %r vs %r" % g, None)]
    res = run_case(case, kinds, sched, og)
    out = []
    for op in OPS:
        want = case["compute"] if op == "compute" else case["persist"]
        cl = judge(want, res[op], env_for(kinds).mds)
        out.append((op, cl, res[op] if cl else None))
    return out


def compatible(menu, hashed):
    return [ks for ks in menu if all(ks[i - 1] in HASHABLE_KINDS for i in hashed)]


# --------------------------------------------------------------------------- random structures (code -> spec)
def random_struct(rng, depth, hashable):
    r = rng.random()
    if depth == 0 or r < 0.3:
        q = rng.random()
        if q < 0.7:
            return {"k": "coll", "c": rng.randint(1, 3)}
        return {"k": "plain", "pv": rng.choice([7, 8])} if q < 0.85 else {"k": "pstr", "ps": "s"}
    kind = rng.choice(["list", "tuple", "iter", "dc", "nt", "dict", "odict", "set", "list", "tuple", "dict"])
    if kind == "set":
        pool = [{"k": "coll", "c": c} for c in hashable] + [{"k": "plain", "pv": 7}, {"k": "pstr", "ps": "s"}, {"k": "plain", "pv": 8}]
        return {"k": "set", "xs": rng.sample(pool, rng.randint(1, min(3, len(pool))))}
    if kind in ("dict", "odict"):
        n = rng.randint(1, 3)
        pool = [{"k": "pstr", "ps": s} for s in ("p", "q", "r")] + [{"k": "coll", "c": c} for c in hashable]
        return {"k": kind, "ks": rng.sample(pool, n), "vs": [random_struct(rng, depth - 1, hashable) for _ in range(n)]}
    n = 2 if kind in ("dc", "nt") else rng.randint(1, 4)
    return {"k": kind, "xs": [random_struct(rng, depth - 1, hashable) for _ in range(n)]}


def _found(args, traverse):
    out = []

    def walk(s):
        if s["k"] == "coll":
            if s["c"] not in out:
                out.append(s["c"])
        elif "xs" in s:
            for x in s["xs"]:
                walk(x)
        elif "vs" in s:
            for a, b in zip(s["ks"], s["vs"]):
                walk(a)
                walk(b)
    for a in args:
        if traverse or a["k"] == "coll":
            walk(a)
    return out


def random_case(rng, frames):
    menu = MENU + (FRAME_MENU + LOWERING_MENU if frames else [])
    kinds = rng.choice(menu)
    hashable = [i + 1 for i, k in enumerate(kinds) if k in HASHABLE_KINDS]
    args = [random_struct(rng, rng.randint(0, 3), hashable) for _ in range(rng.randint(1, 4))]
    traverse = rng.random() < 0.85
    return {"args": args, "traverse": traverse, "found": _found(args, traverse)}, kinds


def _record(item):
    i, case, kinds, sched, og = item
    res = run_case(case, kinds, sched, og)
    out = []
    for op in OPS:
        obs = dict(res[op])
        msg = obs.pop("msg")
        out.append({"id": "r%d-%s" % (i, op), "op": op, "args": case["args"], "traverse": case["traverse"], "colls": env_for(kinds).mds,
                    "obs": obs, "kinds": list(kinds), "found": case["found"], "variant": [sched, og], "msg": msg})
    return out


# --------------------------------------------------------------------------- the check
INVS = ["ShapeKept", "AllComputed", "TopOnly", "Idempotent", "PersistThenCompute", "FoundAll", "DepthBound"]


def enumerate_cases(ctx, consts):
    spec, cfg = ctx.model(ctx.spec("graph", "CollectionsMC.tla"), consts, invariants=INVS)
    cases, _ = ctx.tlc_cases(spec, cfg, label="design+cases:%s" % consts, timeout=1500)
    ctx.extra["cases_enumerated_by_tlc"] = ctx.extra.get("cases_enumerated_by_tlc", 0) + len(cases)
    return cases


def replay_cases(ctx, cases, rng, frame_share, thorough=False):
    before = len(ctx.violations)
    items = []
    for c in cases:
        menu = FRAME_MENU if rng.random() < frame_share else MENU
        ks = compatible(menu, c["hash"]) or compatible(MENU + FRAME_MENU, c["hash"])
        if not ks:
            ctx.skip("no kind assignment makes the structure hashable")
            continue
        kinds = rng.choice(ks)
        sched = "threads" if rng.random() < (0.3 if thorough else 0.15) else "sync"
        items.append((c, kinds, sched, rng.random() < 0.8))
    results = pmap(_work, items, chunk=40, always=True)
    for (case, kinds, sched, og), res in zip(items, results):
        if res and res[0][0] == "GUARD":
            raise MachineryError("reference guard: %s (case %s, kinds %s)" % (res[0][1], [show(a) for a in case["args"]], kinds))
        for op, cl, obs in res:
            ctx.count((op, case["args"], case["traverse"], kinds, sched, og), bool(case["found"]))
            if cl:
                ctx.violation(classify(case, kinds, op, cl, obs),
                              "dask.%s(%s, traverse=%s) with kinds %s: %s%s" % (op, ", ".join(show(a) for a in case["args"]), case["traverse"],
                                                                              "/".join(kinds), cl,
                                                                              ((" - returned " + ", ".join(show(x) for x in obs["res"])) if not obs["raised"]
                                                                               else " - %s: %s" % (obs["raised"], obs["msg"][:100]))
                                                                              + (lazy_detail(obs, env_for(kinds).mds) if cl == "Lazy" else "")),
                              {"kind": "mc", "case": case, "kinds": list(kinds), "variant": [sched, og], "op": op, "observed": obs})
    if items:
        mid = items[len(items) // 2]
        ctx.sample({"args": [show(a) for a in mid[0]["args"]], "traverse": mid[0]["traverse"], "kinds": list(mid[1]),
                    "expected_compute": [show(a) for a in mid[0]["compute"]]})
    ctx.extra["cases_replayed"] = ctx.extra.get("cases_replayed", 0) + len(items)
    return len(ctx.violations) - before


def record_cases(ctx, todo):
    """todo: list of (case, kinds, sched, og).  TLC decides every recorded call."""
    before = len(ctx.violations)
    recs = [r for part in pmap(_record, [(i,) + t for i, t in enumerate(todo)], chunk=40, always=True) for r in part]
    spec, cfg = ctx.model(ctx.spec("graph", "CollectionsTrace.tla"), {})
    cases = {"r%d" % i: t[0] for i, t in enumerate(todo)}
    for lo in range(0, len(recs), 6000):
        part = recs[lo:lo + 6000]
        rej = ctx.tlc_validate(spec, [{k: r[k] for k in ("id", "op", "args", "traverse", "colls", "obs")} for r in part], cfg, timeout=1500)
        byid = {r["id"]: r for r in part}
        for r in part:
            ctx.count((r["op"], r["args"], r["traverse"], r["kinds"], r["variant"]), bool(r["found"]))
        for rid, clauses in rej.items():
            r = byid[rid]
            cl = clauses[0].strip('{} "').split('"')[0].split(",")[0] or "Rejected"
            case = cases[rid.split("-")[0]]
            obs = dict(r["obs"], msg=r["msg"])
            ctx.violation(classify(case, r["kinds"], r["op"], cl, obs),
                          "TLC rejects a recorded dask.%s call (%s) on %s, kinds %s%s" % (r["op"], clauses[0], ", ".join(show(a) for a in r["args"]),
                                                                                         "/".join(r["kinds"]),
                                                                                         (" - %s: %s" % (obs["raised"], r["msg"][:100])) if obs["raised"] else ""),
                          {"kind": "rec", "record": r, "clauses": clauses})
    if recs:
        ctx.sample({"recorded_call": recs[0]["op"], "args": [show(a) for a in recs[0]["args"]], "kinds": recs[0]["kinds"],
                    "returned": [show(a) for a in recs[0]["obs"]["res"]]})
    ctx.extra["calls_recorded"] = ctx.extra.get("calls_recorded", 0) + len(recs)
    return len(ctx.violations) - before


def run(ctx):
    rng = ctx.rng
    thorough = not ctx.quick
    cases = []
    for consts in ctx.pick([{"RootW": 3, "SibW": 1, "Deep": False}],
                           [{"RootW": 3, "SibW": 2, "Deep": False}, {"RootW": 3, "SibW": 0, "Deep": True}]):
        cases += enumerate_cases(ctx, consts)
    cap = ctx.pick(1500, 30000)
    sampled = len(cases) > cap
    if sampled:
        # keep every flat argument tuple (the orderings of the collections), sample the nested ones
        flat = [c for c in cases if all(a["k"] in ("coll", "plain", "pstr") for a in c["args"])]
        rest = [c for c in cases if not all(a["k"] in ("coll", "plain", "pstr") for a in c["args"])]
        cases = flat + rng.sample(rest, max(0, cap - len(flat)))
    replay_cases(ctx, cases, rng, frame_share=ctx.pick(0.15, 0.3), thorough=thorough)
    todo = []
    for _ in range(ctx.pick(250, 3000)):
        case, kinds = random_case(rng, frames=rng.random() < ctx.pick(0.2, 0.35))
        todo.append((case, kinds, "threads" if rng.random() < 0.2 else "sync", rng.random() < 0.8))
    record_cases(ctx, todo)
    ctx.exhaustive = not sampled
    ctx.rule = ("a case = one call of dask.compute / persist / optimize on one argument tuple (TLC-enumerated or seeded random) x kind "
                "assignment x scheduler x optimize_graph; non-trivial = at least one collection is found; distinct by all of these")
    ctx.assumptions = ["the three collections of a case have pairwise different values (fingerprints identify positions)",
                       "only Delayed objects are hashable (set members / dict keys)", "dask.dataframe through the pyarrow shim"]


def replay(ctx, obj):
    c = obj["case"]
    if c["kind"] == "mc":
        case, kinds, (sched, og), op = c["case"], c["kinds"], c["variant"], c["op"]
        obs = run_case(case, kinds, sched, og, ops=(op,))[op]
        cl = judge(case["compute"] if op == "compute" else case["persist"], obs, env_for(kinds).mds)
        print("dask.%s(%s, traverse=%s) kinds=%s\nexpected: %s\nobserved: %s %s\nclause: %s"
              % (op, ", ".join(show(a) for a in case["args"]), case["traverse"], kinds,
                 [show(a) for a in (case["compute"] if op == "compute" else case["persist"])], [show(a) for a in obs["res"]], obs["raised"] + " " + obs["msg"], cl))
        return cl is not None
    r = c["record"]
    case = {"args": r["args"], "traverse": r["traverse"], "found": r["found"]}
    recs = [x for x in _record((0, case, r["kinds"], r["variant"][0], r["variant"][1])) if x["op"] == r["op"]]
    spec, cfg = ctx.model(ctx.spec("graph", "CollectionsTrace.tla"), {})
    rej = ctx.tlc_validate(spec, [{k: x[k] for k in ("id", "op", "args", "traverse", "colls", "obs")} for x in recs], cfg)
    print("dask.%s(%s) kinds=%s\nobserved: %s %s\nrejected: %s" % (r["op"], ", ".join(show(a) for a in r["args"]), r["kinds"],
                                                                 [show(a) for a in recs[0]["obs"]["res"]], recs[0]["obs"]["raised"], rej))
    return bool(rej)


def selftest(ctx):
    import copy
    import glob
    import os
    import sys

    import dask.base  # noqa: F401
    from ..mutate import source_mutant
    B = sys.modules["dask.base"]
    ok = True
    rdir = os.path.join(os.path.dirname(os.path.dirname(os.path.dirname(os.path.abspath(__file__)))), "replays")
    before = set(glob.glob(os.path.join(rdir, "C14-*.json")))
    cases = enumerate_cases(ctx, {"RootW": 2, "SibW": 1, "Deep": False})
    cases = random.Random(3).sample(cases, min(len(cases), 320))
    rnd = random.Random(4)
    todo = []
    for _ in range(40):
        case, kinds = random_case(rnd, frames=False)
        todo.append((case, kinds, "sync", True))

    def attempt(name, with_records=False):
        n = replay_cases(ctx, cases, random.Random(5), frame_share=0.0)
        if with_records:
            n += record_cases(ctx, todo)
        sigs = sorted({s for s, _, _ in ctx.violations})
        del ctx.violations[:]
        ctx.viol_count.clear()
        print("mutant %s: %s (%d violations; e.g. %s)" % (name, "DETECTED" if n else "MISSED", n, sigs[:2]))
        return n > 0

    n = replay_cases(ctx, cases, random.Random(5), frame_share=0.0) + record_cases(ctx, todo)
    print("unchanged dask on the self-test case set (%d cases x 3 calls + %d recorded): %d violations outside the known findings %s"
          % (len(cases), len(todo) * 3, n, sorted(ctx.known_hit)))
    ok &= n == 0
    # mutant 1: collections used as dict keys are not replaced
    with source_mutant(B, "unpack_collections", "Dict({_unpack(k): _unpack(v) for k, v in expr.items()})",
                       "Dict({k: _unpack(v) for k, v in expr.items()})"):
        ok &= attempt("dict-keys-not-unpacked")
    # mutant 2: traverse=False is ignored (nested collections are computed although the caller said not to look)
    with source_mutant(B, "unpack_collections", "        if not traverse:\n            tsk = DataNode(None, expr)\n        else:",
                       "        if False:\n            tsk = DataNode(None, expr)\n        else:"):
        ok &= attempt("traverse-flag-ignored")
    # mutant 3: namedtuples are rebuilt with their fields reversed
    with source_mutant(B, "unpack_collections", "tsk = Task(tok, typ, *[_unpack(i) for i in expr])",
                       "tsk = Task(tok, typ, *[_unpack(i) for i in reversed(expr)])"):
        ok &= attempt("namedtuple-fields-reversed", with_records=True)
    # mutant 4: persist pairs keys and results the wrong way round
    import dask
    orig_persist = dask.persist
    with source_mutant(B, "persist", "d = dict(zip(keys, results))", "d = dict(zip(keys, reversed(list(results))))") as mutated:
        dask.persist = mutated                     # dask.persist is bound at import time
        try:
            ok &= attempt("persist-results-reversed")
        finally:
            dask.persist = orig_persist
    # mutant 4b: a rebuilt Delayed forgets its declared length (len() and tuple unpacking are lost by persist / optimize)
    import dask.delayed  # noqa: F401
    DD = sys.modules["dask.delayed"]
    orig_rebuild = DD.Delayed._rebuild

    def rebuild_without_length(self, dsk, *, rename=None):
        out = orig_rebuild(self, dsk, rename=rename)
        return DD.Delayed(out.key, out.dask, None, layer=out._layer)
    DD.Delayed._rebuild = rebuild_without_length
    try:
        ok &= attempt("rebuilt-delayed-loses-its-length")
    finally:
        DD.Delayed._rebuild = orig_rebuild
    # mutant 5: equal-token collections are not de-duplicated consistently (second occurrence points one slot too far)
    with source_mutant(B, "unpack_collections", "tok, getitem, TaskRef(collections_token), len(collections)\n",
                       "tok, getitem, TaskRef(collections_token), max(len(collections) - 1, 0)\n"):
        ok &= attempt("repack-index-off-by-one")
    # binding of the trace spec
    case, kinds = None, None
    while case is None or len(case["found"]) < 2 or not case["traverse"] or interleaved([kinds[c - 1] for c in case["found"]]):
        case, kinds = random_case(rnd, frames=False)
    recs = _record((0, case, kinds, "sync", True))
    base = {k: recs[0][k] for k in ("id", "op", "args", "traverse", "colls", "obs")}
    bad1 = copy.deepcopy(base)
    bad1["id"] = "swapped"
    vals = [lf for t in bad1["obs"]["res"] for lf in leaves(t) if lf["k"] == "val"]
    first = vals[0]["c"]
    other = [lf for lf in vals if lf["c"] != first][0]
    vals[0]["c"], other["c"] = other["c"], first
    bad2 = copy.deepcopy(base)
    bad2["id"] = "dropped"
    bad2["obs"]["res"] = bad2["obs"]["res"][:-1]
    spec, cfg = ctx.model(ctx.spec("graph", "CollectionsTrace.tla"), {})
    rej = ctx.tlc_validate(spec, [base, bad1, bad2], cfg)
    print("untouched record: %s; two values swapped: %s; one result dropped: %s"
          % (rej.get(base["id"], "accepted"), rej.get("swapped", "accepted"), rej.get("dropped", "accepted")))
    ok &= base["id"] not in rej and "swapped" in rej and "dropped" in rej
    for f in set(glob.glob(os.path.join(rdir, "C14-*.json"))) - before:
        os.remove(f)
    return 0 if ok else 1
