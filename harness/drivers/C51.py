"""C51 - term-rewrite matching is sound and complete (dask/rewrite.py).

spec -> code: TLC enumerates (specs/graph/RewriteMC.tla) rule sets x ground terms over a small
fixed-arity signature and computes from the contract (specs/graph/Rewrite.tla: Matches(lhs, t) =
the substitutions s with Subst(lhs, s) = t) the exact multiset RuleSet.iter_matches must yield and
the set of results rewrite(strategy="top_level") may return; design invariants check the contract
itself (structural matcher = declarative set, at most one match per rule, sharpness).  Every case
is built as a real RuleSet and compared with the expectation - where the expected answer is unique
(the multiset of matches) by equality, the rewrite result by membership.
code -> spec: seeded random rule sets (up to 5 rules, repeated variables, shared prefixes) and
deeper terms over a larger signature are run through the real RuleSet, each call is recorded and
TLC decides every record against the contract (RewriteTrace.tla).
specs/graph/RewriteImpl.tla is a transcription of the discrimination-net walk (_match: Traverser
stack, backtracking stack, restore_state_flag; _process_match) that TLC checks against the contract
on a sample of the same space; the order in which the real iter_matches yields is compared with the
transcription's (reported).  A Python brute-force matcher is only the reference guard of the TLA+
expectation."""
from __future__ import annotations

import json

from ..core import TLA, MachineryError
from ..par import pmap

META = {
    "title": "Term-rewrite matching is sound and complete",
    "design_ref": "DESIGN.md §4.2 C51",
    "technique": "TLA+ contract of RuleSet.iter_matches / top-level rewrite (substitution semantics); TLC enumerates rule sets x "
                 "terms and computes the expected matches; replay into the real RuleSet plus TLC validation of recorded calls on "
                 "random larger rule sets; a TLA+ transcription of the discrimination-net walk is model-checked against the contract",
    "level_text": "Bounded: terms over the fixed-arity signature {f/1, g/2, list/2; a, b; x, y}; all single rules with lhs depth "
                  "<= 2, all pairs and triples of rules with lhs depth <= 1, each x all ground terms of depth <= 2 - enumerated by TLC "
                  "(stride-sampled in the quick tier, see enumeration_plan in the evidence) with the expected multiset of matches and "
                  "the allowed rewrite results; the real RuleSet is compared on every case. Random rule sets (<= 5 rules, depth <= 3, "
                  "signature with a ternary symbol) are recorded and decided by TLC.",
    "level_note": "Trusted: TLC, the term encoding (checked by a Python brute-force matcher on every case; a disagreement is a "
                  "machinery error). Domain: fixed arities, constants disjoint from variables, lists of one fixed length; heads used "
                  "at several arities (where dask's arity-blind discrimination net mis-binds, as its own docstring shows) are outside "
                  "the stated property and only reported. The bottom-up strategy and callable right-hand sides are not decided.",
}

# --------------------------------------------------------------------------- term encoding
def f(*a):
    return ("f",) + a


def g(*a):
    return ("g",) + a


def k3(*a):
    return ("k",) + a


def h(*a):
    return ("h",) + a


FUNS = {"f": f, "g": g, "k": k3, "h": h}
NAMES = {v: k for k, v in FUNS.items()}
SIG_SMALL = {"f": 1, "g": 2, "l": 2}
SIG_BIG = {"f": 1, "g": 2, "k": 3, "l": 2}


def to_py(t):
    """spec term (list whose first element is a string) -> dask term"""
    hd = t[0]
    if len(t) == 1 and hd not in FUNS and hd != "l":
        return hd
    if hd == "l":
        return [to_py(x) for x in t[1:]]
    return (FUNS[hd],) + tuple(to_py(x) for x in t[1:])


def from_py(o):
    if isinstance(o, str):
        return [o]
    if isinstance(o, list):
        return ["l"] + [from_py(x) for x in o]
    if isinstance(o, tuple) and o and o[0] in NAMES:
        return [NAMES[o[0]]] + [from_py(x) for x in o[1:]]
    return ["?"]


def vars_of(t, variables):
    if len(t) == 1:
        return {t[0]} if t[0] in variables else set()
    out = set()
    for x in t[1:]:
        out |= vars_of(x, variables)
    return out


# --------------------------------------------------------------------------- reference guard (Python)
def ref_match(p, t, variables, s):
    if len(p) == 1 and p[0] in variables:
        if p[0] in s:
            return s if s[p[0]] == t else None
        s = dict(s)
        s[p[0]] = t
        return s
    if p[0] != t[0] or len(p) != len(t):
        return None
    for a, b in zip(p[1:], t[1:]):
        s = ref_match(a, b, variables, s)
        if s is None:
            return None
    return s


def ref_subst(t, s):
    if len(t) == 1:
        return s.get(t[0], t)
    return [t[0]] + [ref_subst(x, s) for x in t[1:]]


def canon(matches):
    """multiset of (rule index, substitution) in a comparable form"""
    return sorted((i, json.dumps(sorted(s.items()))) for i, s in matches)


# --------------------------------------------------------------------------- the real thing
def observe(rules, term, variables):
    """Build the real RuleSet, run iter_matches and rewrite(top_level).  rules: [[lhs, rhs], ...] spec terms."""
    import dask.rewrite as dr           # looked up at call time (self-test mutants)
    obs = {}
    try:
        rs = dr.RuleSet(*[dr.RewriteRule(to_py(l), to_py(r), tuple(sorted(variables))) for l, r in rules])
    except Exception as ex:  # noqa: BLE001
        return {"mres": "raised", "rres": "raised", "yielded": [], "result": ["?"], "exc": "build:" + type(ex).__name__}
    pyterm = to_py(term)
    try:
        ys = []
        for rule, sd in rs.iter_matches(pyterm):
            idx = [j for j, r0 in enumerate(rs.rules) if r0 is rule]
            ys.append([idx[0] + 1 if idx else 0, sorted([str(v), from_py(x)] for v, x in sd.items())])
        obs.update(mres="ok", yielded=ys)
    except Exception as ex:  # noqa: BLE001
        obs.update(mres="raised", yielded=[], exc=type(ex).__name__ + ": " + str(ex)[:60])
    try:
        out = rs.rewrite(to_py(term), strategy="top_level")
        obs.update(rres="ok", result=from_py(out))
    except Exception as ex:  # noqa: BLE001
        obs.update(rres="raised", result=["?"], exc=type(ex).__name__ + ": " + str(ex)[:60])
    return obs


def classify(rules, term, clause):
    """input class: number of rules, whether some lhs repeats a variable, whether two lhs share their head"""
    def occurrences(t, acc):
        if len(t) == 1:
            acc.append(t[0])
        for x in t[1:]:
            occurrences(x, acc)
        return acc
    rep = any(len([v for v in occurrences(l, []) if v in ("x", "y", "z")]) >
              len({v for v in occurrences(l, []) if v in ("x", "y", "z")}) for l, _ in rules)
    heads = [l[0] for l, _ in rules]
    return "%s:%s%s%s" % (clause, "1rule" if len(rules) == 1 else "multi-rule",
                          ":repeated-var" if rep else "", ":shared-head" if len(set(heads)) < len(heads) else "")


def judge_case(case, exp, obs):
    """spec -> code comparison of one enumerated case.  Returns clause or None."""
    if obs["mres"] != "ok":
        return "IterMatchesRaised"
    want = canon((m["i"], {k: json.dumps(v) for k, v in (m["s"] if isinstance(m["s"], dict) else {}).items()}) for m in exp["matches"])
    got = canon((i, {v: json.dumps(t) for v, t in s}) for i, s in obs["yielded"])
    if got != want:
        gs, ws = set(got), set(want)
        if gs - ws:
            return "Sound"
        if ws - gs:
            return "Complete"
        return "NoDuplicates"
    if obs["rres"] != "ok":
        return "RewriteRaised"
    if obs["result"] not in exp["outs"]:
        return "Rewrite"
    return None


def _work(item):
    case, exp = item
    variables = {"x", "y"}
    # reference guard of the TLA+ expectation
    ref = []
    for i, (l, _r) in enumerate(case["rules"], 1):
        s = ref_match(l, case["term"], variables, {})
        if s is not None:
            ref.append((i, {k: json.dumps(v) for k, v in s.items()}))
    want = canon((m["i"], {k: json.dumps(v) for k, v in (m["s"] if isinstance(m["s"], dict) else {}).items()}) for m in exp["matches"])
    if canon(ref) != want:
        return ("GUARD", ref)
    refouts = [ref_subst(case["rules"][i - 1][1], {k: json.loads(v) for k, v in s.items()}) for i, s in ref] or [case["term"]]
    if sorted(map(json.dumps, refouts)) != sorted(map(json.dumps, exp["outs"])):
        return ("GUARD", refouts)
    obs = observe(case["rules"], case["term"], variables)
    return (judge_case(case, exp, obs), obs)


def norm_case(c):
    return {"rules": [[r["lhs"], r["rhs"]] for r in c["rules"]], "term": c["term"]}


# --------------------------------------------------------------------------- random larger cases
def rand_term(rng, sig, leaves, depth):
    if depth == 0 or rng.random() < 0.25:
        return [rng.choice(leaves)]
    hd = rng.choice(sorted(sig))
    return [hd] + [rand_term(rng, sig, leaves, depth - 1) for _ in range(sig[hd])]


def random_records(ctx, count):
    rng = ctx.rng
    consts, variables = ["a", "b", "c"], ["x", "y", "z"]
    cases = []
    for _ in range(count):
        nr = rng.randint(1, 5)
        rules = []
        for i in range(nr):
            if rules and rng.random() < 0.4:
                # share a prefix with an earlier rule: copy it and change one leaf
                lhs = json.loads(json.dumps(rules[rng.randrange(len(rules))][0]))
                node = lhs
                while len(node) > 1:
                    j = rng.randrange(1, len(node))
                    if len(node[j]) == 1:
                        node[j] = [rng.choice(consts + variables)]
                        break
                    node = node[j]
            else:
                lhs = rand_term(rng, SIG_BIG, consts + variables + variables, rng.randint(1, 3))
            vs = sorted(vars_of(lhs, set(variables)))
            rules.append([lhs, ["h", ["r%d" % (i + 1)]] + [[v] for v in vs]])
        if rng.random() < 0.7:
            # an instance of one of the left-hand sides (so that matches occur)
            lhs = rng.choice(rules)[0]
            s = {v: rand_term(rng, SIG_BIG, consts, rng.randint(0, 2)) for v in variables}
            term = ref_subst(lhs, s)
            if rng.random() < 0.3:
                term = rand_term(rng, SIG_BIG, consts, 1) if len(term) == 1 else term[:1] + [rand_term(rng, SIG_BIG, consts, 1)] + term[2:]
        else:
            term = rand_term(rng, SIG_BIG, consts, rng.randint(1, 4))
        cases.append({"rules": rules, "term": term})
    return cases


def _record(item):
    i, case = item
    obs = observe(case["rules"], case["term"], {"x", "y", "z"})
    rec = {"id": "r%d" % i, "rules": case["rules"], "term": case["term"]}
    rec.update({k: obs[k] for k in ("mres", "yielded", "rres", "result")})
    if "exc" in obs:
        rec["exc"] = obs["exc"]
    return rec


def clause_names(texts):
    out = set()
    for t in texts:
        for part in t.strip("{} ").split(","):
            part = part.strip().strip('"')
            if part:
                out.add(part)
    return sorted(out)


TRACE_CONSTS = {"Sig": TLA('[f |-> 1, g |-> 2, k |-> 3, l |-> 2]'), "Consts": TLA('{"a", "b", "c", "r1", "r2", "r3", "r4", "r5"}'),
                "Vars": TLA('{"x", "y", "z"}')}


def judge_records(ctx, recs):
    spec, cfg = ctx.model(ctx.spec("graph", "RewriteTrace.tla"), TRACE_CONSTS)
    slim = [{k: r[k] for k in ("id", "rules", "term", "mres", "yielded", "rres", "result")} for r in recs]
    rej = ctx.tlc_validate(spec, slim, cfg, timeout=1800)
    byid = {r["id"]: r for r in recs}
    return [(byid[rid], clause_names(t)) for rid, t in rej.items()]


# --------------------------------------------------------------------------- the transcription of _match
IMPL_INVS = ["ImplContract", "NoIndexError", "NoRuntimeError", "SentinelKept", "NodeInNet"]
OUT_OF_DOMAIN = ('<< [rules |-> << [lhs |-> <<"g", <<"f", <<"x">> >>, <<"y">> >>, rhs |-> <<"h">>] >>, '
                 'term |-> <<"g", <<"f", <<"a">>, <<"b">> >> >>], '
                 '[rules |-> << [lhs |-> <<"f", <<"x">>, <<"y">> >>, rhs |-> <<"h">>] >>, term |-> <<"f", <<"a">> >>], '
                 '[rules |-> << [lhs |-> <<"g", <<"l", <<"x">> >>, <<"y">> >>, rhs |-> <<"h">>] >>, '
                 'term |-> <<"g", <<"l", <<"a">>, <<"b">> >> >>] >>')


def in_domain(rules_lhs, term):
    def wf(t):
        return (len(t) == 1 and t[0] not in SIG_SMALL) or (t[0] in SIG_SMALL and len(t) == SIG_SMALL[t[0]] + 1 and all(map(wf, t[1:])))
    return wf(term) and all(wf(l) for l in rules_lhs)


def real_sequence(rules_lhs, term):
    obs = observe([[l, ["h"]] for l in rules_lhs], term, {"x", "y"})
    if obs["mres"] != "ok":
        return "indexerror" if "IndexError" in obs.get("exc", "") else "raised", []
    return "done", [[i, {v: t for v, t in s}] for i, s in obs["yielded"]]


def transcription(ctx):
    """TLC checks the transcription of the net walk (RewriteImpl) against the contract on a sample of the
    bounded space; the ORDER in which the real iter_matches yields is compared with the transcription's
    (binding of the transcription - reported, not judged: the order is not part of the property)."""
    off = lambda st: ctx.rng.randrange(st)
    s1, s2, s3 = ctx.pick((509, 251, 16381), (61, 31, 2039))          # prime strides
    jobs = [{"k": 1, "pool": 2, "stride": s1, "offset": off(s1)},
            {"k": 2, "pool": 1, "stride": s2, "offset": off(s2)},
            {"k": 3, "pool": 1, "stride": s3, "offset": off(s3)}]
    spec, cfg = ctx.model(ctx.spec("graph", "RewriteImplMC.tla"), dict(MC_CONSTS, Jobs=jobs, TDepth=2, Explicit=TLA(OUT_OF_DOMAIN)),
                          invariants=IMPL_INVS)
    cases, _ = ctx.tlc_cases(spec, cfg, label="transcription of _match => contract", timeout=3000)
    same = differ = 0
    examples, ood_rows = [], []
    for c in cases:
        pc, ys = real_sequence(c["rules"], c["term"])
        want = [[y["i"], y["s"] if isinstance(y["s"], dict) else {}] for y in c["ys"]]
        agree = pc == c["pc"] and ys == want
        if not in_domain(c["rules"], c["term"]):
            # a head at two arities: does the transcription predict what dask does?  (reported, not judged)
            ood_rows.append({"rules": c["rules"], "term": c["term"], "transcription": [c["pc"], want], "real": [pc, ys], "agree": agree})
        elif agree:
            same += 1
        else:
            differ += 1
            if len(examples) < 3:
                examples.append({"rules": c["rules"], "term": c["term"], "transcription": [c["pc"], want], "real": [pc, ys]})
    if len(ood_rows) != 3:
        raise MachineryError("the out-of-domain probes were not exported by the transcription run")
    ctx.extra["transcription_of__match"] = {
        "calls": len(cases) - len(ood_rows), "real_yield_sequence_equals_transcription": same, "differs": differ, "examples_differ": examples,
        "out_of_domain_mixed_arity (reported, not judged)": ood_rows}


# --------------------------------------------------------------------------- entry points
INVS = ["WellFormed", "MatcherAgrees", "AtMostOne", "SelfMatch", "ContractSharp"]
MC_CONSTS = {"Sig": TLA('[f |-> 1, g |-> 2, l |-> 2]'), "Consts": TLA('{"a", "b"}'), "Vars": TLA('{"x", "y"}')}


def plan_for(ctx):
    off = lambda st: ctx.rng.randrange(st)
    mk = lambda k, pool, st: {"k": k, "pool": pool, "stride": st, "offset": off(st)}
    if ctx.quick:
        return [mk(1, 1, 3), mk(1, 2, 257), mk(2, 1, 97), mk(3, 1, 8191)]      # odd / prime strides: no alignment with the radices
    return [mk(1, 1, 1), mk(1, 2, 7), mk(2, 1, 5), mk(3, 1, 257)]


def enumerated(ctx, jobs):
    spec, cfg = ctx.model(ctx.spec("graph", "RewriteMC.tla"), dict(MC_CONSTS, Jobs=jobs, TDepth=2), invariants=INVS)
    cases, _ = ctx.tlc_cases(spec, cfg, label="design+cases", timeout=3000)
    return [(norm_case(c["c"]), c["e"]) for c in cases]


def run_cases(ctx, items, collect=None):
    import dask.rewrite  # noqa: F401 - import before forking
    from ..graphs import prepare_fork
    prepare_fork()
    # a case costs ~0.3 ms: below ~10^5 cases a fork pool costs more than it saves
    res = pmap(_work, items, chunk=256, procs=None if len(items) > 100000 else 1)
    for (case, exp), (cl, detail) in zip(items, res):
        if cl == "GUARD":
            raise MachineryError("TLA+ expectation disagrees with the Python reference matcher on %r: spec=%r ref=%r" % (case, exp, detail))
        ctx.count((case["rules"], case["term"]), bool(exp["matches"]))
        if cl:
            sig = classify(case["rules"], case["term"], cl)
            if collect is not None:
                collect[sig] = collect.get(sig, 0) + 1
            else:
                ctx.violation(sig, "%s: RuleSet disagrees with the contract" % cl, {"case": case, "expected": exp, "observed": detail})


def run(ctx):
    jobs = plan_for(ctx)
    total = 0
    transcription(ctx)
    for group in ([jobs] if ctx.quick else [[j] for j in jobs]):    # thorough: one TLC run per job (bounded memory)
        items = enumerated(ctx, group)
        total += len(items)
        run_cases(ctx, items)
        mid = items[len(items) // 2]
        ctx.sample({"rules": [r[0] for r in mid[0]["rules"]], "term": mid[0]["term"], "expected_matches": mid[1]["matches"]})
        del items
    recs = [_record(x) for x in enumerate(random_records(ctx, ctx.pick(3000, 30000)))]
    for lo in range(0, len(recs), 20000):
        part = recs[lo:lo + 20000]
        for r in part:
            ctx.count(("rec", r["rules"], r["term"]), bool(r["yielded"]))
        for r, clauses in judge_records(ctx, part):
            ctx.violation(classify(r["rules"], r["term"], "+".join(clauses)), "TLC rejects a recorded RuleSet call (%s)" % clauses,
                          {"record": {k: v for k, v in r.items() if k != "id"}, "clauses": clauses})
    ctx.extra["cases_enumerated_by_tlc"] = total
    ctx.extra["enumeration_plan"] = [{"rules_per_set": j["k"], "lhs_depth<=": j["pool"], "terms": "all ground, depth<=2",
                                      "stride": j["stride"]} for j in jobs]
    ctx.exhaustive = all(j["stride"] == 1 for j in jobs)
    ctx.rule = ("cases = (rule set, ground term) enumerated by TLC with the expected multiset of matches, plus recorded random rule "
                "sets; non-trivial = at least one rule matches; distinct by (rule set, term)")
    ctx.assumptions = ["TLC evaluates the contract correctly", "fixed arities; constants disjoint from variables",
                       "the structural matcher equals the declarative Matches beyond the bounded space too (checked by TLC inside it)"]


def replay(ctx, obj):
    c = obj["case"]
    if "record" in c:
        r = c["record"]
        rec = _record((0, {"rules": r["rules"], "term": r["term"]}))
        bad = judge_records(ctx, [rec])
        print("rules:", r["rules"], "\nterm:", r["term"], "\nobserved:", {k: rec[k] for k in ("mres", "yielded", "rres", "result")})
        print("rejected:", [cl for _, cl in bad])
        return bool(bad)
    obs = observe(c["case"]["rules"], c["case"]["term"], {"x", "y"})
    cl = judge_case(c["case"], c["expected"], obs)
    print("case:", c["case"], "\nexpected:", c["expected"], "\nobserved:", obs, "\nclause:", cl)
    return cl is not None


def selftest(ctx):
    import dask.rewrite as dr
    from ..srcmut import mutant
    ok = True
    items = enumerated(ctx, [{"k": 1, "pool": 2, "stride": 401, "offset": 5}, {"k": 2, "pool": 1, "stride": 251, "offset": 7}])
    base = {}
    run_cases(ctx, items, base)
    print("selftest C51: unchanged tree -> %s (known: %s)" % (sorted(base), sorted(ctx.known)))
    if set(base) - set(ctx.known):
        print("selftest C51: FAIL unchanged tree is rejected")
        ok = False
    mutants = [
        ("repeated variables are not compared (dropped consistency branch in _process_match)", "_process_match",
         "        if v in subs and subs[v] != s:\n            return None\n        else:\n            subs[v] = s",
         "        subs[v] = s"),
        ("no backtracking to the variable edge after a constant edge was followed (dropped stack push)", "_match",
         "                stack.append((S.copy(), N, matches))\n", "                pass\n"),
        ("a variable edge is taken without skipping the matched sub-term (next for skip)", "_match",
         "            S.skip()\n            N = n", "            S.next()\n            N = n"),
    ]
    for what, name, old, new in mutants:
        got = {}
        with mutant(dr, name, old, new):
            run_cases(ctx, items, got)
        new_sigs = {s: c for s, c in got.items() if c > base.get(s, 0)}
        det = bool(new_sigs)
        print("selftest C51: mutant [%s] -> %s %s" % (what, "DETECTED" if det else "MISSED", sorted(new_sigs.items())[:4]))
        ok = ok and det
    # (ii) corrupted records
    rules = [[["g", ["x"], ["x"]], ["h", ["r1"], ["x"]]], [["g", ["x"], ["y"]], ["h", ["r2"], ["x"], ["y"]]]]
    term = ["g", ["a"], ["a"]]
    good = _record((0, {"rules": rules, "term": term}))
    good["id"] = "good"
    recs = [good,
            dict(good, id="dropped", yielded=good["yielded"][:1]),
            dict(good, id="wrongsub", yielded=[[y[0], [[v, ["b"]] for v, _t in y[1]]] for y in good["yielded"]]),
            dict(good, id="dup", yielded=good["yielded"] + good["yielded"][:1]),
            dict(good, id="norewrite", result=term),
            dict(good, id="raised", mres="raised", yielded=[])]
    bad = {r["id"]: cl for r, cl in judge_records(ctx, recs)}
    want = {"dropped": "Complete", "wrongsub": "Sound", "dup": "NoDuplicates", "norewrite": "Rewrite", "raised": "IterMatchesRaised"}
    for rid, cl in want.items():
        hit = cl in bad.get(rid, [])
        print("selftest C51: corrupted record [%s] -> %s %s" % (rid, "REJECTED" if hit else "ACCEPTED", bad.get(rid)))
        ok = ok and hit
    if "good" in bad or len(good["yielded"]) != 2:
        print("selftest C51: FAIL the uncorrupted record is rejected / not as expected: %s %s" % (bad.get("good"), good["yielded"]))
        ok = False
    print("selftest C51: %s" % ("all binding demonstrations hold" if ok else "FAILED"))
    return 0 if ok else 1
