"""C15 - delayed programs evaluate like the eager Python program.

spec -> code: TLC grows programs node by node (specs/graph/DelayedProgMC.tla): constants wrapped in
dask.delayed or plain (every choice), Python containers holding Delayed objects (list, tuple, set,
dict incl. Delayed keys, slice, dataclass, namedtuple), calls of uninterpreted functions with
positional / keyword arguments, item and attribute access, method calls, operators, nout unpacking;
shared sub-expressions are shared objects.  Every exported program carries the value of every node
(reference semantics DelayedProg.tla) and the key classes demanded by the purity registry; it is
built with dask.delayed, computed, and compared.  Eager Python is only the reference guard.
code -> spec: larger seeded random programs with per-call pure flags, dask_key_name, pure given at
definition or at call time, are recorded (value, keys) and TLC decides every record
(DelayedProgTrace.tla: it evaluates the program itself)."""
from __future__ import annotations

import dataclasses
import json
import operator
import random
from collections import namedtuple

from ..core import TLA, MachineryError
from ..herbrand import Fn, Term
from ..par import pmap

META = {
    "title": "Delayed programs evaluate like the eager Python program",
    "design_ref": "DESIGN.md §4.2 C15",
    "technique": "TLA+ reference semantics of a small expression language (values, Eval, purity/key registry); TLC enumerates programs "
                 "(DAGs with shared sub-expressions) x which objects are wrapped in dask.delayed; replay into dask.delayed + TLC "
                 "validation of recorded programs",
    "level_text": "TLC enumerates (a) exhaustively the pure-key universe: every unordered pair of pure calls (all positional / keyword "
                  "shapes over a Delayed and a second leaf: same value under two keyword names, positional vs keyword, swapped keyword "
                  "values, Delayed-valued keywords, different argument counts, nout, dask_key_name) and every pair of containers wrapped "
                  "with pure=True, both consumed by one call; (b) every 1-operation program over all leaf sets (prefixes of 1, 2, 0 and a "
                  "string, each wrapped or plain) and a hash-sampled (seeded, reproducible) part of the 2- and 3-operation programs "
                  "(thorough: every program of <= 2 operations over <= 2 leaves, sampled 3- and 4-operation programs) from value-directed "
                  "menus: calls with positional/keyword arguments, nout, dask_key_name, containers of 7 kinds holding Delayed objects "
                  "(plain, wrapped, wrapped with pure=True), item/attribute access, method calls, operators incl. reflected ones. Design "
                  "invariants (IdentSound: equal key identity => equal value; BuildFree; NoutLen) are checked on every state. Each program "
                  "is built with dask.delayed, ALL its Delayed nodes are computed in one dask.compute, and every node's value and the key "
                  "classes of all nodes are compared with the specification (same term <=> same key; each call returns its own value). "
                  "Random programs of 4-9 operations with mixed pure flags and near-copies of earlier pure calls are recorded and decided by TLC.",
    "level_note": "Trusted: TLC, the reference semantics (cross-checked against eager Python on every case: a disagreement is a machinery "
                  "error), the value normaliser. Not covered: iterators as arguments, traverse=False, delayed_pure config, Delayed "
                  "callables (Delayed.__call__ on a value), errors other than none (menus are value-directed: programs without Python "
                  "errors), sets/dict keys holding two distinct Delayed objects with one key (Python cannot compare them).",
}


# --------------------------------------------------------------------------- the value class / functions of the programs
@dataclasses.dataclass(frozen=True)
class Pt:
    x: object
    y: object

    def tag(self, *a, **kw):
        return Term("tag", (self,) + a, tuple(sorted(kw.items())))


NT = namedtuple("NT", ["a", "b"])


def tupf(*args):
    return tuple(args)


FUNCS = {"f1": Fn("f1"), "f2": Fn("f2"), "tup": tupf}
BINOPS = {"add": operator.add, "sub": operator.sub, "mul": operator.mul, "floordiv": operator.floordiv, "lt": operator.lt}
UNOPS = {"neg": operator.neg, "invert": operator.invert}


# --------------------------------------------------------------------------- values <-> tagged JSON (DelayedProg.tla)
def to_py(v):
    t = v["t"]
    if t == "int":
        return v["v"]
    if t == "str":
        return v["s"]
    if t == "none":
        return None
    if t == "bool":
        return v["b"]
    if t == "list":
        return [to_py(x) for x in v["xs"]]
    if t == "tuple":
        return tuple(to_py(x) for x in v["xs"])
    raise ValueError(v)


def _sk(j):
    return json.dumps(j, sort_keys=True)


def norm(v):
    """Python value -> canonical tagged JSON.  Total: unknown objects become t="other"."""
    if isinstance(v, bool):
        return {"t": "bool", "b": v}
    if isinstance(v, int):
        return {"t": "int", "v": v} if abs(v) < 2 ** 30 else {"t": "other", "s": repr(v)}
    if isinstance(v, str):
        return {"t": "str", "s": v}
    if v is None:
        return {"t": "none"}
    if isinstance(v, Term):
        return {"t": "app", "fn": v.f, "ar": [norm(x) for x in v.a], "kn": [k for k, _ in v.kw], "kv": [norm(x) for _, x in v.kw]}
    if type(v) is Pt:
        return {"t": "obj", "of": [norm(v.x), norm(v.y)]}
    if type(v) is NT:
        return {"t": "nt", "nf": [norm(v.a), norm(v.b)]}
    if type(v) is list:
        return {"t": "list", "xs": [norm(x) for x in v]}
    if type(v) is tuple:
        return {"t": "tuple", "xs": [norm(x) for x in v]}
    if type(v) in (set, frozenset):
        return {"t": "set", "els": sorted((norm(x) for x in v), key=_sk)}
    if type(v) is dict:
        return {"t": "dict", "kvs": sorted(([norm(k), norm(x)] for k, x in v.items()), key=_sk)}
    if type(v) is slice:
        return {"t": "slice", "sa": norm(v.start), "sb": norm(v.stop), "sc": norm(v.step)}
    return {"t": "other", "s": "%s:%s" % (type(v).__name__, repr(v)[:80])}


def canon(j):
    """Canonical form of an exported value (TLC emits sets in its own order)."""
    if isinstance(j, dict):
        t = j.get("t")
        if t == "set":
            return {"t": "set", "els": sorted((canon(x) for x in j["els"]), key=_sk)}
        if t == "dict":
            return {"t": "dict", "kvs": sorted(([canon(k), canon(x)] for k, x in j["kvs"]), key=_sk)}
        return {k: canon(x) for k, x in j.items()}
    if isinstance(j, list):
        return [canon(x) for x in j]
    return j


# --------------------------------------------------------------------------- building a program
def make_cont(kind, xs, kw):
    if kind == "list":
        return list(xs)
    if kind == "tuple":
        return tuple(xs)
    if kind == "set":
        return set(xs)
    if kind == "dict":
        return dict(kw)
    if kind == "dictk":
        return {xs[0]: xs[1]}
    if kind == "slice":
        return slice(xs[0], xs[1])
    if kind == "slice_to":
        return slice(None, xs[0])
    if kind == "obj":
        return Pt(xs[0], xs[1])
    if kind == "nt":
        return NT(xs[0], xs[1])
    raise ValueError(kind)


def build(prog, lazy, purestyle="def"):
    """Python objects of all nodes.  lazy=False: the eager program (no dask at all).
    Returns (objs, nout_ok) - nout_ok[i]: len()/iteration of an nout call agreed with nout."""
    if lazy:
        from dask import delayed
    objs, nout_ok = [], []
    fcache = {}
    for nd in prog:
        op, nm = nd["op"], nd["nm"]
        xs = [objs[j - 1] for j in nd["xs"]]
        kw = {k: objs[j - 1] for k, j in zip(nd["kn"], nd["kx"])}
        ok = True
        if op == "const":
            o = to_py(nd["v"])
            if lazy and nd["w"]:
                o = delayed(o, pure=True) if nd["pure"] else delayed(o)
        elif op == "cont":
            o = make_cont(nm, xs, kw)
            if lazy and nd["w"]:
                o = delayed(o, pure=True) if nd["pure"] else delayed(o)
        elif op == "call":
            f = FUNCS[nm]
            if not lazy:
                o = f(*xs, **kw)
            else:
                nout = nd["i"] or None
                extra = {}
                if purestyle == "def":
                    ck = (nm, nd["pure"], nout)
                    if ck not in fcache:
                        fcache[ck] = delayed(f, pure=nd["pure"], nout=nout)
                else:                       # pure given at call time, one delayed function per label
                    ck = (nm, None, nout)
                    if ck not in fcache:
                        fcache[ck] = delayed(f, nout=nout)
                    extra["pure"] = nd["pure"]
                if nd["dkn"]:
                    extra["dask_key_name"] = nd["dkn"]
                o = fcache[ck](*xs, **kw, **extra)
                if nout is not None:
                    ok = len(o) == nout and len(list(o)) == nout
        elif op == "getitem":
            o = xs[0][xs[1]]
        elif op == "getattr":
            o = getattr(xs[0], nm)
        elif op == "meth":
            extra = {}
            if lazy:
                if nd["pure"]:
                    extra["pure"] = True
                if nd["dkn"]:
                    extra["dask_key_name"] = nd["dkn"]
            o = getattr(xs[0], nm)(*xs[1:], **kw, **extra)
        elif op == "bin":
            o = BINOPS[nm](xs[0], xs[1])
        elif op == "un":
            o = UNOPS[nm](xs[0])
        elif op == "nout":
            o = list(xs[0])[nd["i"]]
        else:
            raise ValueError(op)
        objs.append(o)
        nout_ok.append(ok)
    return objs, nout_ok


def eager_vals(prog):
    """Reference guard: the same program run eagerly.  Returns normalised values or {"t": "err"}."""
    try:
        objs, _ = build(prog, lazy=False)
    except Exception:  # noqa: BLE001 - the eager program raised somewhere
        return None
    return [norm(o) for o in objs]


def observe(prog, variant):
    """Build with dask.delayed and compute ALL Delayed nodes in one dask.compute (nodes that share a key must
    still come back with their own value).  variant = (purestyle, scheduler, fuse); fuse: 0 = off, 1 = linear
    fusion on and only the last node computed (one output key), 2 = linear fusion on, all nodes computed."""
    import dask
    from dask.delayed import Delayed
    purestyle, sched, fuse = variant
    obs = {"raised": "", "vals": [{"t": "none"}] * len(prog), "keys": [0] * len(prog), "named": [True] * len(prog),
           "nouts": [True] * len(prog), "seen": [False] * len(prog), "msg": ""}
    fuse = int(fuse)
    try:
        objs, nout_ok = build(prog, lazy=True, purestyle=purestyle)
        seen = {}
        for i, (nd, o) in enumerate(zip(prog, objs)):
            if isinstance(o, Delayed):
                k = o.key
                obs["keys"][i] = seen.setdefault(k if isinstance(k, str) else repr(k), i + 1)
                if nd["dkn"]:
                    obs["named"][i] = (k == nd["dkn"])
            obs["nouts"][i] = bool(nout_ok[i])
        idx = [i for i, o in enumerate(objs) if isinstance(o, Delayed)]
        if fuse == 1:
            idx = idx[-1:]
        with dask.config.set({"optimization.fuse.delayed": bool(fuse)}):
            vals = dask.compute(*[objs[i] for i in idx], scheduler=sched)
        obs["vals"] = list(obs["vals"])
        for i, v in zip(idx, vals):
            obs["vals"][i] = norm(v)
            obs["seen"][i] = True
    except NotImplementedError as ex:
        obs["skip"] = "NotImplementedError: " + str(ex)[:60]
    except Exception as ex:  # noqa: BLE001 - every exception of dask is an observation
        obs["raised"] = type(ex).__name__
        obs["msg"] = str(ex)[:200]
    return obs


# --------------------------------------------------------------------------- judging (spec -> code)
def judge(case, obs):
    """Compare an observation with the export of the specification.  Returns clause or None."""
    prog, vals, cls, dl = case["prog"], case["vals"], case["cls"], case["dl"]
    if vals[-1]["t"] == "err":
        return None if obs["raised"] else "ErrorExpected"
    if obs["raised"]:
        return "UnexpectedRaise"
    if [k != 0 for k in obs["keys"]] != [bool(d) for d in dl]:
        return "Modes"
    if any(sn and canon(o) != canon(v) for sn, o, v in zip(obs["seen"], obs["vals"], vals)):
        return "Value"
    n = len(prog)
    fresh = [_fresh(prog[i]) for i in range(n)]
    for i in range(n):
        for j in range(i + 1, n):
            if dl[i] and dl[j]:
                same_obs, same_exp = obs["keys"][i] == obs["keys"][j], cls[i] == cls[j]
                if same_obs != same_exp:
                    return "FreshKeys" if (fresh[i] or fresh[j]) else "PureKeys"
    if not all(obs["named"]):
        return "KeyName"
    if not all(obs["nouts"]):
        return "Nout"
    return None


def _fresh(nd):
    if nd["op"] in ("const", "cont"):
        return not nd["pure"]
    return nd["op"] in ("call", "meth") and not nd["pure"] and not nd["dkn"]


def classify(prog, clause, variant=("def", "sync", False)):
    """Signature: the failing clause and the construct classes the program combines (no numbers).
    Input classes behind recorded known findings come first (one root cause = one signature)."""
    if int(variant[2]) == 2 and clause == "UnexpectedRaise":
        return "fuse.delayed:several-outputs"
    if variant[2] and clause == "UnexpectedRaise" and any(nd["op"] == "getattr" for nd in prog):
        return "fuse.delayed:getattr"
    names = {nd["dkn"] for nd in prog if nd["dkn"]}
    if clause in ("Value", "PureKeys") and any(nd["op"] == "const" and not nd["w"] and nd["v"].get("s") in names for nd in prog):
        return "pure-token:delayed-vs-equal-string"
    feats = set()
    last = prog[-1]
    for nd in prog:
        if nd["op"] == "cont":
            feats.add(("wrapped-" if nd["w"] else "plain-") + nd["nm"])
        if nd["op"] == "call" and nd["kn"]:
            feats.add("kwargs")
        if nd["op"] == "call" and nd["i"]:
            feats.add("nout")
        if nd["dkn"]:
            feats.add("dask_key_name")
    head = last["op"] + (":" + last["nm"] if last["op"] in ("cont", "bin", "un", "meth") else "")
    if clause in ("PureKeys", "FreshKeys", "KeyName", "Modes"):
        # key clauses: name the node kinds involved, not the containers around them
        kinds = sorted({nd["op"] + ("+pure" if nd["pure"] else "") for nd in prog if nd["op"] not in ("const",)})
        return "%s:%s" % (clause, "+".join(kinds))
    return "%s:last=%s:%s" % (clause, head, "+".join(sorted(feats)) or "flat")


def _work(item):
    case, variant = item
    ref = eager_vals(case["prog"])
    exp = [canon(v) for v in case["vals"]]
    if ref is None or [canon(v) for v in ref] != exp:
        return ("GUARD", ref, None)
    obs = observe(case["prog"], variant)
    if "skip" in obs:
        return ("SKIP", obs["skip"], None)
    cl = judge(case, obs)
    return (cl, None, obs if cl else None)


def nontrivial(prog):
    """At least one Delayed object is consumed by another node."""
    dl = [(nd["op"] not in ("const", "cont")) or nd["w"] for nd in prog]
    return any(dl[j - 1] for nd in prog for j in list(nd["xs"]) + list(nd["kx"]))


# --------------------------------------------------------------------------- random programs (code -> spec)
INT_LEAVES = [0, 1, 2, 3]


def random_program(rng, nops):
    """Seeded random program, value-directed with the EAGER evaluation as the oracle of what is
    defined.  Per-call pure flags, dask_key_name (unique names), mixed wrapping."""
    prog, vals, dl, keyid = [], [], [], []

    def node(op, nm="", v=None, xs=(), kn=(), kx=(), w=False, pure=False, dkn="", i=0):
        return {"op": op, "nm": nm, "v": v if v is not None else {"t": "none"}, "xs": list(xs), "kn": list(kn), "kx": list(kx),
                "w": bool(w), "pure": bool(pure), "dkn": dkn, "i": i}

    def push(nd):
        trial = prog + [nd]
        try:
            objs, _ = build(trial, lazy=False)
        except Exception:  # noqa: BLE001 - not defined eagerly: not offered
            return False
        v = objs[-1]
        if isinstance(v, int) and not isinstance(v, bool) and abs(v) > 60:
            return False
        if isinstance(v, (list, tuple)) and len(v) > 6:
            return False
        if len(json.dumps(norm(v))) > 1500:
            return False
        prog.append(nd)
        vals.append(v)
        dl.append(nd["op"] not in ("const", "cont") or nd["w"])
        return True

    for _ in range(rng.randint(1, 3)):
        r = rng.random()
        v = {"t": "int", "v": rng.choice(INT_LEAVES)} if r < 0.8 else {"t": "str", "s": rng.choice(["kk", "s"])}
        w = rng.random() < 0.6
        push(node("const", v=v, w=w, pure=w and rng.random() < 0.3))
    names = 0
    tries = 0
    done = 0
    while done < nops and tries < nops * 40:
        tries += 1
        m = len(prog)
        R = list(range(1, m + 1))
        pick = lambda: rng.choice(R[-4:]) if rng.random() < 0.7 else rng.choice(R)
        D = [j for j in R if dl[j - 1]]
        r = rng.random()
        keyed = [j for j in R if prog[j - 1]["pure"] and not prog[j - 1]["dkn"] and prog[j - 1]["op"] in ("call", "meth", "cont")
                 and prog[j - 1]["nm"] != "set"]
        if keyed and rng.random() < 0.15:
            # a near-copy of an earlier pure call / pure-wrapped container: the same thing again, the arguments in
            # another order, a positional argument passed by keyword (or back), another keyword name, one argument
            # replaced - the pairs the pure-key clause is about
            nd = dict(prog[rng.choice(keyed) - 1])
            nd["xs"], nd["kn"], nd["kx"] = list(nd["xs"]), list(nd["kn"]), list(nd["kx"])
            how = rng.choice(["same", "swap", "tokw", "topos", "rename", "replace"])
            first = 1 if nd["op"] == "meth" else 0                 # the receiver of a method stays
            if how == "swap" and len(nd["xs"]) - first >= 2:
                nd["xs"][first], nd["xs"][-1] = nd["xs"][-1], nd["xs"][first]
            elif how == "swap" and len(nd["kx"]) == 2:
                nd["kx"].reverse()
            elif how == "tokw" and nd["op"] != "cont" and len(nd["xs"]) > first and len(nd["kn"]) < 2:
                free = [n for n in ("j", "k") if n not in nd["kn"]]
                pairs = sorted(zip(nd["kn"] + [rng.choice(free)], nd["kx"] + [nd["xs"].pop()]))
                nd["kn"], nd["kx"] = [a for a, _ in pairs], [b for _, b in pairs]
            elif how == "topos" and nd["op"] != "cont" and nd["kn"]:
                nd["kn"].pop()
                nd["xs"].append(nd["kx"].pop())
            elif how == "rename" and nd["op"] != "cont" and len(nd["kn"]) == 1:
                nd["kn"] = ["j" if nd["kn"][0] == "k" else "k"]
            elif how == "replace" and (nd["xs"][first:] or nd["kx"]):
                if nd["xs"][first:]:
                    nd["xs"][rng.randrange(first, len(nd["xs"]))] = pick()
                else:
                    nd["kx"][rng.randrange(len(nd["kx"]))] = pick()
            if nd["op"] == "call" and nd["nm"] == "tup":
                nd["i"] = len(nd["xs"])
            if nd["op"] == "cont":
                if nd["nm"] in ("slice", "slice_to") and not all(type(vals[j - 1]) is int for j in nd["xs"]):
                    continue
                if nd["nm"] == "dictk" and type(vals[nd["xs"][0] - 1]) not in (int, str):
                    continue
            if nd["op"] == "meth" and nd["nm"] == "count":
                continue
        elif r < 0.22:
            k = rng.choice([0, 1, 1, 2, 2])
            xs = [pick() for _ in range(k)]
            kn = sorted(rng.sample(["j", "k"], rng.choice([0, 0, 0, 1, 1, 2])))
            kx = [pick() for _ in kn]
            dkn = ""
            if rng.random() < 0.12:
                names += 1
                dkn = "kk" if names == 1 else "name%d" % names
            nd = node("call", rng.choice(["f1", "f1", "f2"]), xs=xs, kn=kn, kx=kx, pure=rng.random() < 0.65, dkn=dkn)
        elif r < 0.30:
            xs = [pick() for _ in range(rng.choice([1, 2, 2]))]
            nd = node("call", "tup", xs=xs, pure=rng.random() < 0.65, i=len(xs))
        elif r < 0.62:
            kind = rng.choice(["list", "tuple", "set", "dict", "dictk", "slice", "slice_to", "obj", "nt", "list", "tuple", "dict"])
            w = rng.random() < 0.45
            wp = w and kind != "set" and rng.random() < 0.45          # delayed(obj, pure=True)
            if kind == "dict":
                k = rng.choice([1, 2])
                nd = node("cont", "dict", kn=["p", "q"][:k], kx=[pick() for _ in range(k)], w=w, pure=wp)
            else:
                k = {"slice_to": 1, "list": rng.choice([1, 2, 3]), "tuple": rng.choice([1, 2, 3]), "set": rng.choice([1, 2])}.get(kind, 2)
                xs = [pick() for _ in range(k)]
                if kind in ("slice", "slice_to") and not all(type(vals[j - 1]) is int for j in xs):
                    continue
                if kind in ("set", "dictk"):
                    hs = xs if kind == "set" else xs[:1]
                    if not all(type(vals[j - 1]) in (int, str) for j in hs):
                        continue
                    if kind == "set" and len(set(xs)) == len(xs) and len({vals[j - 1] for j in xs}) < len(xs):
                        continue        # two different nodes with equal values: may be two Delayed with one key
                nd = node("cont", kind, xs=xs, w=w, pure=wp)
        elif not D:
            continue
        else:
            a = rng.choice(D[-4:]) if rng.random() < 0.7 else rng.choice(D)
            va = vals[a - 1]
            s = rng.random()
            if prog[a - 1]["op"] == "call" and prog[a - 1]["i"] and s < 0.5:
                nd = node("nout", xs=[a], i=rng.randrange(prog[a - 1]["i"]))
            elif type(va) in (list, tuple, dict) and s < 0.6:
                b = pick()
                vb = vals[b - 1]
                if type(va) is dict:
                    if type(vb) not in (int, str):
                        continue
                elif not (type(vb) is int or (type(vb) is slice and all(type(e) in (int, type(None)) for e in (vb.start, vb.stop)))):
                    continue            # list[True] is Python; the specification's domain is int / slice indices
                nd = node("getitem", xs=[a, b])
            elif type(va) is Pt:
                if s < 0.5:
                    nd = node("getattr", rng.choice(["x", "y"]), xs=[a])
                else:
                    kn = sorted(rng.sample(["j", "k"], rng.choice([0, 0, 1, 2])))
                    nd = node("meth", "tag", xs=[a] + [pick() for _ in range(rng.choice([0, 1]))], kn=kn, kx=[pick() for _ in kn],
                              pure=rng.random() < 0.5)
            elif type(va) is NT:
                nd = node("getattr", rng.choice(["a", "b"]), xs=[a])
            elif type(va) in (list, tuple) and s < 0.8:
                b = pick()
                if not (type(vals[b - 1]) is int and all(type(e) is int for e in va)):
                    continue
                nd = node("meth", "count", xs=[a, b], pure=rng.random() < 0.5)
            elif type(va) is int and s < 0.2:
                nd = node("un", rng.choice(["neg", "invert"]), xs=[a])
            else:
                b = pick()
                pair = [a, b] if rng.random() < 0.5 else [b, a]
                ta, tb = type(vals[pair[0] - 1]), type(vals[pair[1] - 1])
                if ta is int and tb is int:
                    nm = rng.choice(list(BINOPS))
                elif ta is tb and ta in (list, tuple):
                    nm = "add"
                elif {ta, tb} in ({int, list}, {int, tuple}):
                    nm = "mul"
                else:
                    continue
                nd = node("bin", nm, xs=pair)
        if push(nd):
            done += 1
    # the last node must be a Delayed: close with a call over the unused nodes if necessary
    used = {j for nd in prog for j in nd["xs"] + nd["kx"]}
    unused = [j for j in range(1, len(prog) + 1) if j not in used]
    if not dl[-1] or len(unused) > 1:
        if not push(node("call", "f2", xs=unused[-3:], pure=rng.random() < 0.5)):
            return random_program(rng, nops)
    return prog


def N(op, nm="", v=None, xs=(), kn=(), kx=(), w=False, pure=False, dkn="", i=0):
    """A node (the record shape of DelayedProg.tla)."""
    return {"op": op, "nm": nm, "v": v if v is not None else {"t": "none"}, "xs": list(xs), "kn": list(kn), "kx": list(kx),
            "w": bool(w), "pure": bool(pure), "dkn": dkn, "i": i}


def probe_programs():
    """A few hand-written programs (decided by TLC like every recorded program): pure calls that differ only in a
    keyword argument / in argument order, nout unpacking, a reflected operator, a Delayed slice bound, a Delayed dict key,
    a plain string argument equal to a dask_key_name."""
    one, two = {"t": "int", "v": 1}, {"t": "int", "v": 2}
    return [
        [N("const", v=one, w=True), N("const", v=two, w=True), N("call", "f1", kn=["k"], kx=[1], pure=True),
         N("call", "f1", kn=["k"], kx=[2], pure=True), N("call", "f1", kn=["k"], kx=[1], pure=True), N("call", "f2", xs=[3, 4, 5], pure=True)],
        [N("const", v=one, w=True), N("const", v=two), N("call", "f1", xs=[1, 2], pure=True), N("call", "f1", xs=[2, 1], pure=True),
         N("call", "f1", xs=[1, 2], pure=True), N("call", "f2", xs=[3, 4, 5])],
        [N("const", v=one, w=True), N("const", v=two), N("call", "tup", xs=[1, 2], i=2, pure=True), N("nout", xs=[3], i=0),
         N("nout", xs=[3], i=1), N("call", "f1", xs=[4, 5], pure=True)],
        [N("const", v=one, w=True), N("const", v=two), N("bin", "sub", xs=[2, 1]), N("bin", "sub", xs=[1, 2]), N("call", "f1", xs=[3, 4])],
        [N("const", v=one, w=True), N("const", v=two), N("cont", "list", xs=[1, 2, 1]), N("cont", "slice", xs=[1, 2]),
         N("cont", "list", xs=[3], w=True), N("cont", "dictk", xs=[1, 4]), N("call", "f1", xs=[5, 6], pure=True)],
        # the same value under two keyword names, keyword vs positional, swapped keyword values
        [N("const", v=one, w=True), N("const", v=two), N("call", "f1", xs=[1], kn=["j"], kx=[2], pure=True),
         N("call", "f1", xs=[1], kn=["k"], kx=[2], pure=True), N("call", "f1", xs=[1, 2], pure=True),
         N("call", "f1", kn=["j", "k"], kx=[1, 2], pure=True), N("call", "f1", kn=["j", "k"], kx=[2, 1], pure=True),
         N("call", "f2", xs=[3, 4, 5]), N("call", "f2", xs=[6, 7, 8])],
        # containers wrapped with pure=True: same Delayed member, another plain member / another order
        [N("const", v=one, w=True), N("const", v=two), N("const", v={"t": "int", "v": 0}), N("cont", "list", xs=[1, 2], w=True, pure=True),
         N("cont", "list", xs=[1, 3], w=True, pure=True), N("cont", "list", xs=[2, 1], w=True, pure=True),
         N("cont", "list", xs=[1, 2], w=True, pure=True), N("call", "f2", xs=[4, 5, 6]), N("call", "f2", xs=[7, 8])],
        # a Delayed whose key is spelled like a plain string argument
        [N("const", v={"t": "str", "s": "kk"}), N("const", v=one, w=True), N("call", "f1", xs=[2], dkn="kk"),
         N("call", "f1", xs=[3, 1], pure=True), N("call", "f1", xs=[1, 3], pure=True), N("call", "f2", xs=[4, 5])],
    ]


def _record(item):
    i, prog, variant = item
    obs = observe(prog, variant)
    if "skip" in obs:
        return None
    obs = dict(obs)
    msg = obs.pop("msg", "")
    ref = eager_vals(prog)
    return {"id": "r%d" % i, "prog": prog, "obs": obs, "ref": ref if ref is not None else [{"t": "err"}] * len(prog),
            "variant": list(variant), "msg": msg}


def flip_pure(prog, rng):
    """The same program with other build flags (the meaning must not change; TLC decides the keys)."""
    out = []
    for nd in prog:
        nd = dict(nd)
        if nd["op"] in ("call", "meth"):
            nd["pure"] = rng.random() < 0.5
        out.append(nd)
    return out


# --------------------------------------------------------------------------- the check
INVS = ["InfoOK", "Sane", "NoErrors", "IdentSound", "BuildFree", "NoutLen", "NoutElems", "ImpureFresh"]


def enumerate_programs(ctx, levels):
    """spec -> code, step 1: the TLC runs (design check on every state + export)."""
    allcases = []
    for (mode, ml, mo, rate, pures) in levels:
        spec, cfg = ctx.model(ctx.spec("graph", "DelayedProgMC.tla"),
                              {"MaxLeaves": ml, "MaxOps": mo, "Rate": TLA("<<" + ", ".join(map(str, rate)) + ">>"),
                               "Seed": ctx.seed + 1, "Pures": TLA(pures), "Mode": mode}, invariants=INVS)
        cases, _ = ctx.tlc_cases(spec, cfg, label="design+programs:%s,leaves<=%d,ops<=%d,rate=%s" % (mode, ml, mo, rate), timeout=1500)
        allcases += cases
    ctx.extra["programs_enumerated_by_tlc"] = ctx.extra.get("programs_enumerated_by_tlc", 0) + len(allcases)
    return allcases


def replay_programs(ctx, cases, rng, thorough=False):
    """spec -> code, step 2: build every program with dask.delayed, compare with the export."""
    before = len(ctx.violations)
    items = []
    for c in cases:
        if thorough:
            v = (rng.choice(["def", "call"]), "sync", rng.choice([0, 0, 0, 0, 0, 0, 1, 1, 1, 2]))
        else:
            v = ("def" if rng.random() < 0.7 else "call", "sync", rng.choice([0] * 16 + [1, 1, 1, 2]))
        items.append((c, v))
    results = pmap(_work, items, chunk=50)
    for (case, variant), (cl, detail, obs) in zip(items, results):
        if cl == "GUARD":
            raise MachineryError("TLA+ reference disagrees with eager Python on %r: python=%r spec=%r"
                                 % (case["prog"], detail, case["vals"]))
        if cl == "SKIP":
            ctx.skip(detail)
            continue
        ctx.count(("mc", case["prog"], variant), nontrivial(case["prog"]))
        if cl:
            ctx.violation(classify(case["prog"], cl, variant), "%s: dask.delayed disagrees with the specification%s"
                          % (cl, (" (%s: %s)" % (obs["raised"], obs["msg"][:100])) if obs and obs["raised"] else ""),
                          {"kind": "mc", "case": case, "variant": list(variant), "observed": obs})
    if items:
        ctx.sample({"program": _show(items[len(items) // 2][0]["prog"]), "expected": items[len(items) // 2][0]["vals"][-1]})
        ctx.sample({"program": _show(items[-1][0]["prog"]), "expected": items[-1][0]["vals"][-1]})
    ctx.extra["programs_replayed"] = ctx.extra.get("programs_replayed", 0) + len(items)
    return len(ctx.violations) - before


def record_programs(ctx, progs, rng, thorough=False):
    """code -> spec: build + compute with dask, TLC decides every record."""
    before = len(ctx.violations)
    todo = []
    for i, p in enumerate(progs):
        sched = "threads" if (thorough and i % 7 == 0) else "sync"
        todo.append((i, p, (rng.choice(["def", "call"]), sched, rng.choice([0, 0, 0, 0, 0, 0, 1, 1, 2]))))
    recs = [r for r in pmap(_record, todo, chunk=50, always=thorough) if r is not None]
    spec, cfg = ctx.model(ctx.spec("graph", "DelayedProgTrace.tla"), {})
    for lo in range(0, len(recs), 4000):
        part = recs[lo:lo + 4000]
        rej = ctx.tlc_validate(spec, [{k: r[k] for k in ("id", "prog", "obs", "ref")} for r in part], cfg, timeout=1500)
        byid = {r["id"]: r for r in part}
        for r in part:
            ctx.count(("rec", r["prog"], r["variant"]), nontrivial(r["prog"]))
        for rid, clauses in rej.items():
            r = byid[rid]
            cl = clauses[0].strip('{} "').split('"')[0].split(",")[0] or "Rejected"
            if "NotAProgram" in clauses[0] or "Guard" in clauses[0]:
                raise MachineryError("recorded program outside the specification's domain, or the TLA+ reference disagrees with "
                                     "eager Python (%s): %s ref=%r" % (clauses[0], _show(r["prog"]), r["ref"]))
            ctx.violation(classify(r["prog"], cl, r["variant"]), "TLC rejects a recorded delayed program (%s)%s"
                          % (clauses[0], (" raised %s: %s" % (r["obs"]["raised"], r["msg"][:80])) if r["obs"]["raised"] else ""),
                          {"kind": "rec", "record": r, "clauses": clauses})
    if recs:
        ctx.sample({"recorded_program": _show(recs[0]["prog"]), "variant": recs[0]["variant"]})
    ctx.extra["programs_recorded"] = ctx.extra.get("programs_recorded", 0) + len(recs)
    return len(ctx.violations) - before


def core(ctx, levels, cap, nrandom, rng, thorough=False):
    """levels: list of (MaxLeaves, MaxOps, Rate, Pures).  Returns (#violations, sampled?)."""
    before = len(ctx.violations)
    cases = enumerate_programs(ctx, levels)
    sampled = any(r < 1000 for (_, _, _, rate, _) in levels for r in rate)
    if len(cases) > cap:
        sampled = True
        cases = rng.sample(cases, cap)
    replay_programs(ctx, cases, rng, thorough)
    progs = probe_programs() + [random_program(rng, rng.randint(4, 9)) for _ in range(nrandom)]
    # ... and the enumerated programs again with other build flags (pure flags flipped per call)
    progs += [flip_pure(c["prog"], rng) for c in (rng.sample(cases, min(len(cases), nrandom)) if cases else [])]
    record_programs(ctx, progs, rng, thorough)
    return len(ctx.violations) - before, sampled


def _show(prog):
    """Readable one-line rendering of a program."""
    out = []
    for i, nd in enumerate(prog, 1):
        op, nm = nd["op"], nd["nm"]
        ref = lambda j: "n%d" % j
        if op == "const":
            s = repr(to_py(nd["v"]))
        elif op == "cont":
            s = "%s(%s)" % (nm, ", ".join([ref(j) for j in nd["xs"]] + ["%s=%s" % (k, ref(j)) for k, j in zip(nd["kn"], nd["kx"])]))
        elif op in ("call", "meth"):
            args = [ref(j) for j in nd["xs"]] + ["%s=%s" % (k, ref(j)) for k, j in zip(nd["kn"], nd["kx"])]
            flags = ("pure" if nd["pure"] else "impure") + ((",key=" + nd["dkn"]) if nd["dkn"] else "") + ((",nout=%d" % nd["i"]) if nd["i"] else "")
            s = ("%s(%s)[%s]" % (nm, ", ".join(args), flags)) if op == "call" else ("%s.%s(%s)[%s]" % (args[0], nm, ", ".join(args[1:]), flags))
        elif op == "getitem":
            s = "%s[%s]" % (ref(nd["xs"][0]), ref(nd["xs"][1]))
        elif op == "getattr":
            s = "%s.%s" % (ref(nd["xs"][0]), nm)
        elif op == "bin":
            s = "%s(%s, %s)" % (nm, ref(nd["xs"][0]), ref(nd["xs"][1]))
        elif op == "un":
            s = "%s(%s)" % (nm, ref(nd["xs"][0]))
        else:
            s = "iter(%s)[%d]" % (ref(nd["xs"][0]), nd["i"])
        if op in ("const", "cont") and nd["w"]:
            s = "delayed(%s)" % s
        out.append("n%d=%s" % (i, s))
    return "; ".join(out)


def run(ctx):
    if ctx.quick:
        levels = [("pairs", 2, 3, [1000, 1000, 1000], "{TRUE}"), ("grow", 2, 3, [1000, 2, 40], "{TRUE}"), ("grow", 3, 2, [100, 40], "{TRUE}")]
        cap, nrandom = 9000, 700
    else:
        levels = [("pairs", 2, 3, [1000, 1000, 1000], "{TRUE}"), ("grow", 2, 2, [1000, 1000], "{TRUE}"),
                  ("grow", 3, 3, [250, 6, 80], "{TRUE, FALSE}"), ("grow", 2, 4, [1000, 2, 4, 80], "{TRUE}")]
        cap, nrandom = 150000, 4000
    _, sampled = core(ctx, levels, cap, nrandom, ctx.rng, thorough=not ctx.quick)
    ctx.exhaustive = not sampled
    ctx.rule = ("a case = one program (TLC-grown, or seeded random with 4-9 operations) x build variant (pure at definition / at call, "
                "linear fusion on/off, scheduler); non-trivial = at least one Delayed object is consumed by another node; distinct by "
                "(program, variant)")
    ctx.assumptions = ["uninterpreted functions: the value of a call is the term", "eager Python is the reference guard of the TLA+ semantics",
                       "ints and containers stay small (|int| <= 60, sequences <= 6)"]


def replay(ctx, obj):
    c = obj["case"]
    if c["kind"] == "mc":
        obs = observe(c["case"]["prog"], tuple(c["variant"]))
        cl = judge(c["case"], obs)
        print("program:", _show(c["case"]["prog"]), "\nexpected:", c["case"]["vals"][-1], "\nobserved:", obs, "\nclause:", cl)
        return cl is not None
    r = c["record"]
    rec = _record((0, r["prog"], tuple(r["variant"])))
    spec, cfg = ctx.model(ctx.spec("graph", "DelayedProgTrace.tla"), {})
    rej = ctx.tlc_validate(spec, [{k: rec[k] for k in ("id", "prog", "obs", "ref")}], cfg)
    print("program:", _show(r["prog"]), "\nobserved:", rec["obs"], "\nrejected:", rej)
    return bool(rej)


def selftest(ctx):
    import glob
    import os
    import sys

    import dask.delayed  # noqa: F401
    from ..mutate import source_mutant
    DD = sys.modules["dask.delayed"]
    ok = True
    rdir = os.path.join(os.path.dirname(os.path.dirname(os.path.dirname(os.path.abspath(__file__)))), "replays")
    before = set(glob.glob(os.path.join(rdir, "C15-*.json")))
    cases = enumerate_programs(ctx, [("pairs", 2, 3, [1000, 1000, 1000], "{TRUE}"), ("grow", 2, 2, [1000, 8], "{TRUE}")])
    cases = random.Random(5).sample(cases, min(len(cases), 1200))
    rprogs = probe_programs() + [random_program(random.Random(7 + i), 6) for i in range(120)]

    def attempt(name, with_records=False):
        n = replay_programs(ctx, cases, random.Random(5))
        if with_records:
            n += record_programs(ctx, rprogs, random.Random(5))
        sigs = sorted({s for s, _, _ in ctx.violations})
        del ctx.violations[:]
        ctx.viol_count.clear()
        print("mutant %s: %s (%d violations; e.g. %s)" % (name, "DETECTED" if n else "MISSED", n, sigs[:3]))
        return n > 0

    # baseline: the unchanged code passes the same case set (both directions)
    n = replay_programs(ctx, cases, random.Random(5)) + record_programs(ctx, rprogs, random.Random(5))
    print("unchanged dask on the self-test case set (%d programs + %d recorded): %d violations" % (len(cases), len(rprogs), n))
    ok &= n == 0
    # mutant 1: dict arguments lose the pairing of keys and values (values reversed)
    with source_mutant(DD, "unpack_collections", "args = Dict([[k, v] for k, v in zip(keyargs, valargs)])",
                       "args = Dict([[k, v] for k, v in zip(keyargs, list(valargs)[::-1])])"):
        ok &= attempt("dict-values-reversed")
    # mutant 2: keyword arguments do not take part in the pure token (found by TLC on recorded keys as well)
    with source_mutant(DD, "call_function", "tokenize(func_token, *args, pure=pure, **kwargs)", "tokenize(func_token, *args, pure=pure)"):
        ok &= attempt("pure-token-ignores-kwargs", with_records=True)
    # mutant 2b: the pure token is built from the keyword VALUES in name order, not from (name, value) pairs
    with source_mutant(DD, "call_function", "tokenize(func_token, *args, pure=pure, **kwargs)",
                       "tokenize(func_token, *args, *[kwargs[k] for k in sorted(kwargs)], pure=pure)"):
        ok &= attempt("pure-token-forgets-keyword-names")
    # mutant 2c: delayed(container, pure=True) is named after its type and the collections it holds only
    import inspect
    import textwrap

    import dask
    src = textwrap.dedent(inspect.getsource(DD.delayed.func))
    anchor = 'name = f"{type(obj).__name__}-{tokenize(task, pure=pure)}"'
    if src.count(anchor) != 1:
        raise MachineryError("mutant anchor not found in dask.delayed.delayed")
    orig_delayed = DD.delayed
    exec(compile(src.replace(anchor, 'name = f"{type(obj).__name__}-{tokenize(type(obj), *collections, pure=pure)}"'),
                 "<mutant dask.delayed.delayed>", "exec"), DD.__dict__)
    dask.delayed = DD.delayed
    try:
        ok &= attempt("pure-container-name-ignores-plain-members")
    finally:
        DD.delayed = dask.delayed = orig_delayed
    # mutant 3: the reflected operator is not swapped (2 - d computes d - 2)
    orig = DD.Delayed.__rsub__, DD.Delayed.__rfloordiv__
    DD.Delayed.__rsub__, DD.Delayed.__rfloordiv__ = DD.Delayed.__sub__, DD.Delayed.__floordiv__
    try:
        ok &= attempt("reflected-operator-not-swapped")
    finally:
        DD.Delayed.__rsub__, DD.Delayed.__rfloordiv__ = orig
    # mutant 4: slices drop a Delayed stop (slice(a, d) built as slice(a, None))
    with source_mutant(DD, "unpack_collections", "[expr.start, expr.stop, expr.step], _return_collections=False",
                       "[expr.start, None if isinstance(expr.stop, Delayed) else expr.stop, expr.step], _return_collections=False"):
        ok &= attempt("slice-drops-delayed-stop")
    # mutant 5: iterating over an nout result starts at 1
    orig_iter = DD.Delayed.__iter__

    def bad_iter(self):
        if self._length is None:
            raise TypeError("Delayed objects of unspecified length are not iterable")
        for i in range(self._length):
            yield self[min(i + 1, self._length - 1)]
    DD.Delayed.__iter__ = bad_iter
    try:
        ok &= attempt("nout-iteration-off-by-one", with_records=True)
    finally:
        DD.Delayed.__iter__ = orig_iter
    # binding of the trace spec: an untouched record is accepted, corrupted fields are rejected
    rng = random.Random(11)
    prog = None
    while prog is None or not any(nd["op"] == "call" and nd["pure"] and not nd["dkn"] for nd in prog):
        prog = random_program(rng, 6)
    rec = _record((0, prog, ("def", "sync", False)))
    spec, cfg = ctx.model(ctx.spec("graph", "DelayedProgTrace.tla"), {})
    base = {k: rec[k] for k in ("id", "prog", "obs", "ref")}
    bad1 = json.loads(json.dumps(base))
    bad1["id"] = "v"
    bad1["obs"]["vals"][-1] = {"t": "list", "xs": [bad1["obs"]["vals"][-1]]}
    bad2 = json.loads(json.dumps(base))
    bad2["id"] = "k"
    i = [j for j, nd in enumerate(prog) if nd["op"] == "call" and nd["pure"] and not nd["dkn"]][0]
    other = [j for j in range(len(prog)) if j != i and bad2["obs"]["keys"][j] != 0][0]
    bad2["obs"]["keys"][i] = bad2["obs"]["keys"][other]
    rej = ctx.tlc_validate(spec, [base, bad1, bad2], cfg)
    print("untouched record: %s; corrupted value: %s; corrupted key class: %s"
          % (rej.get("r0", "accepted"), rej.get("v", "accepted"), rej.get("k", "accepted")))
    ok &= "r0" not in rej and "v" in rej and "k" in rej
    for f in set(glob.glob(os.path.join(rdir, "C15-*.json"))) - before:
        os.remove(f)
    return 0 if ok else 1
