"""C50 - block-wise text reading reproduces the file exactly.

specs/bag/TextBlocks.tla: Cut (fsspec read_block's delimiter seek), the read_bytes contract
(blocks concatenate to the file; every later block starts just after a delimiter), a
transcription of the offset planning with exact rationals, SplitAfter (read_text's lines).
TLC enumerates every file up to a length bound over a 4-symbol alphabet x delimiters (single,
multi-character, self-overlapping), proves the contract for every blocksize on the Cut-defined
blocks (design), and exports the expected lines.  Each case is written to disk and read with the
real read_bytes / read_text for every blocksize (and None), include_path, files_per_partition;
the blocks and lines are recorded and decided by TLC (TextBlocksTrace.tla)."""
from __future__ import annotations

import os
import random

from ..core import TLA, MachineryError
from ..par import pmap

META = {
    "title": "Block-wise text reading reproduces the file exactly",
    "design_ref": "DESIGN.md §4.5 C50",
    "technique": "TLA+ contract of delimiter-aligned block reading; TLC enumerates all small files x delimiters x blocksizes; real "
                 "read_bytes/read_text outputs validated by TLC",
    "level_text": "TLC checks the design for all files of length <= 6 (thorough 8) and exports them; a seeded sample (1000 / 3000 cases) is replayed over {a,b,d,e} x 4 delimiters (d, de, dd, ded) x every "
                  "blocksize 1..len+1 and None x include_path x files_per_partition (1-4 over 1-5 files, partition count decided too), "
                  "ASCII, multi-byte and 'every non-delimiter symbol is a Unicode line boundary (VT, U+2028, RS)' "
                  "concretisations: TLC proves the contract on the Cut-defined blocks for every blocksize and decides every recorded "
                  "block list / line list; random files up to 200 symbols with random delimiters are validated the same way.",
    "level_note": "Trusted: TLC; the symbol<->byte concretisation; fsspec's local file system. The exact offsets chosen by the "
                  "float arithmetic of read_bytes are the implementation's freedom: only the contract on the blocks is demanded.",
}

SYM = {1: "a", 2: "b", 3: "d", 4: "e"}


# "nlu"/"nlx": the delimiter symbol is the newline and every other symbol is a character that str.splitlines() (but not
# read_text, whose lines end at the line delimiter only) treats as a line boundary: VT, LINE SEPARATOR (3 bytes), RS
NLU = {1: "\x0b", 2: "\u2028", 3: "\n", 4: "\x1e"}
NLU_INV = {v: k for k, v in NLU.items()}


def files_of(f, nfiles):
    """the contents of the files of a case: f, f reversed, then rotations of f"""
    out = [list(f)]
    if nfiles >= 2:
        out.append(list(f[::-1]))
    for k in range(2, nfiles):
        out.append(list(f[k % max(1, len(f)):]) + list(f[:k % max(1, len(f))]))
    return out


def concretise(seq, enc):
    """symbols -> text.  enc 'ascii': d=';' e='|';  'nl': d='\\n' e='x' ; 'utf8': a is a 2-byte letter"""
    m = {"ascii": {1: "a", 2: "b", 3: ";", 4: "|"}, "nl": {1: "a", 2: "b", 3: "\n", 4: "x"},
         "utf8": {1: "é", 2: "b", 3: ";", 4: "中"}, "nlu": NLU, "nlx": NLU}[enc]
    return "".join(m[s] for s in seq)


def abstract(text, enc):
    m = {"ascii": {"a": 1, "b": 2, ";": 3, "|": 4}, "nl": {"a": 1, "b": 2, "\n": 3, "x": 4},
         "utf8": {"é": 1, "b": 2, ";": 3, "中": 4}, "nlu": NLU_INV, "nlx": NLU_INV}[enc]
    return [m.get(ch, 9) for ch in text]


def self_overlapping(dl):
    return any(dl[:n] == dl[len(dl) - n:] for n in range(1, len(dl)))


_TMP = None


def _tmpdir():
    global _TMP
    d = os.path.join(_TMP, "p%d" % os.getpid())
    os.makedirs(d, exist_ok=True)
    return d


def observe(case):
    """case: {f, dl, enc, bs (int or None), include_path, fpp, nfiles}.  Returns records."""
    import dask
    import dask.bag.text as _BT
    import dask.bytes.core as _BC
    read_text, read_bytes = _BT.read_text, _BC.read_bytes        # (module attributes, so that in-memory mutants are seen)
    enc = case["enc"]
    texts = [concretise(x, enc) for x in files_of(case["f"], case["nfiles"])]
    delim = concretise(case["dl"], enc)
    d = _tmpdir()
    paths = []
    for i, t in enumerate(texts):
        p = os.path.join(d, "f%d.txt" % i)
        with open(p, "wb") as fh:
            fh.write(t.encode("utf-8"))
        paths.append(p)
    recs = []
    err = ""
    try:
        if case["what"] == "bytes":
            _, blocks = read_bytes(paths, delimiter=delim.encode("utf-8"), blocksize=case["bs"], sample=False)
            for i, (t, bl) in enumerate(zip(texts, blocks)):
                got = dask.compute(*bl, scheduler="sync") if bl else ()
                try:
                    blk = [abstract(b.decode("utf-8"), enc) for b in got]
                except UnicodeDecodeError:
                    blk = [[9]]                  # a block boundary inside a multi-byte character
                recs.append({"kind": "bytes", "f": abstract(t, enc), "dl": case["dl"], "blocks": blk})
        else:
            kw = {}
            if not (enc in ("nl", "nlu") and case["dl"] == [3]):
                kw["linedelimiter"] = delim
            b = read_text(paths, blocksize=case["bs"], files_per_partition=case["fpp"], include_path=case["include_path"], **kw)
            got = b.compute(scheduler="sync")
            if case["fpp"]:
                recs.append({"kind": "parts", "nfiles": len(paths), "fpp": case["fpp"], "nparts": b.npartitions})
            if case["include_path"]:
                ok_paths = all(isinstance(x, tuple) and len(x) == 2 for x in got)
                by = {p: [x[0] for x in got if ok_paths and x[1] == p] for p in paths}
                lines_per_file = [by[p] for p in paths] if ok_paths else [[chr(0)] for _ in paths]
            else:
                lines_per_file = None
            if lines_per_file is None:
                # without paths: the concatenation of all files' lines, in file order
                recs.append({"kind": "text", "fs": [abstract(t, enc) for t in texts], "dl": case["dl"],
                             "lines": [abstract(x, enc) for x in got]})
            else:
                for t, ls in zip(texts, lines_per_file):
                    recs.append({"kind": "text", "fs": [abstract(t, enc)], "dl": case["dl"], "lines": [abstract(x, enc) for x in ls]})
    except Exception as ex:  # noqa: BLE001
        err = "%s: %s" % (type(ex).__name__, str(ex)[:150])
    finally:
        for p in paths:
            try:
                os.remove(p)
            except OSError:
                pass
    return recs, err


def py_split_after(f, dl):
    out, i, n, m = [], 0, len(f), len(dl)
    start = 0
    while i + m <= n:
        if f[i:i + m] == dl:
            out.append(f[start:i + m])
            i += m
            start = i
        else:
            i += 1
    if start < n:
        out.append(f[start:])
    return out


def expand(c, rng, thorough):
    """all real calls for one TLC case"""
    f, dl = c["f"], c["dl"]
    n = len(f)
    out = []
    encs = ["ascii", "utf8", "nlx"] + (["nl", "nlu"] if dl == [3] else [])
    bss = list(range(1, n + 2)) + [None]
    if not thorough:
        bss = sorted(set(rng.sample(range(1, n + 2), min(3, n + 1)))) + [None]
        encs = rng.sample(encs, 2)
    else:
        encs = rng.sample(encs, 3)           # (every blocksize, three of the concretisations per case)
    for enc in encs:
        for bs in bss:
            # blocksize counts BYTES: keep symbol blocksizes but also exercise byte-level cuts in utf8
            out.append({"what": "bytes", "f": f, "dl": dl, "enc": enc, "bs": bs, "include_path": False, "fpp": None,
                        "nfiles": 1 + (len(out) % 2)})
            out.append({"what": "text", "f": f, "dl": dl, "enc": enc, "bs": bs, "include_path": bool(len(out) % 3 == 0),
                        "fpp": None, "nfiles": 1 + (len(out) % 2)})
        # files_per_partition (only legal with blocksize=None): every grouping of 1..5 files, incl. a short last group
        # and more files per partition than files
        for nfiles, fpp in ([(rng.randint(1, 5), rng.randint(1, 4))] if not thorough else
                            rng.sample([(a, b) for a in (1, 2, 3, 5) for b in (1, 2, 3, 4)], 5)):
            out.append({"what": "text", "f": f, "dl": dl, "enc": enc, "bs": None, "include_path": bool((nfiles + fpp) % 3 == 0),
                        "fpp": fpp, "nfiles": nfiles})
    return out


def _work(case):
    recs, err = observe(case)
    return case, recs, err


def classify(case, clause):
    feats = []
    if self_overlapping(case["dl"]) and case["bs"] is not None and case["what"] == "text" and clause == "LinesEqualSplitAfter":
        # one root cause: occurrences found from a block boundary are not those found from the file start
        return "text:self-overlapping-delimiter:block-wise-lines-differ"
    if self_overlapping(case["dl"]):
        feats.append("self-overlapping-delimiter")
    if case["bs"] is None:
        feats.append("blocksize=None")
    if case["f"] and case["f"][-len(case["dl"]):] == case["dl"]:
        feats.append("trailing-delimiter")
    return "%s:%s:%s" % (case["what"], clause, "+".join(feats) or "plain")


def core(ctx, rng, maxlen, thorough, cap, nrandom):
    global _TMP
    _TMP = ctx.scratch
    before = len(ctx.violations)
    consts = {"MaxLen": maxlen, "Alphabet": TLA("{1, 2, 3, 4}"), "Delims": TLA("{<<3>>, <<3, 4>>, <<3, 3>>, <<3, 4, 3>>}")}
    spec, cfg = ctx.model(ctx.spec("bag", "TextBlocksMC.tla"), consts,
                          invariants=["ContractForEveryBlocksize", "PlannedOffsetsOK", "LinesPartitionFile", "BlockwiseLinesEqual"])
    cases, _ = ctx.tlc_cases(spec, cfg, label="design+cases", timeout=1500)
    # reference guard: TLA+ SplitAfter vs Python's str.split based definition
    for c in cases[:: max(1, len(cases) // 3000)]:
        if py_split_after(c["f"], c["dl"]) != [list(x) for x in c["lines"]]:
            raise MachineryError("SplitAfter disagrees with the Python reference on %r" % c)
    total = len(cases)
    if len(cases) > cap:
        cases = rng.sample(cases, cap)
        ctx.exhaustive = False
    else:
        ctx.exhaustive = True
    calls = []
    for c in cases:
        calls.extend(expand(c, rng, thorough))
    # larger random files
    for i in range(nrandom):
        n = rng.randint(20, 200)
        dl = rng.choice([[3], [3, 4], [3, 3], [3, 4, 3], [4, 3, 3]])
        f = [rng.choice([1, 2, 3, 3, 4]) for _ in range(n)]
        for what in ("bytes", "text"):
            calls.append({"what": what, "f": f, "dl": dl, "enc": rng.choice(["ascii", "utf8", "nlx"] + (["nlu"] if dl == [3] else [])),
                          "bs": rng.choice([None, 1, 2, 3, 5, 7, 16, 33]),
                          "include_path": rng.random() < 0.3, "fpp": None, "nfiles": rng.choice([1, 2, 3])})
    results = pmap(_work, calls, chunk=200)
    recs, owner = [], {}
    for case, rs, err in results:
        ctx.count((case["what"], case["f"], case["dl"], case["enc"], case["bs"], case["include_path"], case["fpp"], case["nfiles"]),
                  len(case["f"]) >= 2 and any(case["f"][i:i + len(case["dl"])] == case["dl"] for i in range(len(case["f"]))))
        if err:
            ctx.violation(classify(case, "Raised"), "dask raised: " + err, {"case": case})
            continue
        for r in rs:
            r["id"] = "r%d" % len(recs)
            owner[r["id"]] = case
            recs.append(r)
    tspec, tcfg = ctx.model(ctx.spec("bag", "TextBlocksTrace.tla"), {})
    for lo in range(0, len(recs), 20000):
        part = recs[lo:lo + 20000]
        rej = ctx.tlc_validate(tspec, part, tcfg, timeout=1500)
        for rid, clauses in rej.items():
            cl = clauses[0].strip('{} "').split('"')[0]
            case = owner[rid]
            ctx.violation(classify(case, cl), "TLC rejects a recorded %s call: %s" % (case["what"], clauses[0]),
                          {"case": case, "record": next(r for r in part if r["id"] == rid)})
    if cases:
        ctx.sample({"file": cases[0]["f"], "delimiter": cases[0]["dl"], "lines": cases[0]["lines"]})
    ctx.extra["tlc_cases"] = total
    return len(ctx.violations) - before


def run(ctx):
    core(ctx, ctx.rng, ctx.pick(6, 8), not ctx.quick, ctx.pick(1000, 3000), ctx.pick(100, 2000))
    ctx.rule = ("case = (file, delimiter) enumerated by TLC x (read_bytes | read_text) x blocksize x encoding x include_path x "
                "files_per_partition x 1-2 files; non-trivial = file of >= 2 symbols containing the delimiter")


def replay(ctx, obj):
    global _TMP
    _TMP = ctx.scratch
    case = obj["case"]["case"]
    recs, err = observe(case)
    print(recs, err)
    if err:
        return True
    for i, r in enumerate(recs):
        r["id"] = "r%d" % i
    tspec, tcfg = ctx.model(ctx.spec("bag", "TextBlocksTrace.tla"), {})
    return bool(ctx.tlc_validate(tspec, recs, tcfg))


def selftest(ctx):
    import dask.bag.text as BT
    import dask.bytes.core as BC

    from ..mutate import source_mutant
    ok = True
    rng = random.Random(5)
    # (shifting every offset by one together with the lengths is a BENIGN change - the delimiter seek re-aligns both ends -
    #  and must not alarm; a block that is one byte short while its successor starts where it should loses data)
    import contextlib

    from ..mutate import attr_mutant

    @contextlib.contextmanager
    def read_bytes_mutant(old, new):
        # read_text calls the name it imported from dask.bytes: patch that reference as well
        with source_mutant(BC, "read_bytes", old, new) as m, attr_mutant(BT, "read_bytes", m):
            yield

    with read_bytes_mutant("off.append(int(place))", "off.append(int(place) + 1)"):
        n = core(ctx, rng, 5, False, 300, 20)
    print("benign mutant offsets-shifted-by-one: %s (%d)" % ("NO ALARM" if not n else "ALARM", n)); ok &= n == 0
    with read_bytes_mutant("length.append(off[-1] - off[-2])", "length.append(off[-1] - off[-2] - 1)"):
        n = core(ctx, rng, 5, False, 300, 20)
    sigs = sorted({v.get("signature", "") if isinstance(v, dict) else str(v[0]) for v in ctx.violations})[:3]
    print("mutant block-length-short-by-one: %s (%d) %s" % ("DETECTED" if n else "MISSED", n, sigs)); ok &= n > 0
    with source_mutant(BT, "read_text", "for start in range(0, len(files), files_per_partition):",
                       "for start in range(0, len(files) - files_per_partition + 1, files_per_partition):"):
        n = core(ctx, rng, 5, False, 300, 20)
    print("mutant files_per_partition-drops-the-short-last-group: %s (%d)" % ("DETECTED" if n else "MISSED", n)); ok &= n > 0
    import fsspec.utils as FU
    orig = FU.read_block

    def bad_read_block(f, offset, length, delimiter=None, split_before=False):
        # the end of the block is not aligned to the delimiter
        if delimiter and length is not None and offset > 0:
            f.seek(offset)
            FU.seek_delimiter(f, delimiter, 2 ** 16)
            start = f.tell()
            return f.read(max(0, offset + length - start))
        return orig(f, offset, length, delimiter, split_before)
    BC.read_block = bad_read_block
    try:
        n = core(ctx, rng, 5, False, 300, 20)
    finally:
        BC.read_block = orig
    print("mutant block-end-not-aligned: %s (%d)" % ("DETECTED" if n else "MISSED", n)); ok &= n > 0
    with source_mutant(BT, "decode", "parts[-1:] if parts[-1] else []", "parts[-1:]"):
        n = core(ctx, rng, 5, False, 300, 20)
    print("mutant decode-keeps-empty-tail: %s (%d)" % ("DETECTED" if n else "MISSED", n)); ok &= n > 0
    import glob
    for f in glob.glob(os.path.join(os.path.dirname(os.path.dirname(os.path.dirname(os.path.abspath(__file__)))), "replays", "C50-*.json")):
        os.remove(f)
    return 0 if ok else 1
