"""C11 - equal task nodes compute equal values.

spec -> code: TLC enumerates (specs/graph/NodeEqMC.tla) pairs of task-object expressions (x, y), y being x
after one edit (swap, retype, nest, dup, drop, dict re-pairing / renaming, function, keyword name,
positional <-> keyword, other reference, reference <-> plain literal, other literal), and computes with the
semantics of specs/graph/TaskSpec.tla whether the two evaluate alike under every environment (`same`) and
what each evaluates to.  Both nodes are built for real; `==`, `hash`, `tokenize` and node(values) under both
environments are observed.  The implementation may call two nodes equal (== or equal tokens) only if `same`.
code -> spec: seeded random deeper nodes with one random edit are recorded and TLC decides each record
(NodeEqTrace.tla), computing `same` itself."""
from __future__ import annotations

import copy
import random

from .. import herbrand as H
from ..core import MachineryError
from ..par import pmap

META = {
    "title": "Equal task nodes compute equal values",
    "design_ref": "DESIGN.md §4.2 C11",
    "technique": "TLA+ semantics of task objects over Herbrand terms; TLC enumerates node pairs one edit apart with their "
                 "semantic equality over separating environments; real ==, hash, tokenize and evaluation are observed for "
                 "each pair; TLC validates recorded pairs",
    "level_text": "Small-scope exhaustive: every task-object expression of depth <= 1 over 3 references and 3 literals (one "
                  "spelled like a key) and a seeded sample of depth-2 expressions, each paired with every one-edit neighbour "
                  "(14 edit kinds at every position); soundness of ==/tokenize judged against semantic equality over a "
                  "Herbrand environment and a colliding one.  Random deeper pairs are decided by TLC from recorded observations.",
    "level_note": "Trusted: TLC; dask.tokenize on the leaves (strings, ints, tuples, the Herbrand function objects). Only "
                  "soundness is judged (equal verdict => equal values); completeness - semantically equal nodes getting "
                  "different tokens - is not a property violation.  hash() is recorded, not judged.",
}

TLC_OPTS = {"heap": "2g", "env": {"JAVA_TOOL_OPTIONS": "-XX:ParallelGCThreads=2"}}
INVS = ["Reflexive", "DictOrderFree", "OrderMatters", "AtomsMatter"]
KEYS = [H.norm("a"), H.norm("b"), H.norm("c")]
LITS = [H.norm(1), H.norm(2), H.norm("a")]
ENVS = [{"a": H.Term("va"), "b": H.Term("vb"), "c": H.Term("vc")},
        {"a": H.Term("vb"), "b": H.Term("va"), "c": 1}]


def _ck(v):
    return H._sortkey(H.canon(v))


# ---------------------------------------------------------------- observation of one pair
def build(x, seed):
    """One spelling (TaskRef or Alias, Dict constructor form, plain or DataNode literal) for the whole node and for
    both nodes of a pair, so that only the edit separates them."""
    return H.ts_expr(x, "n", int(seed), top=True)


def evaluate(node):
    out = []
    for env in ENVS:
        try:
            deps = getattr(node, "dependencies", frozenset())
            out.append(H.norm(node({d: env[d] for d in deps})))
        except Exception as ex:  # noqa: BLE001
            out.append({"t": "raised", "s": type(ex).__name__})
    return out


def observe(x, y, seed):
    from dask.tokenize import tokenize
    o = {"eq": False, "teq": False, "heq": "na", "vx": [], "vy": [], "err": ""}
    try:
        nx, ny = build(x, seed), build(y, seed)
    except NotImplementedError as ex:
        return {"skip": "NotImplementedError: " + str(ex)[:60]}
    except Exception as ex:  # noqa: BLE001
        o["err"] = "build:" + type(ex).__name__
        o["vx"] = o["vy"] = [{"t": "raised", "s": type(ex).__name__}] * len(ENVS)
        return o
    try:
        o["eq"] = bool(nx == ny) or bool(ny == nx)
    except Exception as ex:  # noqa: BLE001
        o["err"] = "eq:" + type(ex).__name__
    try:
        o["teq"] = tokenize(nx) == tokenize(ny)
    except Exception as ex:  # noqa: BLE001
        o["err"] = "tokenize:" + type(ex).__name__
    try:
        o["heq"] = "eq" if hash(nx) == hash(ny) else "ne"
    except TypeError:
        o["heq"] = "na"
    o["vx"], o["vy"] = evaluate(nx), evaluate(ny)
    return o


def judge(case, o):
    bad = []
    if o["err"]:
        bad.append("Raised")
    if (o["eq"] or o["teq"]) and not case["same"]:
        bad.append("Sound")
    if [_ck(v) for v in o["vx"]] != [_ck(v) for v in case["vx"]]:
        bad.append("EvalX")
    if [_ck(v) for v in o["vy"]] != [_ck(v) for v in case["vy"]]:
        bad.append("EvalY")
    return bad


def classify(case, clauses):
    """Signature = broken clause + the edit that separates the two nodes + the construct it was applied to.
    Element order inside the ordered containers is one input class (one tokenizer)."""
    ed, at = case.get("ed", "?"), case.get("at", "?")
    if clauses[0] == "Sound" and ed == "swap" and at in ("list", "tuple", "dict"):
        return "Sound:element-order@NestedContainer"
    return "%s:%s@%s" % (clauses[0], ed, at)


def _work(job):
    case, seed = job
    o = observe(case["x"], case["y"], seed)
    if "skip" in o:
        return ("skip", o["skip"], None)
    return ("ok", judge(case, o), o)


def record_of(rid, case, o):
    return {"id": rid, "x": case["x"], "y": case["y"], "o": {k: o[k] for k in ("eq", "teq", "vx", "vy")}}


def _work_any(job):
    """One pool for everything: ("enum", case, seed) or ("rand", x, y, ed, at, seed)."""
    import json
    if job[0] == "enum":
        return json.dumps(_work(job[1:]))
    return json.dumps(_observe_random(job[1:]))


def absorb(ctx, jobs, results, report=True):
    """Returns (triples of the enumerated pairs with the Python verdict, triples of random pairs for TLC alone)."""
    import json
    enum, rnd = [], []
    for job, res in zip(jobs, results):
        res = json.loads(res)
        if job[0] == "rand":
            case, o = res
            if "skip" in o:
                ctx.skip(o["skip"])
                continue
            ctx.count(H._sortkey([case["x"], case["y"]]), case["ed"] != "same")
            rnd.append((case, o, None))
            continue
        _t, case, seed = job
        tag, bad, o = res
        if tag == "skip":
            ctx.skip(bad)
            continue
        ctx.count(H._sortkey([case["x"], case["y"]]), case["ed"] != "same")
        enum.append((case, o, bad))
        if bad and report:
            ctx.violation(classify(case, bad), "nodes one '%s' edit apart (at a %s): %s" % (case["ed"], case["at"], "/".join(bad)),
                          {"case": case, "seed": seed, "observed": o, "clauses": bad})
    return enum, rnd


def validate_records(ctx, triples, label, report=True):
    if not triples:
        return
    spec, cfg = ctx.model(ctx.spec("graph", "NodeEqTrace.tla"), {})
    recs = [record_of("r%d" % i, c, o) for i, (c, o, _b) in enumerate(triples)]
    rej = {}
    for lo in range(0, len(recs), 30000):
        rej.update(ctx.tlc_validate(spec, recs[lo:lo + 30000], cfg, label=label, timeout=1800, **TLC_OPTS))
    for i, (case, o, bad) in enumerate(triples):
        rid = "r%d" % i
        tl = sorted(c for c in ("Sound", "EvalX", "EvalY") if rid in rej and '"%s"' % c in rej[rid][0])
        if bad is not None:
            if sorted(b for b in bad if b != "Raised") != tl:
                raise MachineryError("Python judge %r and TLC %r disagree on record %r" % (bad, tl, recs[i]))
        elif tl and report:
            ctx.violation(classify(case, tl), "TLC rejects a recorded pair one '%s' edit apart (%s)" % (case.get("ed"), "/".join(tl)),
                          {"case": case, "observed": o, "clauses": tl})


# ---------------------------------------------------------------- random deeper pairs (code -> spec)
def random_expr(rng, depth, hashable=False):
    n = [0]

    def fresh():
        n[0] += 1
        return "f%d" % n[0]

    def leaf():
        if rng.random() < 0.5:
            return {"e": "ref", "k": rng.choice(KEYS)}
        return {"e": "quote", "v": rng.choice(LITS)}

    def expr(d, hashable=False):
        if d == 0 or rng.random() < 0.2:
            return leaf()
        kinds = ["call", "tuple"] if hashable else ["call", "call", "list", "tuple", "set", "dict"]
        kind = rng.choice(kinds)
        nk = rng.choice([0, 1, 2, 2, 3])
        if kind == "call":
            kw = []
            if rng.random() < 0.4:
                kw = [[nm, expr(d - 1)] for nm in sorted(rng.sample(["p", "q", "r"], rng.randint(1, 2)))]
            return {"e": "call", "f": fresh(), "xs": [expr(d - 1) for _ in range(nk)], "kw": kw}
        if kind == "dict":
            ks = sorted(rng.sample(["p", "q", "r"], min(nk, 3)))
            if rng.random() < 0.5:
                rng.shuffle(ks)
            return {"e": "dict", "ks": ks, "xs": [expr(d - 1) for _ in ks]}
        if kind == "set":
            return {"e": "set", "xs": [expr(d - 1, True) for _ in range(nk)]}
        if kind == "tuple":
            return {"e": "tuple", "xs": [expr(d - 1, hashable) for _ in range(nk)]}
        return {"e": "list", "xs": [expr(d - 1) for _ in range(nk)]}

    return expr(depth, hashable)


def _subterms(x, path=()):
    yield path, x
    for i, y in enumerate(x.get("xs", [])):
        yield from _subterms(y, path + (("xs", i),))
    for i, (_n, y) in enumerate(x.get("kw", [])):
        yield from _subterms(y, path + (("kw", i),))


def _hashable(x):
    return x["e"] in ("ref", "quote", "call", "tuple") and all(_hashable(y) for y in x.get("xs", []) if x["e"] == "tuple")


def _well_typed(x):
    if x["e"] == "set" and not all(_hashable(y) for y in x["xs"]):
        return False
    return all(_well_typed(y) for y in x.get("xs", [])) and all(_well_typed(y) for _n, y in x.get("kw", []))


def random_edit(rng, x):
    """Python twin of NodeEqMC!Edits (plus permutations of longer containers): returns (y, ed, at) or None."""
    x = copy.deepcopy(x)
    subs = list(_subterms(x))
    rng.shuffle(subs)
    for path, node in subs:
        e = node["e"]
        opts = []
        if e == "ref":
            opts = ["ref", "unref"]
        elif e == "quote":
            opts = ["lit"]
        elif e == "call":
            opts = ["fn"] + (["swap", "drop"] if node["xs"] else []) + (["kwname", "kwpos"] if node["kw"] else [])
        elif e in ("list", "tuple", "set"):
            opts = ["retype"] + (["swap", "drop", "dup"] if node["xs"] else []) + (["nest"] if e != "set" else [])
        elif e == "dict":
            opts = (["swap", "reorder"] if len(node["xs"]) >= 2 else []) + (["dictkey", "drop"] if node["xs"] else [])
        if not opts:
            continue
        ed = rng.choice(opts)
        new = copy.deepcopy(node)
        if ed == "ref":
            new["k"] = rng.choice([k for k in KEYS if k != node["k"]])
        elif ed == "unref":
            new = {"e": "quote", "v": node["k"]}
        elif ed == "lit":
            new["v"] = rng.choice([v for v in LITS if v != node["v"]])
        elif ed == "fn":
            new["f"] = "other"
        elif ed == "swap":
            if len(new["xs"]) < 2:
                continue
            i, j = rng.sample(range(len(new["xs"])), 2)
            new["xs"][i], new["xs"][j] = new["xs"][j], new["xs"][i]
        elif ed == "drop":
            i = rng.randrange(len(new["xs"]))
            del new["xs"][i]
            if e == "dict":
                del new["ks"][i]
        elif ed == "dup":
            new["xs"].append(copy.deepcopy(rng.choice(new["xs"])))
        elif ed == "nest":
            new = {"e": e, "xs": [new]}
        elif ed == "retype":
            new["e"] = rng.choice([t for t in ("list", "tuple", "set") if t != e])
        elif ed == "kwname":
            used = {n for n, _v in new["kw"]}
            i = rng.randrange(len(new["kw"]))
            new["kw"][i][0] = rng.choice([n for n in ("p", "q", "r", "s") if n not in used])
            new["kw"].sort(key=lambda kv: kv[0])
        elif ed == "kwpos":
            i = rng.randrange(len(new["kw"]))
            new["xs"].append(new["kw"].pop(i)[1])
        elif ed == "reorder":
            i, j = rng.sample(range(len(new["xs"])), 2)
            new["xs"][i], new["xs"][j] = new["xs"][j], new["xs"][i]
            new["ks"][i], new["ks"][j] = new["ks"][j], new["ks"][i]
        elif ed == "dictkey":
            i = rng.randrange(len(new["ks"]))
            new["ks"][i] = rng.choice([n for n in ("p", "q", "r", "s") if n not in new["ks"]])
        # splice
        if not path:
            y = new
        else:
            y = x
            cur = y
            for fld, i in path[:-1]:
                cur = cur[fld][i] if fld == "xs" else cur[fld][i][1]
            fld, i = path[-1]
            if fld == "xs":
                cur["xs"][i] = new
            else:
                cur["kw"][i][1] = new
        if _well_typed(y):
            return y, ed, e
        return None
    return None


def _observe_random(job):
    x, y, ed, at, seed = job
    return {"x": x, "y": y, "ed": ed, "at": at}, observe(x, y, seed)


def rand_jobs(ctx, n, depths):
    jobs = []
    while len(jobs) < n:
        x = random_expr(ctx.rng, ctx.rng.choice(depths))
        if x["e"] in ("ref", "quote") or not _well_typed(x):
            continue
        if ctx.rng.random() < 0.1:
            jobs.append(("rand", x, copy.deepcopy(x), "same", x["e"], ctx.rng.randrange(1 << 30)))
            continue
        r = random_edit(ctx.rng, x)
        if r is None:
            continue
        y, ed, at = r
        jobs.append(("rand", x, y, ed, at, ctx.rng.randrange(1 << 30)))
    return jobs


def run(ctx):
    import dask._task_spec  # noqa: F401 - before the worker processes are forked
    import dask.tokenize  # noqa: F401
    deep = ctx.pick(150, 2000)
    spec, cfg = ctx.model(ctx.spec("graph", "NodeEqMC.tla"), {"Deep": deep}, invariants=INVS)
    cases, _ = ctx.tlc_cases(spec, cfg, label="design+pairs:deep=%d" % deep, timeout=3000, seed=ctx.seed + 1, **TLC_OPTS)
    cases.sort(key=lambda c: H._sortkey([c["x"], c["y"], c["ed"]]))
    for c in cases:
        c["vx"] = [H.canon(v) for v in c["vx"]]
        c["vy"] = [H.canon(v) for v in c["vy"]]
    n_same = sum(1 for c in cases if c["same"])
    if n_same < 10 or n_same > len(cases) - 10:
        raise MachineryError("vacuous pair set: %d of %d pairs are semantically the same" % (n_same, len(cases)))
    jobs = [("enum", c, ctx.rng.randrange(1 << 30)) for c in cases]
    jobs += rand_jobs(ctx, ctx.pick(3000, 20000), ctx.pick([2, 3], [2, 3, 4]))
    triples, rnd = absorb(ctx, jobs, pmap(_work_any, jobs, chunk=256))
    for c in cases[:1] + [c for c in cases if c["ed"] == "swap"][:2]:
        ctx.sample({"x": c["x"], "y": c["y"], "edit": c["ed"], "at": c["at"], "same": c["same"]})
    broken = [t for t in triples if t[2]]
    clean = [t for t in triples if not t[2]]
    xval = ctx.rng.sample(clean, min(len(clean), ctx.pick(4000, 15000))) + broken
    validate_records(ctx, xval + rnd, "trace-validation:enumerated-sample+random-pairs")
    ctx.exhaustive = False
    ctx.rule = ("case = ordered pair of task-object expressions one edit apart (or identical), built as two independent "
                "nodes; non-trivial = the two expressions differ; distinct by (x, y)")
    ctx.extra["pairs_enumerated_by_tlc"] = len(cases)
    ctx.extra["pairs_semantically_same"] = n_same
    ctx.extra["pairs_called_equal_by_dask"] = sum(1 for _c, o, _b in triples if o["eq"] or o["teq"])
    ctx.assumptions = ["two environments (Herbrand + colliding) decide semantic equality of the enumerated expressions",
                       "herbrand.norm is a faithful, injective rendering of Python values"]


def replay(ctx, obj):
    c = obj["case"]
    case = c["case"]
    o = observe(case["x"], case["y"], c.get("seed", 0))
    spec, cfg = ctx.model(ctx.spec("graph", "NodeEqTrace.tla"), {})
    rej = ctx.tlc_validate(spec, [record_of("r0", case, o)], cfg, **TLC_OPTS)
    print("x:", case["x"], "\ny:", case["y"], "\nedit:", case.get("ed"), "at", case.get("at"))
    print("observed:", o)
    print("TLC verdict:", rej or "accepted")
    return bool(rej)


# ---------------------------------------------------------------- binding self-test
def _mini_cases():
    """Fixed pairs with the oracle written out by hand (values under the two environments are not needed for
    the Sound clause; they are computed by the real nodes of the unmutated tree first)."""
    R = lambda k: {"e": "ref", "k": H.norm(k)}
    Q = lambda v: {"e": "quote", "v": H.norm(v)}
    call = lambda f, *xs, **kw: {"e": "call", "f": f, "xs": list(xs), "kw": [[k, v] for k, v in sorted(kw.items())]}
    lst = lambda *xs: {"e": "list", "xs": list(xs)}
    pairs = [
        (call("f", R("a"), R("b")), call("f", R("b"), R("a")), "swap", "call", False),
        (call("f", R("a")), call("g", R("a")), "fn", "call", False),
        (call("f", R("a")), call("f", Q("a")), "unref", "ref", False),
        (call("f", R("a"), p=Q(1)), call("f", R("a"), p=Q(2)), "lit", "quote", False),
        (call("f", R("a"), p=Q(1)), call("f", R("a"), r=Q(1)), "kwname", "call", False),
        (call("f", lst(R("a")), R("b")), call("f", lst(R("b")), R("b")), "ref", "ref", False),
        (call("f", {"e": "dict", "ks": ["p"], "xs": [R("a")]}), call("f", {"e": "dict", "ks": ["r"], "xs": [R("a")]}), "dictkey", "dict", False),
        (call("f", lst(R("a"), Q(1))), call("f", {"e": "tuple", "xs": [R("a"), Q(1)]}), "retype", "list", False),
        (call("f", R("a"), Q(1)), call("f", R("a"), Q(1)), "same", "call", True),
        (call("f", R("c")), call("f", Q(1)), "unref", "ref", False),
    ]
    return [{"x": x, "y": y, "ed": ed, "at": at, "same": same} for x, y, ed, at, same in pairs]


def _mini_run(ctx):
    found = []
    for i, c in enumerate(_mini_cases()):
        o = observe(c["x"], c["y"], i)
        bad = []
        if o["err"]:
            bad.append("Raised")
        if (o["eq"] or o["teq"]) and not c["same"]:
            bad.append("Sound")
        if bad and classify(c, bad) not in ctx.known:
            found.append((c, o, bad))
    return found


def selftest(ctx):
    import dask._task_spec as ts
    import dask.tokenize as tk
    from ..srcmutant import mutant
    ok = True
    base = _mini_run(ctx)
    print("selftest C11: unmutated tree on the mini pair set: %s" % ("clean" if not base else "violations %r" % [classify(c, b) for c, _o, b in base]))
    ok &= not base
    mutants = [
        ("Task._get_token: keyword arguments left out of the token", ts, "Task._get_token",
         "self.kwargs,\n", "", ()),
        ("Task._get_token: the function left out of the token", ts, "Task._get_token",
         "self.func,\n", "", ()),
        ("GraphNode.__eq__: compares types only", ts, "GraphNode.__eq__",
         "return tokenize(self) == tokenize(value)", "return True", ()),
        ("Task._get_token: positional arguments tokenized as a set", ts, "Task._get_token",
         "self.args,\n", "sorted(tokenize(a) for a in self.args),\n", ()),
    ]
    for title, mod, name, old, new, also in mutants:
        with mutant(mod, name, old, new, also=also):
            found = _mini_run(ctx)
        sigs = sorted({classify(c, b) for c, _o, b in found})[:4]
        print("selftest C11 mutant [%s]: %s (%d unsound pairs; e.g. %s)" % (title, "DETECTED" if found else "MISSED", len(found), sigs))
        ok &= bool(found)
    # trace spec: genuine observations accepted, corrupted ones rejected
    good, bad = [], []
    for i, c in enumerate(_mini_cases()):
        o = observe(c["x"], c["y"], i)
        if o["err"] or ((o["eq"] or o["teq"]) and not c["same"]):
            continue
        good.append((c, o))
        if not c["same"]:
            bad.append(("claimed equal", c, dict(o, eq=True)))
            bad.append(("claimed equal tokens", c, dict(o, teq=True)))
        bad.append(("corrupted value", c, dict(o, vx=[o["vx"][1], o["vx"][0]] if o["vx"][0] != o["vx"][1] else [{"t": "lit", "v": 0}] * 2)))
    spec, cfg = ctx.model(ctx.spec("graph", "NodeEqTrace.tla"), {})
    recs = [record_of("g%d" % i, c, o) for i, (c, o) in enumerate(good)] + [record_of("b%d" % i, c, o) for i, (_w, c, o) in enumerate(bad)]
    rej = ctx.tlc_validate(spec, recs, cfg, **TLC_OPTS)
    good_rej = [r for r in rej if r.startswith("g")]
    bad_acc = [bad[i][0] for i in range(len(bad)) if "b%d" % i not in rej]
    print("selftest C11 trace spec: %d genuine records accepted (%d rejected), %d corrupted records rejected (%d accepted %s)"
          % (len(good) - len(good_rej), len(good_rej), len(bad) - len(bad_acc), len(bad_acc), bad_acc[:3]))
    ok &= not good_rej and not bad_acc and len(good) >= 5 and len(bad) >= 8
    print("selftest C11: %s" % ("PASS" if ok else "FAIL"))
    return 0 if ok else 1
