"""C35 - map_blocks, blockwise and gufuncs see correct blocks and block locations.

spec -> code: TLC enumerates (specs/array/MapBlocksMC.tla) cases of three families over every chunking of small
input arrays - map_blocks (second inputs that broadcast by block, drop_axis / new_axis / chunks, block_id / block_info
keyword variants), dask.array.blockwise (index patterns with repeated, contracted and new indices, concatenate,
adjust_chunks) and apply_gufunc (six signatures, loop-dimension broadcasting, allow_rechunk / vectorize) - together
with what specs/array/MapBlocks.tla demands: one call per output block, the exact cells every argument of that call
holds, the block_info it is given, the block it returns, resp. the numpy.vectorize result.  The user function is a
recorder (it logs, under a lock, what it was handed and returns a fixed function of it); every output key is
evaluated ONCE and the event list, the computed blocks and the lazy metadata are compared with the expectation.
NumPy is the reference guard for the gufunc family and for the recorder's own result.
code -> spec: seeded random larger cases (3-d inputs) and a sample of the enumerated ones are written as records and
decided by TLC (MapBlocksTrace.tla)."""
from __future__ import annotations

import itertools
import json
import threading

import numpy as np

from ..core import TLA, MachineryError
from ..par import pmap

META = {
    "title": "map_blocks, blockwise and gufuncs see correct blocks and block locations",
    "design_ref": "DESIGN.md §4.3 C35",
    "technique": "TLA+ semantics of block alignment (over Blockwise.tla), of block_id / block_info and of numpy.vectorize for a signature "
                 "menu; TLC enumerates all chunkings x variants with the expected calls; a recording user function binds the real "
                 "map_blocks / blockwise / apply_gufunc to it (replay + TLC validation of recorded event lists)",
    "level_text": "Small-scope: every chunking of dominant inputs with extents <= 4 (1-d, 2-d), second inputs that are equal, one-block, "
                  "extent-1 or same-count/other-size along each axis, both argument orders; map_blocks with every drop_axis, a new_axis "
                  "menu, chunks given / not given and four keyword variants; blockwise over 18 index patterns (transpose, repeated, "
                  "contracted +/- concatenate, outer, new index, adjust_chunks); apply_gufunc over six signatures with chunked / "
                  "broadcast loop dimensions, vectorize and allow_rechunk.  Case sets are thinned by a seeded hash; random 3-d cases are "
                  "decided by TLC from recorded event lists.",
    "level_note": "Trusted: TLC, the recorder (its own return value is cross-checked against a NumPy evaluation of the case), NumPy as "
                  "guard of the TLA+ gufunc reference.  Not decided: unify_chunks re-alignment of differently chunked inputs "
                  "(align_arrays=True with unequal chunks), unknown chunk sizes, kwargs that are dask collections, map_overlap, "
                  "gufunc axes= / keepdims=.",
}

TLC_OPTS = {"heap": "2g", "env": {"JAVA_TOOL_OPTIONS": "-XX:ParallelGCThreads=2"}}
IDBASE = 100
_LOCK = threading.Lock()


# ---------------------------------------------------------------- inputs
def src_array(i, shape):
    """Input number i (0-based): cell at row-major position p holds IDBASE * i + p."""
    n = int(np.prod(shape)) if len(shape) else 1
    return (np.arange(n, dtype=np.int64) + IDBASE * i).reshape(tuple(shape))


def dask_inputs(case):
    import dask.array as da
    return [da.from_array(src_array(i, a["shape"]), chunks=tuple(tuple(c) for c in a["chunks"])) for i, a in enumerate(case["arrs"])]


def view(a):
    """What one argument of one call looked like (twin of the specification's view record)."""
    dims, blocks = [], []

    def walk(x, depth):
        if isinstance(x, list):
            if len(dims) <= depth:
                dims.append(len(x))
            for y in x:
                walk(y, depth + 1)
        else:
            arr = np.asarray(x)
            blocks.append({"shape": list(arr.shape), "cells": [int(v) for v in arr.ravel()]})
    walk(a, 0)
    return {"dims": dims, "blocks": blocks}


def leaves(a):
    if isinstance(a, list):
        for y in a:
            yield from leaves(y)
    else:
        yield np.asarray(a)


def _proj_info(bi, nargs):
    """block_info -> the record of MapBlocksTrace (every field made JSON / TLC friendly, total)."""
    def loc(v):
        return [[int(a), int(b)] for a, b in v]

    def ints(v):
        return [int(x) for x in v]
    out = {"args": [], "out": {"shape": [], "nch": [], "loc": [], "aloc": [], "cshape": [], "dtk": "?"}, "ok": True}
    try:
        for i in range(nargs):
            d = bi[i]
            out["args"].append({"shape": ints(d["shape"]), "nch": ints(d["num-chunks"]), "loc": ints(d["chunk-location"]),
                                "aloc": loc(d["array-location"])})
        d = bi[None]
        out["out"] = {"shape": ints(d["shape"]), "nch": ints(d["num-chunks"]), "loc": ints(d["chunk-location"]),
                      "aloc": loc(d["array-location"]), "cshape": ints(d["chunk-shape"]), "dtk": np.dtype(d["dtype"]).kind}
    except Exception:  # noqa: BLE001 - a malformed block_info is an observation (INFO fails), not a crash
        out["ok"] = False
    return out


# ---------------------------------------------------------------- the recorder's return value (twin of MbRet / BwCall.ret)
def mb_ret(case, args):
    r = np.asarray(args[case["dom"] - 1])
    for ax in sorted(case["drop"], reverse=True):
        r = r.min(axis=ax)
    for ax in sorted(case["newax"]):
        r = np.expand_dims(r, ax)
        if case["nsz"] > 1:
            r = np.repeat(r, case["nsz"], axis=ax)
    if case["chk"] == "first":
        r = r[(slice(0, 1),) * r.ndim]
    return r


def bw_definer(case, ix):
    """(argument, axis) whose chunks define the output along index ix: the first with the most blocks."""
    best = None
    for i, (a, ind) in enumerate(zip(case["arrs"], case["inds"])):
        for q, name in enumerate(ind):
            if name == ix:
                n = len(a["chunks"][q])
                if best is None or n > best[0]:
                    best = (n, i, q)
    return best[1], best[2]


def bw_ret(case, args):
    mins = [min([int(b.min()) for b in leaves(a) if b.size] or [0]) for a in args]      # ViewMin: 0 for a view without cells
    tag = mins[0] if len(mins) == 1 else mins[0] * 1000 + mins[1]
    shape = []
    newsz = {na["ix"]: na["sz"] for na in case["nax"]}
    for ix in case["oi"]:
        if ix in newsz:
            n = newsz[ix]
        else:
            i, q = bw_definer(case, ix)
            n = next(leaves(args[i])).shape[q]
        if ix in case["adj"]:
            n = {"dbl": 2 * n, "int3": 3, "inc": n + 1}[case["adjk"]]
        shape.append(n)
    return np.full(tuple(shape), tag, dtype=np.int64)


def bw_adjust_arg(case, ix):
    """The adjust_chunks value for index ix: a callable, an integer, or an explicit tuple of block sizes."""
    if case["adjk"] == "dbl":
        return lambda n: 2 * n
    if case["adjk"] == "int3":
        return 3
    newsz = {na["ix"]: na["sz"] for na in case["nax"]}
    if ix in newsz:
        return (newsz[ix] + 1,)
    i, q = bw_definer(case, ix)
    return tuple(c + 1 for c in case["arrs"][i]["chunks"][q])


def make_recorder(case, state):
    """The user function.  Four spellings, because dask decides by the signature whether to pass block_id / block_info."""
    fam = case["fam"]
    nargs = len(case["arrs"])

    def impl(args, block_id, block_info, hasid, hasinfo):
        if state["armed"]:
            ev = {"hasid": hasid, "bid": [int(x) for x in block_id] if hasid and block_id is not None else [],
                  "hasinfo": hasinfo, "info": _proj_info(block_info, nargs) if hasinfo else {"ok": True},
                  "args": [view(a) for a in args]}
            with _LOCK:
                state["events"].append(ev)
        return mb_ret(case, args) if fam == "mb" else bw_ret(case, args)

    def f_none(*args):
        return impl(args, None, None, False, False)

    def f_id(*args, block_id=None):
        return impl(args, block_id, None, True, False)

    def f_info(*args, block_info=None):
        return impl(args, None, block_info, False, True)

    def f_both(*args, block_id=None, block_info=None):
        return impl(args, block_id, block_info, True, True)
    return {"none": f_none, "id": f_id, "info": f_info, "both": f_both}[case.get("kw", "none")]


# ---------------------------------------------------------------- gufunc core functions (the menu of MapBlocks.tla)
def gu_core(sig, K):
    w = lambda v: np.arange(1, len(v) + 1)
    return {
        "s1": ("()->()", lambda x: x + 1),
        "s2": ("(i)->()", lambda v: int((w(v) * v).sum())),
        "s3": ("(i),(i)->()", lambda v, u: int((v * u).sum())),
        "s4": ("(i,j),(j)->(i)", lambda A, b: (A * b[None, :]).sum(axis=1)),
        "s5": ("()->(k)", lambda x: 10 * x + np.arange(K)),
        "s6": ("(i)->(i),()", lambda v: (2 * v + np.arange(len(v)), int(v.sum()))),
    }[sig]


def gu_numpy(case):
    """numpy.vectorize on the unchunked inputs - the reference guard of the TLA+ GuOuts."""
    sig, f = gu_core(case["sig"], case["K"])
    nout = 2 if case["sig"] == "s6" else 1
    vf = np.vectorize(f, signature=sig, otypes=[np.int64] * nout)
    res = vf(*[src_array(i, a["shape"]) for i, a in enumerate(case["arrs"])])
    res = list(res) if nout == 2 else [res]
    return [{"shape": list(np.asarray(r).shape), "cells": [int(v) for v in np.asarray(r).ravel()]} for r in res]


# ---------------------------------------------------------------- running a case on dask
def _compute_blocks(y, sched="sync"):
    """Every output key evaluated ONCE (one get call on the optimized graph): {block index: ndarray}."""
    import dask
    from dask.local import get_sync
    (yo,) = dask.optimize(y)
    keys = list(_flat(yo.__dask_keys__()))
    if sched == "threads":
        from dask.threaded import get as get_threaded
        vals = get_threaded(dict(yo.__dask_graph__()), keys, num_workers=3)
    else:
        vals = get_sync(dict(yo.__dask_graph__()), keys)
    return {tuple(k[1:]): np.asarray(v) for k, v in zip(keys, vals)}


def _flat(keys):
    if isinstance(keys, list):
        for k in keys:
            yield from _flat(k)
    else:
        yield keys


def _lazy(y):
    def num(v):
        try:
            return int(v)
        except (TypeError, ValueError):
            return -1
    return [num(s) for s in y.shape], [[num(c) for c in ax] for ax in y.chunks]


def run_dask(case):
    """obs record of MapBlocksTrace for one case."""
    import dask.array as da
    fam = case["fam"]
    try:
        xs = dask_inputs(case)
        if fam == "gu":
            sig, f = gu_core(case["sig"], case["K"])
            nout = 2 if case["sig"] == "s6" else 1
            func = f if case["vec"] else np.vectorize(f, signature=sig, otypes=[np.int64] * nout)
            kw = {"output_sizes": {"k": case["K"]}} if case["sig"] == "s5" else {}
            res = da.apply_gufunc(func, sig, *xs, vectorize=bool(case["vec"]), allow_rechunk=bool(case["rechunk"]),
                                  output_dtypes=[np.int64] * nout if nout == 2 else np.int64, **kw)
            outs = []
            for y in (res if nout == 2 else [res]):
                lshape, chunks = _lazy(y)
                blocks = _compute_blocks(y)
                nbs = [len(c) for c in chunks]
                ok = set(blocks) == set(itertools.product(*[range(n) for n in nbs])) and all(
                    list(b.shape) == [chunks[d][i] for d, i in enumerate(idx)] for idx, b in blocks.items())
                full = _assemble(blocks, nbs) if set(blocks) == set(itertools.product(*[range(n) for n in nbs])) else np.zeros(0)
                outs.append({"lshape": lshape, "chunks": chunks, "shape": list(full.shape), "cells": [int(v) for v in full.ravel()],
                             "blocksok": bool(ok)})
            return {"raised": "", "outs": outs}
        state = {"armed": False, "events": []}
        func = make_recorder(case, state)
        if fam == "mb":
            kw = {}
            if case["drop"]:
                kw["drop_axis"] = list(case["drop"]) if len(case["drop"]) > 1 else case["drop"][0]
            if case["newax"] and not case.get("infer"):
                kw["new_axis"] = list(case["newax"]) if len(case["newax"]) > 1 else case["newax"][0]
            if case["chk"] != "none":
                kw["chunks"] = mb_chunks_arg(case)
            if case.get("enf"):
                kw["enforce_ndim"] = True
            y = da.map_blocks(func, *xs, dtype=np.int64, **kw)
        else:
            pairs = []
            for x, ind in zip(xs, case["inds"]):
                pairs += [x, tuple(ind)]
            kw = {}
            if case["nax"]:
                kw["new_axes"] = {na["ix"]: na["sz"] for na in case["nax"]}
            if case["adj"]:
                kw["adjust_chunks"] = {ix: bw_adjust_arg(case, ix) for ix in case["adj"]}
            y = da.blockwise(func, tuple(case["oi"]), *pairs, dtype=np.int64, concatenate=True if case["conc"] else None,
                             align_arrays=bool(case.get("align")), **kw)
        lshape, chunks = _lazy(y)
        state["armed"] = True
        blocks = _compute_blocks(y, case.get("sched", "sync"))
        state["armed"] = False
        nbs = [len(c) for c in chunks]
        order = list(itertools.product(*[range(n) for n in nbs]))
        bl = []
        for idx in order:
            b = blocks.get(idx)
            bl.append({"shape": list(b.shape), "cells": [int(v) for v in b.ravel()]} if b is not None else {"shape": [-1], "cells": []})
        if set(blocks) != set(order):
            bl.append({"shape": [-2], "cells": []})          # keys beyond / besides the declared blocks: META / RES fail
        return {"raised": "", "oshape": lshape, "ochunks": chunks, "dtk": np.dtype(y.dtype).kind, "events": state["events"], "blocks": bl}
    except NotImplementedError as ex:
        return {"skip": "NotImplementedError: " + str(ex)[:80]}
    except Exception as ex:  # noqa: BLE001 - every other exception is an observation
        return _raised(fam, type(ex).__name__ + ":" + str(ex)[:160])


def _raised(fam, what):
    if fam == "gu":
        return {"raised": what, "outs": []}
    return {"raised": what, "oshape": [], "ochunks": [], "dtk": "", "events": [], "blocks": []}


def _assemble(blocks, nbs):
    if not nbs:
        return np.asarray(blocks[()])

    def rec(prefix, axis):
        if axis == len(nbs):
            return blocks[tuple(prefix)]
        return np.concatenate([rec(prefix + [i], axis + 1) for i in range(nbs[axis])], axis=axis)
    return rec([], 0)


def mb_out_axes(case):
    nd = max(len(a["shape"]) for a in case["arrs"])
    axes = [("k", f) for f in range(nd) if f not in case["drop"]]
    for p in sorted(case["newax"]):
        axes.insert(p, ("n", -1))
    return axes


def mb_chunks_arg(case):
    """The chunks= argument of map_blocks for chk "same" (the expected chunks, spelled out) or "first" (all ones)."""
    axes = mb_out_axes(case)
    if case["chk"] == "first":
        return (1,) * len(axes)
    dom = case["arrs"][case["dom"] - 1]
    return tuple((case["nsz"],) if t == "n" else tuple(dom["chunks"][f]) for t, f in axes)


# ---------------------------------------------------------------- judging against the TLC export (spec -> code)
def judge(case, exp, obs):
    """Clauses of MapBlocksTrace.Bad, decided from the expectation TLC exported for the case."""
    if not exp["ok"] and not exp["soft"]:
        return ["NA"]
    if not exp["ok"] and obs["raised"]:
        return ["NA"]          # documented chunking precondition, refused by dask
    if obs["raised"]:
        return ["RZ"]
    bad = []
    if case["fam"] == "gu":
        outs = obs["outs"]
        if len(outs) != len(exp["outs"]) or any(o["shape"] != list(e["shape"]) or o["cells"] != list(e["cells"]) for o, e in zip(outs, exp["outs"])):
            bad.append("GV")
        if any(o["lshape"] != o["shape"] or [sum(c) for c in o["chunks"]] != o["shape"] or not o["blocksok"] for o in outs):
            bad.append("GM")
        return bad
    calls = exp["calls"]
    evs = obs["events"]
    key = lambda args: json.dumps(args, sort_keys=True)
    want, got = {}, {}
    for c in calls:
        want[key(c["args"])] = want.get(key(c["args"]), 0) + 1
    for e in evs:
        got[key(e["args"])] = got.get(key(e["args"]), 0) + 1
    if len(evs) != len(calls) or any(got.get(k, 0) != n for k, n in want.items()):
        bad.append("ONCE")
    bybid = {tuple(c["bid"]): c for c in calls}
    if any(e["hasid"] and (tuple(e["bid"]) not in bybid or e["args"] != bybid[tuple(e["bid"])]["args"]) for e in evs):
        bad.append("ARGS")
    if not all(_info_ok(case, bybid, obs, e) for e in evs if e["hasinfo"]):
        bad.append("INFO")
    nbs = [len(c) for c in obs["ochunks"]]
    if nbs != list(exp["onb"]) or len(obs["blocks"]) != len(calls) or any(
            b["shape"] != list(c["ret"]["shape"]) or b["cells"] != list(c["ret"]["cells"]) for b, c in zip(obs["blocks"], calls)):
        bad.append("RES")
    order = list(itertools.product(*[range(n) for n in nbs]))
    if (obs["oshape"] != [sum(c) for c in obs["ochunks"]] or obs["dtk"] != "i" or len(obs["blocks"]) != len(order)
            or any(b["shape"] != [obs["ochunks"][d][i] for d, i in enumerate(idx)] for b, idx in zip(obs["blocks"], order))):
        bad.append("META")
    return bad


def _info_ok(case, bybid, obs, ev):
    inf = ev["info"]
    if not inf.get("ok", False):
        return False
    bid = tuple(inf["out"]["loc"])
    if bid not in bybid or (ev["hasid"] and tuple(ev["bid"]) != bid):
        return False
    call = bybid[bid]
    if ev["args"] != call["args"] or len(inf["args"]) != len(case["arrs"]):
        return False
    nd = max(len(a["shape"]) for a in case["arrs"])
    for i, a in enumerate(case["arrs"]):
        ia = inf["args"][i]
        if ia["shape"] != list(a["shape"]) or ia["loc"] != list(call["locs"][i]) or ia["aloc"] != [list(x) for x in call["regs"][i]]:
            return False
        if len(ia["nch"]) != len(a["shape"]):
            return False
        for o in range(len(a["shape"])):
            if (o + nd - len(a["shape"])) not in case["drop"] and ia["nch"][o] != len(a["chunks"][o]):
                return False
    oc = obs["ochunks"]
    out = inf["out"]
    if out["shape"] != obs["oshape"] or out["nch"] != [len(c) for c in oc] or len(bid) != len(oc) or any(b >= len(c) for b, c in zip(bid, oc)):
        return False
    aloc = [[sum(c[:b]), sum(c[:b]) + c[b]] for b, c in zip(bid, oc)]
    return out["aloc"] == aloc and out["cshape"] == [c[b] for b, c in zip(bid, oc)] and out["dtk"] == obs["dtk"]


def guard(case, exp):
    """Reference guard: the TLA+ expectation against NumPy evaluated on the unchunked case.  A disagreement is a
    machinery error, never a verdict on dask."""
    if not exp["ok"] and not exp["soft"]:
        return None
    if case["fam"] == "gu":
        ref = gu_numpy(case)
        got = [{"shape": list(e["shape"]), "cells": list(e["cells"])} for e in exp["outs"]]
        return None if ref == got else "numpy.vectorize %r vs specification %r" % (ref, got)
    # map_blocks / blockwise: re-derive every expected call from the NumPy source arrays
    srcs = [src_array(i, a["shape"]) for i, a in enumerate(case["arrs"])]
    for call in exp["calls"]:
        args = []
        for i, v in enumerate(call["args"]):
            cells = {c for b in v["blocks"] for c in b["cells"]}
            if not cells <= set(int(x) for x in srcs[i].ravel()):
                return "a view of argument %d holds cells that input does not have" % i
            if case["fam"] == "mb":
                reg = call["regs"][i]
                blk = srcs[i][tuple(slice(a, b) for a, b in reg)]
                if list(blk.shape) != list(v["blocks"][0]["shape"]) or [int(x) for x in blk.ravel()] != list(v["blocks"][0]["cells"]):
                    return "view of argument %d is not the region block_info names" % i
                args.append(blk)
            else:
                args.append(_rebuild(v))
        r = mb_ret(case, args) if case["fam"] == "mb" else bw_ret(case, args)
        if list(r.shape) != list(call["ret"]["shape"]) or [int(x) for x in r.ravel()] != list(call["ret"]["cells"]):
            return "recorder returns %r %r for block %r, specification %r" % (r.shape, r.ravel().tolist(), call["bid"], call["ret"])
    return None


def _rebuild(v):
    """view -> nested lists of ndarrays (inverse of view)."""
    blocks = [np.array(b["cells"], dtype=np.int64).reshape(tuple(b["shape"])) for b in v["blocks"]]
    if not v["dims"]:
        return blocks[0]
    it = iter(blocks)

    def rec(level):
        if level == len(v["dims"]):
            return next(it)
        return [rec(level + 1) for _ in range(v["dims"][level])]
    return rec(0)


# ---------------------------------------------------------------- signatures
def features(case):
    fam = case["fam"]
    fs = []
    if fam == "mb":
        if case["drop"]:
            fs.append("drop_axis")
        if case["newax"]:
            fs.append("new_axis")
        if case["chk"] != "none":
            fs.append("chunks")
        if len(case["arrs"]) > 1:
            nd = max(len(a["shape"]) for a in case["arrs"])
            if any(len(a["shape"]) < nd for a in case["arrs"]):
                fs.append("lower-rank")
            elif any(len(c) == 1 for a in case["arrs"] for c in a["chunks"]):
                fs.append("one-block-broadcast")
            else:
                fs.append("two-inputs")
        fs.append("kw=" + case["kw"])
        if case.get("enf"):
            fs.append("enforce_ndim")
        if case.get("infer"):
            fs.append("inferred-new_axis")
    elif fam == "bw":
        oi = set(case["oi"])
        if any(ix not in oi for ind in case["inds"] for ix in ind):
            fs.append("concatenate" if case["conc"] else "contraction")
        if any(len(set(ind)) < len(ind) for ind in case["inds"]):
            fs.append("repeated-index")
        if case["nax"]:
            fs.append("new-index")
        if case["adj"]:
            fs.append("adjust_chunks=" + case["adjk"])
        if len(case["arrs"]) > 1:
            fs.append("two-inputs")
        if case.get("align"):
            fs.append("align_arrays")
    else:
        fs.append(case["sig"])
        if case["rechunk"]:
            fs.append("allow_rechunk")
        if case["vec"]:
            fs.append("vectorize")
    return fs


def classify(case, clause):
    return "%s:%s:%s" % (case["fam"], clause, "+".join(features(case)) or "plain")


CLAUSES = {
    "RZ": "dask raised on a case inside the documented domain",
    "ONCE": "the user function was not called exactly once per output block with the aligned argument blocks",
    "ARGS": "the call for a block id was handed other blocks than the alignment rule says",
    "INFO": "block_info does not give the true chunk / array location of an input or of the output block",
    "RES": "a computed output block is not what the call for that block returned",
    "META": "lazy shape / chunks / dtype disagree with the computed blocks",
    "GV": "apply_gufunc differs from numpy.vectorize with the same signature",
    "GM": "apply_gufunc metadata (shape / chunks) disagrees with the computed blocks",
}


# ---------------------------------------------------------------- replay of enumerated cases
def _work(item):
    case, exp = item
    g = guard(case, exp)
    if g:
        return ("GUARD", g, None)
    obs = run_dask(case)
    if "skip" in obs:
        return ("SKIP", obs["skip"], None)
    return ("OK", judge(case, exp, obs), obs)


def _variant(rng, case):
    """Harness-side variants the specification does not distinguish: enforce_ndim (map_blocks) and the scheduler
    that evaluates the keys (the event list is compared as a multiset)."""
    case = dict(case)
    if case["fam"] == "mb":
        case["enf"] = rng.random() < 0.25
        # "If chunks is specified but new_axis is not, then it is inferred to add the necessary number of axes on the left"
        case["infer"] = case["newax"] == [0] and case["chk"] == "same" and rng.random() < 0.5
    if case["fam"] == "bw":
        # align_arrays=True (the default) re-chunks inputs to common chunks: used only where that is the identity, i.e. all
        # axes that carry an index have the same chunks (unify_chunks also decides which axis defines the output chunks
        # when extents differ; that is outside this specification)
        byix = {}
        for a, ind in zip(case["arrs"], case["inds"]):
            for q, ix in enumerate(ind):
                byix.setdefault(ix, set()).add(tuple(a["chunks"][q]))
        nozero = all(c > 0 for a in case["arrs"] for ch in a["chunks"] for c in ch)       # (unify_chunks merges empty chunks away)
        case["align"] = nozero and all(len(v) == 1 for v in byix.values()) and rng.random() < 0.5
    if case["fam"] != "gu":
        case["sched"] = "threads" if rng.random() < 0.1 else "sync"
    return case


def _nontrivial(case, exp):
    if case["fam"] == "gu":
        return (exp["ok"] or exp["soft"]) and any(len(c) > 1 for a in case["arrs"] for c in a["chunks"])
    if not exp["ok"]:
        return False
    return len(exp["calls"]) > 1


def replay_cases(ctx, cases, keep):
    kept, broken = [], []
    items = [(_variant(ctx.rng, c["c"]), c["e"]) for c in cases]
    for (case, exp), (tag, res, obs) in zip(items, pmap(_work, items, chunk=32, always=True)):
        if tag == "GUARD":
            raise MachineryError("TLA+ reference disagrees with NumPy on %r: %s" % (case, res))
        if tag == "SKIP":
            ctx.skip(res)
            continue
        if res == ["NA"]:
            ctx.skip("case outside the specified domain (documented precondition)")
            continue
        ctx.count(case, _nontrivial(case, exp))
        if res:
            broken.append((case, obs, res))
            for cl in res:
                ctx.violation(classify(case, cl), "%s: %s" % (cl, CLAUSES[cl]), {"case": case, "clauses": res, "raised": obs.get("raised", "")})
        elif len(kept) < keep and ctx.rng.random() < 0.15:
            kept.append((case, obs, []))
    return kept, broken


def _clauses_of(text):
    return sorted(c for c in list(CLAUSES) + ["NA"] if '"%s"' % c in text)


def validate_records(ctx, triples, label, report=True):
    """code -> spec: TLC decides every record; where the Python judge already gave a verdict the two must agree."""
    if not triples:
        return {}
    spec, cfg = ctx.model(ctx.spec("array", "MapBlocksTrace.tla"), {})
    recs = [{"id": "r%d" % i, "c": t[0], "obs": t[1]} for i, t in enumerate(triples)]
    rejected = {}
    for lo in range(0, len(recs), 6000):
        rejected.update(ctx.tlc_validate(spec, recs[lo:lo + 6000], cfg, label=label, timeout=2400, **TLC_OPTS))
    out = {}
    for i, (case, obs, pyc) in enumerate(triples):
        rid = "r%d" % i
        tl = _clauses_of(rejected[rid][0]) if rid in rejected else []
        if pyc is not None and sorted(pyc) != tl:
            raise MachineryError("Python judge %r and TLC %r disagree on record %s" % (pyc, tl, json.dumps(recs[i])[:3000]))
        if tl == ["NA"]:
            if pyc is None:
                ctx.skip("case outside the specified domain (documented precondition)")
            continue
        if tl:
            out[i] = tl
            if pyc is None and report:
                for cl in tl:
                    ctx.violation(classify(case, cl), "%s: %s" % (cl, CLAUSES[cl]), {"case": case, "clauses": tl, "raised": obs.get("raised", "")})
    return out


# ---------------------------------------------------------------- random larger cases (code -> spec)
def _rand_chunks(rng, n, zero=0.0):
    ch, left = [], n
    while left > 0:
        c = rng.randint(1, left)
        ch.append(c)
        left -= c
    if rng.random() < zero:
        ch.insert(rng.randint(0, len(ch)), 0)
    return ch


def _arr(chunks):
    return {"shape": [sum(c) for c in chunks], "chunks": [list(c) for c in chunks]}


def random_case(rng):
    fam = rng.choice(["mb", "mb", "bw", "bw", "gu"])
    nd = rng.choice([2, 3, 3])
    a = _arr([_rand_chunks(rng, rng.randint(1, 4 if nd == 3 else 5), zero=0.0 if fam == "gu" else 0.08) for _ in range(nd)])

    def second(chs):
        out = []
        for ch in chs:
            r = rng.random()
            out.append(list(ch) if r < 0.5 else [sum(ch)] if r < 0.7 else [1] if r < 0.85 else [1] * len(ch))
        return _arr(out)
    if fam == "mb":
        arrs, dom = [a], 1
        if rng.random() < 0.6:
            b = second(a["chunks"][rng.choice([0, 0, 1]):])
            arrs, dom = ([a, b], 1) if rng.random() < 0.6 else ([b, a], 2)
        drop = sorted(rng.sample(range(nd), rng.choice([0, 0, 1, 1, 2])))
        kept = nd - len(drop)
        newax = sorted(rng.sample(range(kept + 2), rng.choice([0, 0, 1, 2])))
        newax = [p for k, p in enumerate(newax) if p <= kept + k]
        chk = rng.choice(["none", "none", "same", "first"])
        nsz = 2 if (chk == "same" and newax and rng.random() < 0.5) else 1
        return {"fam": "mb", "arrs": arrs, "dom": dom, "drop": drop, "newax": newax, "nsz": nsz, "chk": chk,
                "kw": rng.choice(["both", "both", "none", "id", "info"])}
    if fam == "bw":
        letters = ["i", "j", "k"][:nd]
        ia = list(letters)
        arrs, inds = [a], [ia]
        if rng.random() < 0.6:
            nb = rng.choice([1, 2, nd])
            ib = rng.sample(letters + ["l"], nb)
            chs = []
            for ix in ib:
                if ix in ia:
                    ch = a["chunks"][ia.index(ix)]
                    r = rng.random()
                    chs.append(list(ch) if r < 0.6 else [sum(ch)] if r < 0.8 else [1])
                else:
                    chs.append(_rand_chunks(rng, rng.randint(1, 3)))
            arrs.append(_arr(chs))
            inds.append(ib)
        used = sorted({ix for ind in inds for ix in ind})
        oi = [ix for ix in used if rng.random() < 0.7]
        rng.shuffle(oi)
        nax = []
        if rng.random() < 0.25:
            nax = [{"ix": "n", "sz": rng.choice([1, 2])}]
            oi.insert(rng.randint(0, len(oi)), "n")
        conc = any(ix not in oi for ind in inds for ix in ind) and rng.random() < 0.5
        adj = [oi[0]] if oi and rng.random() < 0.3 else []
        return {"fam": "bw", "arrs": arrs, "inds": inds, "oi": oi, "conc": bool(conc), "nax": nax, "adj": adj,
                "adjk": rng.choice(["dbl", "int3", "inc"]) if adj else "dbl"}
    sig = rng.choice(["s1", "s2", "s3", "s4", "s5", "s6"])
    nc1 = {"s1": 0, "s2": 1, "s3": 1, "s4": 2, "s5": 0, "s6": 1}[sig]
    rechunk = rng.random() < 0.4
    chs = [list(c) for c in a["chunks"]]
    if not rechunk or rng.random() < 0.5:
        for d in range(nd - nc1, nd):
            chs[d] = [sum(chs[d])]
    a = _arr(chs)
    arrs = [a]
    if sig in ("s3", "s4"):
        loops = chs[:nd - nc1]
        r = rng.random()
        bl = [list(c) for c in loops] if r < 0.5 else [[1] for _ in loops] if r < 0.7 else [] if r < 0.85 else [list(c) for c in loops[1:]]
        if rechunk and rng.random() < 0.5:
            bl = [_rand_chunks(rng, sum(c)) for c in bl]
        arrs.append(_arr(bl + [list(chs[-1]) if rng.random() < 0.7 or not rechunk else _rand_chunks(rng, sum(chs[-1]))]))
    return {"fam": "gu", "sig": sig, "arrs": arrs, "K": 2, "vec": rng.random() < 0.5, "rechunk": rechunk}


def _observe_item(case):
    return run_dask(case)


# ---------------------------------------------------------------- run / replay / selftest
MC_INVS = ["MbTiles", "ArgsCover", "OneCallPerBlock", "GuSizes"]


def mc_model(ctx, fams, shapes, zshapes, mods):
    tl = lambda ss: TLA("{%s}" % ",".join("<<%s>>" % ",".join(map(str, s)) for s in ss))
    consts = {"Fams": TLA("{%s}" % ",".join('"%s"' % f for f in fams)),
              "Shapes": tl(shapes), "ZeroShapes": tl(zshapes),
              "Mods": TLA("[mb |-> %d, bw |-> %d, gu |-> %d]" % (mods["mb"], mods["bw"], mods["gu"])), "Salt": ctx.seed % 991 + 1}
    return ctx.model(ctx.spec("array", "MapBlocksMC.tla"), consts, invariants=MC_INVS)


def run(ctx):
    import dask.array  # noqa: F401 - imported before the worker processes are forked
    shapes = ctx.pick([(4,), (2, 3), (3, 2)], [(3,), (4,), (2, 3), (3, 2), (2, 2), (1, 4), (4, 2)])
    zshapes = ctx.pick([(3,), (2, 2)], [(3,), (2, 3), (3, 2)])
    mods = ctx.pick({"mb": 30, "bw": 3, "gu": 1}, {"mb": 8, "bw": 1, "gu": 1})
    total = 0
    xval = []
    for fam in ("mb", "bw", "gu"):
        spec, cfg = mc_model(ctx, [fam], shapes, zshapes, mods)
        cases, _r = ctx.tlc_cases(spec, cfg, label="design+cases:%s shapes=%s zero-chunk shapes=%s mod=%d" % (fam, list(shapes), list(zshapes), mods[fam]), timeout=3000, **TLC_OPTS)
        total += len(cases)
        kept, broken = replay_cases(ctx, cases, keep=ctx.pick(150, 1500))
        ctx.sample({"case": cases[0]["c"], "expected": cases[0]["e"]})
        xval += kept + broken[:ctx.pick(60, 600)]
        del cases
    rnd = [_variant(ctx.rng, random_case(ctx.rng)) for _ in range(ctx.pick(1000, 10000))]
    triples = []
    for case, obs in zip(rnd, pmap(_observe_item, rnd, chunk=32, always=True)):
        if "skip" in obs:
            ctx.skip(obs["skip"])
            continue
        ctx.count(case, True)
        triples.append((case, obs, None))
    validate_records(ctx, xval + triples, "trace-validation:enumerated-sample+random-cases")
    if triples:
        ctx.sample({"recorded_random_case": triples[-1][0]})
    ctx.exhaustive = False
    ctx.rule = ("case = (family, input shapes and chunkings, alignment / drop_axis / new_axis / chunks / keyword / signature variant); one "
                "evaluation = one graph built and all of its output keys computed once with the recording function; non-trivial = more "
                "than one output block (map_blocks, blockwise) resp. a chunked input (gufunc); distinct by case")
    ctx.extra["cases_enumerated_by_tlc"] = total
    ctx.assumptions = ["TLC evaluates the reference correctly (guarded by NumPy on every enumerated case)",
                       "the recording function is faithful (its return value is re-derived with NumPy from the expected calls)",
                       "extents, ranks, the pattern / signature menus and the hashed thinning are bounded as listed in tlc_runs"]


def replay(ctx, obj):
    case = obj["case"]["case"]
    obs = run_dask(case)
    spec, cfg = ctx.model(ctx.spec("array", "MapBlocksTrace.tla"), {})
    rej = ctx.tlc_validate(spec, [{"id": "r0", "c": case, "obs": obs}], cfg, **TLC_OPTS)
    print("case:", json.dumps(case))
    print("observed:", json.dumps(obs)[:3000])
    print("TLC verdict:", rej or "accepted")
    return bool(rej) and _clauses_of(rej["r0"][0]) != ["NA"]


def _mini_cases():
    A = lambda *chunks: _arr([list(c) for c in chunks])
    mb = lambda arrs, dom=1, drop=(), newax=(), nsz=1, chk="none", kw="both": {
        "fam": "mb", "arrs": arrs, "dom": dom, "drop": list(drop), "newax": list(newax), "nsz": nsz, "chk": chk, "kw": kw}
    bw = lambda arrs, inds, oi, conc=False, nax=(), adj=(), adjk="dbl": {
        "fam": "bw", "arrs": arrs, "inds": [list(i) for i in inds], "oi": list(oi), "conc": conc, "nax": list(nax), "adj": list(adj),
        "adjk": adjk}
    gu = lambda sig, arrs, vec=False, re=False: {"fam": "gu", "sig": sig, "arrs": arrs, "K": 2, "vec": vec, "rechunk": re}
    return [
        mb([A((1, 2), (2, 1))]), mb([A((1, 2), (2, 1)), A((3,), (2, 1))]), mb([A((2, 1),), A((1, 2), (2, 1))], dom=2),
        mb([A((1, 2), (2, 1))], drop=(1,), newax=(0,)), mb([A((1, 2), (2, 1)), A((2, 1),)], drop=(0,), kw="info"),
        mb([A((1, 1, 2),)], newax=(1,), nsz=2, chk="same", kw="id"), mb([A((2, 2), (1, 2))], chk="first"),
        mb([A((1, 2), (2, 1))], newax=(0, 2), kw="both"),
        bw([A((1, 2), (2, 1))], ["ij"], "ji"), bw([A((1, 2), (2, 1)), A((2, 1), (1, 1))], ["ij", "jk"], "ik", conc=True),
        bw([A((1, 2), (2, 1)), A((2, 1),)], ["ij", "j"], "i"), bw([A((1, 2),)], ["i"], "ni", nax=[{"ix": "n", "sz": 2}], adj=["i"]),
        bw([A((2, 1), (2, 1))], ["ii"], "i", adj=["i"], adjk="inc"), bw([A((2, 1), (1, 2))], ["ij"], "ij", adj=["i"], adjk="int3"),
        gu("s2", [A((1, 2), (3,))]), gu("s3", [A((1, 2), (3,)), A((1,), (3,))], vec=True), gu("s4", [A((2,), (2,), (3,)), A((3,),)]),
        gu("s6", [A((2, 1), (2,))]), gu("s3", [A((1, 2), (2,), (3,)), A((2,), (3,))]), gu("s5", [A((1, 1, 1),)], vec=True), gu("s2", [A((2,), (1, 2))], re=True),
    ]


def selftest(ctx):
    import dask.array.core as dac
    import importlib
    import dask.blockwise as bw
    dag = importlib.import_module("dask.array.gufunc")      # (dask.array.gufunc the attribute is the class)
    from ..srcmutant import mutant
    ok = True
    mutants = [
        ("_get_coord_mapping: one-block axes no longer broadcast to block 0", bw, "_get_coord_mapping",
         "zero_pos[i] if nb == 1 else index_pos[i]", "index_pos[i]", {"RZ", "ONCE", "ARGS"}),
        ("_make_blockwise_graph: coordinates of the second argument are taken from the first", bw, "_make_blockwise_graph",
         "arg_coords = tuple(coords[c] for c in cmap)", "arg_coords = tuple(coords[c] for c in coord_maps[0])[:len(cmap)] if len(coord_maps[0] or ()) >= len(cmap) else tuple(coords[c] for c in cmap)",
         {"RZ", "ONCE", "ARGS", "RES"}),
        ("map_blocks: array-location of an input is one cell late", dac, "map_blocks",
         "(starts[i][ij][j], starts[i][ij][j + 1])", "(starts[i][ij][j] + (1 if j > 0 else 0), starts[i][ij][j + 1])", {"INFO"}),
        ("map_blocks: chunk-location of a broadcast input follows the output block", dac, "map_blocks",
         "location.get(ind, 0) if num_chunks[i][j] > 1 else 0", "location.get(ind, 0)", {"INFO", "RZ"}),
        ("map_blocks: new axes are inserted in descending order", dac, "map_blocks",
         "for ax in sorted(new_axis):", "for ax in sorted(new_axis, reverse=True):", {"RES", "META", "RZ", "INFO", "ONCE"}),
        ("apply_gufunc: loop dimensions of the inputs are aligned left instead of right", dag, "apply_gufunc",
         'tuple(f"__loopdim{d}__" for d in range(max_loopdims - n, max_loopdims))', 'tuple(f"__loopdim{d}__" for d in range(0, n))', {"GV", "RZ", "GM"}),
    ]
    good = [(c, run_dask(c), None) for c in _mini_cases()]
    batches = [("base", good)]
    import dask.array as da
    for title, mod, name, old, new, _e in mutants:
        with mutant(mod, name, old, new, also=[(da, name)] if hasattr(da, name) and mod is not bw else ()):
            batches.append((title, [(c, run_dask(c), None) for c in _mini_cases()]))
    bad = []
    for case, obs, _ in good:
        if case["fam"] == "gu":
            o = json.loads(json.dumps(obs))
            o["outs"][0]["cells"][-1] += 1
            bad.append(("corrupted gufunc value", "GV", (case, o, None)))
            continue
        o = json.loads(json.dumps(obs))
        o["events"] = o["events"][1:]
        bad.append(("dropped call event", "ONCE", (case, o, None)))
        o = json.loads(json.dumps(obs))
        o["events"].append(o["events"][0])
        bad.append(("duplicated call event", "ONCE", (case, o, None)))
        o = json.loads(json.dumps(obs))
        o["blocks"][0]["cells"][0] += 1
        bad.append(("corrupted computed block", "RES", (case, o, None)))
        infos = [e for e in o["events"] if e["hasinfo"]]
        if infos:
            o = json.loads(json.dumps(obs))
            e = [e for e in o["events"] if e["hasinfo"]][-1]
            e["info"]["args"][0]["aloc"][0][0] += 1
            bad.append(("corrupted array-location", "INFO", (case, o, None)))
    batches.append(("corrupted", [b[2] for b in bad]))
    flat = [t for _, recs in batches for t in recs]
    rej_all = validate_records(ctx, flat, "selftest:all-records", report=False)
    off, per = 0, []
    for _t, recs in batches:
        per.append({i - off: cl for i, cl in rej_all.items() if off <= i < off + len(recs)})
        off += len(recs)
    print("selftest C35: unmutated tree on the mini case set (%d records): %s" % (len(good), "clean" if not per[0] else "rejected %s" % per[0]))
    ok &= not per[0]
    for (title, _m, _n, _o, _w, expect), (_t, recs), rej in zip(mutants, batches[1:], per[1:]):
        seen = sorted({c for cl in rej.values() for c in cl})
        hit = bool(rej) and bool(set(seen) & expect)
        sigs = sorted({classify(recs[i][0], c) for i, cl in rej.items() for c in cl})[:2]
        print("selftest C35 mutant [%s]: %s (%d of %d records rejected, clauses %s; e.g. %s)"
              % (title, "DETECTED" if hit else "MISSED", len(rej), len(recs), seen, sigs))
        ok &= bool(hit)
    rej = per[-1]
    missed = [bad[i][0] for i in range(len(bad)) if bad[i][1] not in rej.get(i, [])]
    print("selftest C35 trace spec: %d genuine records accepted, %d corrupted records rejected with the expected clause (%d missed %s)"
          % (len(good), len(bad) - len(missed), len(missed), sorted(set(missed))[:3]))
    ok &= not missed and len(bad) > 8
    print("selftest C35: %s" % ("PASS" if ok else "FAIL"))
    return 0 if ok else 1
