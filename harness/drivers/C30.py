"""C30 - the array expression engine preserves array semantics.

specs/array/ArrayExpr.tla gives the reference semantics of pipelines over the operations the
expression engine implements; TLC enumerates every pipeline up to a depth bound over small
shapes under all chunkings and exports the expected result.  Each case is executed in SEPARATE
interpreters - one started with array.query-planning enabled, one with the classic engine - by
harness/exprworker.py; the expression engine's observation (every block through its own key)
must equal the reference, and its chunks must equal the classic engine's.  Deeper seeded-random
pipelines on larger arrays are recorded under the expression engine and decided by TLC
(ArrayExprTrace.tla).  NumPy (run in the worker) is the reference guard."""
from __future__ import annotations

import json
import os
import random
import subprocess
import sys

from ..core import REPO, ROOT, TLA, MachineryError

META = {
    "title": "The array expression engine preserves array semantics",
    "design_ref": "DESIGN.md §4.3 C30",
    "technique": "TLA+ reference semantics of array pipelines; TLC enumerates all pipelines of bounded depth x chunkings; replay in "
                 "separate interpreters with and without array.query-planning; recorded random pipelines validated by TLC",
    "level_text": "Every pipeline of <= 2 operations (thorough 3 on the small shape) from {basic slice, elementwise with constant / with "
                  "itself / with a reversed copy, sum/max over each axis, transpose (reversal and every permutation), rechunk, concatenate (of equal and of differently chunked inputs), stack, map_blocks} over the "
                  "source arrays of shapes (2,3) and (4,) under ALL chunkings: the expression engine's shape, per-block shapes, content "
                  "and rechunk targets must equal the TLA+ reference, its chunks the classic engine's. Seeded random pipelines of depth "
                  "3-5 on shapes up to (5,4,3) are decided by TLC.",
    "level_note": "Trusted: TLC; the worker's block-assembly projection; NumPy as reference guard (a TLA+/NumPy disagreement is a "
                  "machinery error). Only operations the expression engine implements are generated (the others raise "
                  "NotImplementedError/AttributeError and are outside the statement).",
}

NONE = 99


def run_workers(ctx, cases, expr, nproc=7):
    """Split the cases over `nproc` fresh interpreters; returns {id: result}."""
    if not cases:
        return {}
    nproc = max(1, min(nproc, len(cases) // 50 + 1))
    procs = []
    for i in range(nproc):
        part = cases[i::nproc]
        inp = os.path.join(ctx.scratch, "expr-in-%d-%d-%d.json" % (expr, i, len(ctx.tlc_runs)))
        outp = inp.replace("-in-", "-out-")
        with open(inp, "w") as f:
            json.dump(part, f)
        env = dict(os.environ)
        env["PYTHONPATH"] = os.pathsep.join([ROOT, REPO])
        env.pop("DASK_ARRAY__QUERY_PLANNING", None)
        if expr:
            env["DASK_ARRAY__QUERY_PLANNING"] = "True"
        p = subprocess.Popen([sys.executable, "-m", "harness.exprworker", inp, outp], env=env, cwd=ROOT,
                             stdout=subprocess.PIPE, stderr=subprocess.PIPE, text=True)
        procs.append((p, outp))
    out = {}
    for p, outp in procs:
        so, se = p.communicate(timeout=3000)
        if p.returncode != 0 or not os.path.exists(outp):
            raise MachineryError("expression-engine worker failed (rc=%s): %s" % (p.returncode, se[-1500:]))
        data = json.load(open(outp))
        if data["expr"] != bool(expr):
            raise MachineryError("worker started with the wrong engine (expr=%s)" % data["expr"])
        for r in data["results"]:
            out[r["id"]] = r
    return out


def classify(case, clause, obs=None):
    """Signature = failing clause + (for a raise) exception type and the head of its message, else the set of
    operation kinds in the pipeline - not their order or parameters."""
    if clause == "UnexpectedRaise" and obs:
        msg = "".join(ch for ch in obs.get("msg", "")[:48] if ch.isalnum() or ch in " _'")
        return "%s:%s:%s" % (clause, obs.get("raised"), msg.strip())
    return "%s:%s" % (clause, "+".join(sorted({o["op"] for o in case["pipe"]})))


def judge(case, exp, e, c):
    """e / c: worker results of the expression / classic engine.  Returns clause or None."""
    obs = e["obs"]
    if "skip" in obs:
        return "SKIP"
    if not exp["ok"]:
        return None if obs["raised"] else "ErrorExpected"
    if obs["raised"]:
        return "UnexpectedRaise"
    if obs["cshape"] != list(exp["shape"]):
        return "Shape"
    if obs["cells"] != list(exp["cells"]):
        return "Content"
    if not obs["blocksok"] or len(obs["chunks"]) != len(obs["cshape"]):
        return "Meta"
    for a, ch in enumerate(obs["chunks"]):
        if all(x >= 0 for x in ch) and (sum(ch) != obs["cshape"][a] or obs["lshape"][a] != obs["cshape"][a]):
            return "Meta"
    empty = bool(exp["shape"]) and all(s == 0 for s in exp["shape"])      # dask does not rechunk such arrays
    if exp["tgt"] and not empty and obs["chunks"] != [list(t) for t in exp["tgt"]]:
        return "RechunkTarget"
    cobs = c["obs"] if c else None
    if cobs and not cobs.get("raised") and "skip" not in cobs and cobs["cells"] == obs["cells"] and cobs["chunks"] != obs["chunks"]:
        return "ChunksDifferFromClassic"
    return None


def random_cases(rng, n):
    out = []
    for i in range(n):
        nd = rng.choice([1, 2, 2, 3])
        shape = [rng.randint(1, 5) for _ in range(nd)]
        if nd == 3:
            shape = [min(s, 4) for s in shape]
        chunks = []
        for s in shape:
            ch, left = [], s
            while left > 0:
                c = rng.randint(1, left)
                ch.append(c)
                left -= c
            chunks.append(ch)
        pipe, cur = [], list(shape)
        for _ in range(rng.randint(3, 5)):
            choices = ["addk", "mulk", "neg", "mapb", "addself", "T", "rechunk", "slice", "slice"]
            if len(cur) >= 1:
                choices += ["addrev", "concat", "concatr", "sum", "max"]
            if len(cur) >= 2:
                choices += ["perm", "perm"]
            if len(cur) <= 2:
                choices.append("stack")
            op = rng.choice(choices)
            o = {"op": op}
            if op == "addk":
                o["k"] = rng.randint(1, 9)
            elif op == "mulk":
                o["k"] = rng.randint(2, 3)
            elif op == "rechunk":
                o["how"] = rng.choice(["one", "ones", "split1"])
            elif op == "perm":
                axes = list(range(1, len(cur) + 1))
                rng.shuffle(axes)
                o["axes"] = axes
                cur = [cur[a - 1] for a in axes]
            elif op in ("concat", "concatr"):
                if op == "concatr":
                    o["how"] = rng.choice(["ones", "split1", "one"])
                o["axis"] = rng.randint(1, len(cur))
                if cur[o["axis"] - 1] * 2 > 12:
                    continue
                cur[o["axis"] - 1] *= 2
            elif op in ("sum", "max"):
                o["axis"] = rng.randint(0, len(cur))
                if op == "max" and any(s == 0 for s in cur):
                    continue
                cur = [] if o["axis"] == 0 else cur[:o["axis"] - 1] + cur[o["axis"]:]
            elif op == "T":
                cur = cur[::-1]
            elif op == "stack":
                cur = [2] + cur
            elif op == "slice":
                comps, new = [], []
                for s in cur:
                    k = rng.random()
                    if k < 0.15 and s > 0:
                        comps.append({"k": "i", "i": rng.randint(-s, s - 1)})
                    else:
                        a = rng.choice([NONE, NONE, 0, 1, -1, -2])
                        b = rng.choice([NONE, NONE, s, s - 1, -1])
                        st = rng.choice([1, 1, 2, -1, -2])
                        comps.append({"k": "s", "a": a, "b": b, "st": st})
                        new.append(len(range(*slice(None if a == NONE else a, None if b == NONE else b, st).indices(s))))
                o["comps"] = comps
                cur = new
            pipe.append(o)
        if pipe:
            out.append({"id": "r%d" % i, "shape": shape, "chunks": chunks, "pipe": pipe})
    return out


def core(ctx, rng, shapes, depth, cap, nrandom):
    before = len(ctx.violations)
    spec, cfg = ctx.model(ctx.spec("array", "ArrayExprMC.tla"), {"Shapes": TLA(shapes), "Depth": depth},
                          invariants=["CellCountOK", "Involutions", "PermLaws"])
    exported, _ = ctx.tlc_cases(spec, cfg, label="design+pipelines", timeout=1500)
    if len(exported) > cap:
        # strata that a uniform sample would starve are kept whole (up to a third of the cap each): pipelines with two
        # transposition steps (compositions of permutations) and concatenations of differently chunked inputs
        exported.sort(key=lambda x: json.dumps(x["c"], sort_keys=True))
        two_perms = [x for x in exported if sum(o["op"] in ("perm", "T") for o in x["c"]["pipe"]) >= 2]
        concatr = [x for x in exported if any(o["op"] == "concatr" for o in x["c"]["pipe"]) and x not in two_perms]
        keep = []
        for stratum in (two_perms, concatr):
            keep += stratum if len(stratum) <= cap // 3 else rng.sample(stratum, cap // 3)
        kept = {id(x) for x in keep}
        rest = [x for x in exported if id(x) not in kept]
        exported = keep + rng.sample(rest, min(len(rest), max(0, cap - len(keep))))
        ctx.exhaustive = False
    else:
        ctx.exhaustive = True
    cases = []
    for i, x in enumerate(exported):
        c = dict(x["c"])
        c["id"] = "e%d" % i
        cases.append(c)
    expr = run_workers(ctx, cases, True)
    classic = run_workers(ctx, cases, False)
    rewritten = 0
    for x, c in zip(exported, cases):
        e, k = expr[c["id"]], classic[c["id"]]
        ref = e["np"]
        if (ref["raised"] != "") == x["ok"] or (x["ok"] and (ref["cshape"] != list(x["shape"]) or ref["cells"] != list(x["cells"]))):
            raise MachineryError("TLA+ reference disagrees with NumPy on %r: numpy=%r" % (c, ref))
        if e.get("engine", "").find("_array_expr") < 0:
            raise MachineryError("the worker did not run the expression engine: %r" % e.get("engine"))
        rewritten += bool(e.get("rewritten"))
        cl = judge(c, x, e, k)
        if cl == "SKIP":
            ctx.skip(e["obs"]["skip"])
            continue
        ctx.count((c["shape"], c["chunks"], c["pipe"]), x["ok"] and len(x["cells"]) > 0 and len(c["pipe"]) >= 2)
        if cl:
            ctx.violation(classify(c, cl, e["obs"]), "expression engine vs reference: %s %s" % (cl, e["obs"].get("msg", "")),
                          {"case": c, "expected": {k2: x[k2] for k2 in ("ok", "shape", "cells", "tgt")}, "expr": e["obs"], "classic": k["obs"]})
    ctx.extra["pipelines_whose_expression_was_rewritten_by_optimize"] = rewritten
    if cases:
        ctx.sample({"pipeline": cases[len(cases) // 2]["pipe"], "shape": cases[len(cases) // 2]["shape"], "chunks": cases[len(cases) // 2]["chunks"]})
    # code -> spec: deeper random pipelines, decided by TLC
    rc = random_cases(rng, nrandom)
    res = run_workers(ctx, rc, True)
    recs = []
    for c in rc:
        e = res[c["id"]]
        if "skip" in e["obs"]:
            ctx.skip(e["obs"]["skip"])
            continue
        obs = {k2: e["obs"][k2] for k2 in ("raised", "lshape", "chunks", "cshape", "blocksok", "cells")}
        res[c["id"]]["obs"].setdefault("msg", "")
        recs.append({"id": c["id"], "shape": c["shape"], "pipe": c["pipe"], "obs": obs})
        ctx.count(("rnd", c["shape"], c["chunks"], c["pipe"]), True)
    tspec, tcfg = ctx.model(ctx.spec("array", "ArrayExprTrace.tla"), {})
    rej = ctx.tlc_validate(tspec, recs, tcfg, timeout=1500)
    byid = {c["id"]: c for c in rc}
    for rid, clauses in rej.items():
        cl = clauses[0].strip('{} "').split('"')[0]
        ctx.violation(classify(byid[rid], cl, res[rid]["obs"]), "TLC rejects a recorded expression-engine pipeline: %s" % clauses[0],
                      {"case": byid[rid], "expr": res[rid]["obs"]})
    return len(ctx.violations) - before


def run(ctx):
    core(ctx, ctx.rng, ctx.pick("{<<2, 3>>, <<4>>, <<2, 3, 2>>}", "{<<2, 3>>, <<4>>, <<3, 2>>, <<2, 3, 2>>, <<3, 1, 2>>}"), 2, ctx.pick(3000, 60000), ctx.pick(400, 5000))
    ctx.rule = ("case = (shape, chunking, pipeline) enumerated by TLC, executed under both engines in separate interpreters, or a seeded "
                "random deeper pipeline under the expression engine; non-trivial = >= 2 operations and a non-empty result")


def replay(ctx, obj):
    c = obj["case"]["case"]
    c["id"] = "x0"
    e = run_workers(ctx, [c], True)["x0"]
    print(json.dumps(e)[:2000])
    tspec, tcfg = ctx.model(ctx.spec("array", "ArrayExprTrace.tla"), {})
    if "skip" in e["obs"]:
        return False
    obs = {k2: e["obs"][k2] for k2 in ("raised", "lshape", "chunks", "cshape", "blocksok", "cells")}
    rej = ctx.tlc_validate(tspec, [{"id": "x0", "shape": c["shape"], "pipe": c["pipe"], "obs": obs}], tcfg)
    return bool(rej) or obj["signature"].startswith("ChunksDifferFromClassic")


def selftest(ctx):
    """Mutants live in the worker's interpreter: they are injected through an environment variable
    that harness/exprworker_mutants.py (imported by sitecustomize-free means) reads."""
    ok = True
    rng = random.Random(2)
    for name in ("rechunk-noop-by-numblocks", "transpose-block-axes-reversed"):
        os.environ["VERIF_EXPR_MUTANT"] = name
        try:
            n = core(ctx, rng, "{<<2, 3>>}", 2, 900, 60)
        finally:
            os.environ.pop("VERIF_EXPR_MUTANT", None)
        print("mutant %s: %s (%d)" % (name, "DETECTED" if n else "MISSED", n))
        ok &= n > 0
    import glob
    for f in glob.glob(os.path.join(ROOT, "replays", "C30-*.json")):
        os.remove(f)
    return 0 if ok else 1
