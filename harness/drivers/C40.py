"""C40 - sorting, shuffling and de-duplication keep exactly the right rows.

spec -> code: specs/frame/ShuffleMC.tla enumerates frames (every key sequence over {0,1,2,NA}, a second key column,
two index patterns) x operations - shuffle(on), sort_values(by, ascending, na_position), set_index(npartitions |
divisions | sorted), drop_duplicates(subset, keep), unique, nunique - with what the contracts of specs/frame/Shuffle.tla
demand (key classes that must stay together, the sorted key sequence, the rows of every partition under user divisions,
the surviving rows), ALL row partitionings with <= 4 parts, and checks the contracts against a reference hash shuffle and
a transcription of the staged task shuffle.  Every case is crossed (seeded) with a partitioning incl. empty partitions,
npartitions_out, shuffle_method in {tasks, disk}, max_branch=2 (multi-stage task shuffles), ignore_index, split_out /
split_every and the key dtype (int64 / float64 / str / categorical) and run on real dask collections built with EXACTLY
those partitions; every output partition is computed through its own key.  pandas is only the reference guard.
code -> spec: seeded larger frames are recorded and TLC (ShuffleTrace.tla) decides every record; a sample of the
enumerated records goes the same way and must get the verdict the replay judge gave."""
from __future__ import annotations

import math
import re
import warnings

import numpy as np
import pandas as pd

from ..core import MachineryError
from ..divisions import dd, mutate, parts_collection, patched_attr
from ..frameobs import CallTimeout, partitions_of
from ..frames import is_shim_error, split_rows
from ..par import pmap
from ..rowids import ABSENT, NA, NO_PRE, SCALE, apply_pre, cell, pre_relation, split, truthful, unlabel
from .C39 import AnyLayouts, _freeze, _tick, clause_names, guarded, pick_layout

META = {
    "title": "Sorting, shuffling and de-duplication keep exactly the right rows",
    "design_ref": "DESIGN.md §4.4 C40",
    "technique": "TLA+ contracts of shuffle / sort_values / set_index / drop_duplicates / unique / nunique over partitioned frames of "
                 "row ids (Pattern B/C); TLC enumerates key sequences x operations and all row partitionings and checks the contracts "
                 "against a reference hash shuffle and a transcription of the staged task shuffle; replay on real dask collections "
                 "with exactly those partitions; recorded calls decided by TLC",
    "level_text": "Small-scope: TLC enumerates every key sequence over {0,1,2,NA} (quick: all frames with <= 2 rows in all patterns, a "
                  "salted 1/16 hash sample up to 6 rows; thorough: all frames with <= 3 rows, a 1/24 sample up to 8 rows) with a second key column and unique or duplicated index "
                  "labels, for shuffle(on = k | [k, k2] | index), sort_values(by = k | [k, k2], every ascending vector, na_position), "
                  "set_index(k, drop, npartitions | every covering division vector | sorted=True), drop_duplicates(subset, keep), unique, "
                  "nunique, and ALL row partitionings with <= 4 parts incl. empty ones. Each case is replayed on dask under a seeded "
                  "configuration: partitioning, npartitions_out 1..4, shuffle_method in {None, tasks, disk}, max_branch=2 (multi-stage), "
                  "ignore_index, split_out / split_every, key dtype in {int64, float64, str, categorical}; a family of order-free operations "
                  "(drop_duplicates, unique / nunique, shuffle) and sort_values runs on PRE-PARTITIONED sources (shuffle(on=K') / earlier hash "
                  "join on K' / groupby(K').first(split_out) / set_index, then a blockwise step; K' equal to, a proper subset or superset of, "
                  "overlapping or disjoint from the operation's columns), with the expectation of the fresh source. Judged: the row multiset with "
                  "all cells, co-location of equal keys, the number of output partitions, the key order of the concatenated partitions "
                  "(ties in any order), the new index, truthful / user-given divisions, the surviving rows of drop_duplicates, the values "
                  "of unique and nunique, declared npartitions/divisions vs computed partitions, compute() vs the partitions.",
    "level_note": "Trusted: TLC, the TLA+ contracts (the expected key sequences / surviving rows are cross-checked against pandas on every "
                  "replayed case and against pandas' own result for every recorded random case), harness.divisions.parts_collection, the "
                  "cell projection (keys of every dtype are read back as the integers of the specification, divisions as positions), the "
                  "inert pyarrow shim, pandas per-partition kernels. The dask side is a seeded sample of the enumerated space. p2p shuffles "
                  "need `distributed` (absent). set_index on missing keys of non-numeric dtype is a documented NotImplementedError (skipped); "
                  "user divisions / sorted=True are exercised for int / float / str keys only; drop_duplicates(keep=False) is not implemented.",
}

KINDS = ["int", "float", "str", "cat"]


# ----------------------------------------------------------------------------- keys of a dtype <-> integers of the specification
def key_column(vals, kind):
    if kind == "int":
        if any(v == NA for v in vals):
            return np.array([np.nan if v == NA else float(v) for v in vals], dtype="f8")
        return np.array(list(vals), dtype="i8")
    if kind == "float":
        return np.array([np.nan if v == NA else float(v) for v in vals], dtype="f8")
    if kind == "str":
        return pd.Series([None if v == NA else "k%d" % v for v in vals], dtype="str" if len(vals) else "str").values
    return pd.Categorical([None if v == NA else "c%d" % v for v in vals], categories=["c%d" % i for i in range(8)])


def key_label(v, kind):
    return {"int": int(v), "float": float(v), "str": "k%d" % v, "cat": "c%d" % v}[kind]


def decode(x, kind):
    """a key cell of the real frame -> the integer of the specification (NA / ABSENT)."""
    if kind in ("int", "float"):
        return cell(x)
    if x is None or x is pd.NA or (isinstance(x, float) and math.isnan(x)):
        return NA
    m = re.fullmatch(r"[kc](\d+)", str(x))
    return int(m.group(1)) if m else ABSENT


def div_pos(d, kind):
    """a division value -> its position (Shuffle!Pos): 2v for the label v, 2v+1 strictly between v and v+1."""
    if d is None or (isinstance(d, float) and math.isnan(d)) or d is pd.NA:
        return NA
    if kind in ("int", "float"):
        try:
            x = float(d)
        except (TypeError, ValueError):
            return ABSENT
        v = math.floor(x)
        return 2 * v if x == v else 2 * v + 1
    v = decode(d, kind)
    if v not in (ABSENT, NA):
        return 2 * v
    return 2 * sum(1 for i in range(10) if ("k%d" % i) < str(d)) - 1


def frame_of(rows, kind):
    return pd.DataFrame({"rid": np.array([r["rid"] for r in rows], dtype="i8"), "k": key_column([r["k"] for r in rows], kind),
                         "k2": np.array([r["k2"] for r in rows], dtype="i8")},
                        index=pd.Index(np.array([SCALE * r["idx"] for r in rows], dtype="i8")))


def source(rows, kind, layout, key):
    return parts_collection(split_rows(frame_of(rows, kind), layout), None, key=key)


# ----------------------------------------------------------------------------- observation
def project(pdf, kind, newindex):
    """pandas frame -> rows [rid, idx, k, k2]; newindex: the index holds keys (set_index), otherwise the source labels."""
    if isinstance(pdf, pd.Series):
        pdf = pdf.to_frame()
    rid = [cell(v) for v in pdf["rid"].tolist()] if "rid" in pdf.columns else [ABSENT] * len(pdf)
    idx = [decode(v, kind) if newindex else unlabel(cell(v)) for v in pdf.index.tolist()]
    k = [decode(v, kind) for v in pdf["k"].tolist()] if "k" in pdf.columns else [ABSENT] * len(pdf)
    k2 = [cell(v) for v in pdf["k2"].tolist()] if "k2" in pdf.columns else [ABSENT] * len(pdf)
    return [{"rid": rid[i], "idx": idx[i], "k": k[i], "k2": k2[i]} for i in range(len(pdf))]


def observe(y, kind, newindex, whole, keyseq, bagkey=lambda r: (r["rid"], r["k"], r["k2"])):
    declared = int(y.npartitions)
    divs = tuple(y.divisions)
    known = not any(d is None for d in divs)
    parts = [project(p, kind, newindex) for p in partitions_of(y)]
    obs = {"raised": "", "nparts": declared, "ndivs": len(divs), "divs": [div_pos(d, kind) for d in divs] if (known and newindex) else [],
           "parts": parts, "wholeok": True}
    if whole:
        try:
            w = project(y.compute(scheduler="sync"), kind, newindex)
            flat = [r for p in parts for r in p]
            canon = lambda rows: sorted(bagkey(r) for r in rows)       # noqa: E731 - ties may differ between two runs
            obs["wholeok"] = canon(w) == canon(flat) and [keyseq(r) for r in w] == [keyseq(r) for r in flat]
        except Exception as ex:  # noqa: BLE001
            if is_shim_error(ex) or isinstance(ex, (CallTimeout, NotImplementedError)):
                raise
            obs["wholeok"] = False
            obs["wholeraised"] = type(ex).__name__
    return obs


def meth_of(cfg):
    return cfg.get("method") or "disk"


def opts_of(cfg):
    return {"max_branch": cfg["mb"]} if cfg.get("mb") and cfg.get("method") == "tasks" else {}


# ----------------------------------------------------------------------------- running one case on dask
def run_case(case, cfg):
    """-> (obs | {"skip": ..}, strategy)"""
    fam, kind = case["fam"], cfg["kind"]

    def go(note):
        note(meth_of(cfg) + (":staged" if opts_of(cfg) and len(cfg["layout"]) > cfg["mb"] else ""))
        df = source(case["rows"], kind, cfg["layout"], ("S", case, cfg))
        pre = pre_of(case)
        if pre["how"] != "none":
            # the source first goes through a stage that leaves partitioning knowledge behind (same rows)
            df = apply_pre(df, frame_of(case["rows"], kind), pre, {"k": "k", "k2": "k2", "rid": "rid"}, cfg.get("pren"), cfg.get("premethod"),
                           "w", blockwise=cfg.get("blockwise", True))
        if fam == "shuffle":
            kw = {"on_index": True} if case["on"] == "idx" else {"on": "k" if case["on"] == "k" else ["k", "k2"]}
            y = df.shuffle(npartitions=cfg["nout"], ignore_index=cfg["ign"], shuffle_method=cfg["method"], **kw, **opts_of(cfg))
            return observe(y, kind, False, cfg["whole"], lambda r: 0)
        if fam == "sort":
            by = ["k"] if case["by"] == "k" else ["k", "k2"]
            asc = bool(case["asc"][0]) if len(case["asc"]) == 1 and cfg["ascform"] == "bool" else [bool(a) for a in case["asc"]]
            y = df.sort_values(by if len(by) > 1 or cfg["ascform"] == "list" else "k", npartitions=cfg["nout"], ascending=asc,
                               na_position="first" if case["naf"] else "last", ignore_index=cfg["ign"], shuffle_method=cfg["method"], **opts_of(cfg))
            return observe(y, kind, False, cfg["whole"], (lambda r: r["k"]) if case["by"] == "k" else (lambda r: (r["k"], r["k2"])))
        if fam == "setindex":
            if case["how"] == "sorted":
                y = df.set_index("k", drop=bool(case["drop"]), sorted=True)
            elif case["how"] == "user":
                y = df.set_index("k", drop=bool(case["drop"]), divisions=[key_label(d, kind) for d in case["udivs"]],
                                 shuffle_method=cfg["method"], **opts_of(cfg))
            else:
                y = df.set_index("k", drop=bool(case["drop"]), npartitions=cfg["nout"], shuffle_method=cfg["method"], **opts_of(cfg))
            return observe(y, kind, True, cfg["whole"], lambda r: r["idx"])
        if case["op"] == "drop_duplicates":
            subset = {"k": ["k"], "kk": ["k", "k2"], "all": None}[case["subset"]]
            y = df.drop_duplicates(subset=subset, keep=case["keep"], split_out=cfg["split_out"], split_every=cfg["split_every"],
                                   shuffle_method=cfg["method"])
            if pre["how"] != "none":       # which row of a key class survives is free after a pre-stage: two computations may differ in it
                dk = {"k": lambda r: (r["k"],), "kk": lambda r: (r["k"], r["k2"]), "all": lambda r: (r["rid"],)}[case["subset"]]
                return observe(y, kind, False, cfg["whole"], lambda r: 0, bagkey=dk)
            return observe(y, kind, False, cfg["whole"], lambda r: 0)
        # unique + nunique of the key column
        u = df["k"].unique(split_out=cfg["split_out"], split_every=cfg["split_every"], shuffle_method=cfg["method"])
        vals = [decode(v, kind) for p in partitions_of(u) for v in p.tolist()]
        counts = [int(df["k"].nunique(dropna=dn, split_every=cfg["split_every"] or False, split_out=cfg["split_out"]).compute(scheduler="sync"))
                  for dn in (True, False)]
        return {"raised": "", "values": vals, "count": counts, "nparts": int(u.npartitions), "ndivs": len(u.divisions), "divs": [], "parts": [], "wholeok": True}

    return guarded(go)


def pandas_obs(case, kind):
    """pandas' own result as an observation (one partition)."""
    fam = case["fam"]
    pdf = frame_of(case["rows"], kind)
    one = lambda rows: {"raised": "", "nparts": 1, "ndivs": 2, "divs": [], "parts": [rows], "wholeok": True}   # noqa: E731
    if fam == "shuffle":
        return one(project(pdf, kind, False))
    if fam == "sort":
        by = ["k"] if case["by"] == "k" else ["k", "k2"]
        out = pdf.sort_values(by, ascending=[bool(a) for a in case["asc"]], na_position="first" if case["naf"] else "last", kind="stable")
        return one(project(out, kind, False))
    if fam == "setindex":
        out = pdf.set_index("k", drop=bool(case["drop"]))
        if case["how"] != "nosort":
            out = out.sort_index(kind="stable")
        return one(project(out, kind, True))
    if case["op"] == "drop_duplicates":
        subset = {"k": ["k"], "kk": ["k", "k2"], "all": None}[case["subset"]]
        return one(project(pdf.drop_duplicates(subset=subset, keep=case["keep"]), kind, False))
    return {"raised": "", "values": [decode(v, kind) for v in pdf["k"].unique().tolist()],
            "count": [int(pdf["k"].nunique(dropna=True)), int(pdf["k"].nunique(dropna=False))], "nparts": 1, "ndivs": 2, "divs": [], "parts": [], "wholeok": True}


# ----------------------------------------------------------------------------- records and the judge (mirrors Shuffle!*Bad)
def pre_of(case):
    return case.get("pre") or NO_PRE


def op_columns(case):
    """the columns K the judged operation hashes / compares (for the relation of a pre-stage's columns to them)"""
    fam = case["fam"]
    if fam == "shuffle":
        return {"k": ["k"], "kk": ["k", "k2"], "idx": []}[case["on"]]
    if fam == "sort":
        return ["k"] if case["by"] == "k" else ["k", "k2"]
    if fam == "setindex":
        return ["k"]
    return {"k": ["k"], "kk": ["k", "k2"], "all": ["k", "k2", "rid"]}[case["subset"]]


def pre_tag(case):
    pre = pre_of(case)
    return "none" if pre["how"] == "none" else "%s:%s" % (pre["how"], pre_relation(pre, op_columns(case)))


def make_record(rid, case, cfg, obs):
    fam = case["fam"]
    pre = pre_of(case)
    reindexed = pre["how"] in ("merge", "groupby", "setindex")          # the pre-stage replaced the index: it is not judged
    rec = {"id": rid, "rows": case["rows"], "obs": obs, "pre": pre}
    if fam == "shuffle":
        # shuffle(npartitions=None) keeps the partition count of its input - which after a pre-stage is whatever that stage built
        nin = len(obs.get("parts") or [0]) if pre["how"] != "none" else len(cfg["layout"])
        rec.update(op="shuffle", on=case["on"], nout=cfg["nout"] or nin, ign=bool(cfg["ign"] or reindexed))
    elif fam == "sort":
        rec.update(op="sort", by=case["by"], asc=[bool(a) for a in case["asc"]], naf=bool(case["naf"]), ign=bool(cfg["ign"] or reindexed))
    elif fam == "setindex":
        rec.update(op="setindex", drop=bool(case["drop"]), udivs=list(case["udivs"]), sortit=True)
    elif case["op"] == "drop_duplicates":
        rec.update(op="dedup", subset=case["subset"], keep=case["keep"])
    else:
        rec.update(op="unique")
    return rec


def _bag(rows, fields):
    return sorted(tuple(r[f] for f in fields) for r in rows)


def sort_key_fn(asc, naf):
    def cellkey(x, a):
        if x == NA:
            return (0 if naf else 2, 0)
        return (1, x if a else -x)
    return lambda key: tuple(cellkey(x, a) for x, a in zip(key, asc))


def judge(rec, exp):
    """Clauses of Shuffle!<Op>Bad the record violates; exp = what TLC exported for the case (pandas' record is judged alike)."""
    obs, op, src = rec["obs"], rec["op"], rec["rows"]
    if obs["raised"]:
        return ["Raised"]
    bad = []
    flat = [r for p in obs["parts"] for r in p]
    full, noidx = ("rid", "idx", "k", "k2"), ("rid", "k", "k2")
    if op == "shuffle":
        if _bag(flat, noidx if rec["ign"] else full) != _bag(src, noidx if rec["ign"] else full):
            bad.append("Rows")
        skey = {r["rid"]: _sk(r, rec["on"]) for r in src}          # the key a row had in the source
        homes = {}
        for b, p in enumerate(obs["parts"]):
            for r in p:
                if r["rid"] in skey:
                    homes.setdefault(skey[r["rid"]], set()).add(b)
        if any(len(h) > 1 for h in homes.values()):
            bad.append("CoLocated")
        if len(obs["parts"]) != rec["nout"]:
            bad.append("NParts")
    elif op == "sort":
        if _bag(flat, noidx if rec["ign"] else full) != _bag(src, noidx if rec["ign"] else full):
            bad.append("Rows")
        keys = [[r["k"]] if rec["by"] == "k" else [r["k"], r["k2"]] for r in flat]
        if keys != [list(k) for k in exp["keys"]]:
            bad.append("Order")
    elif op == "setindex":
        want = [{"rid": r["rid"], "idx": r["k"], "k": ABSENT if rec["drop"] else r["k"], "k2": r["k2"]} for r in src]
        if _bag(flat, full) != _bag(want, full):
            bad.append("Rows")
        idxs = exp["idxs"] if exp["idxs"] or not src else sorted((r["k"] for r in src))
        if [r["idx"] for r in flat] != list(idxs) or any(r["idx"] == NA for p in obs["parts"][:-1] for r in p):
            bad.append("Order")
        if obs["divs"] and not truthful(obs["divs"], [[2 * r["idx"] for r in p if r["idx"] != NA] for p in obs["parts"]]):
            bad.append("Truthful")
        if rec["udivs"] and obs["divs"] != [2 * d for d in rec["udivs"]]:
            bad.append("UserDivs")
    elif op == "dedup":
        keep = set(exp["rids"])
        if rec["pre"]["how"] != "none":           # the pre-stage destroyed the source order: one row of every key class, whichever
            dk = lambda r: {"k": (r["k"],), "kk": (r["k"], r["k2"]), "all": (r["rid"],)}[rec["subset"]]      # noqa: E731
            cells = {(r["rid"], r["k"], r["k2"]) for r in src}
            ok = all((r["rid"], r["k"], r["k2"]) in cells for r in flat) and len({dk(r) for r in flat}) == len(flat) and \
                {dk(r) for r in flat} == {dk(r) for r in src}
            if not ok:
                bad.append("Rows")
        elif _bag(flat, noidx) != _bag([r for r in src if r["rid"] in keep], noidx):
            bad.append("Rows")
    else:
        if sorted(obs["values"]) != sorted(exp["values"]):
            bad.append("Values")
        if list(obs["count"]) != list(exp["count"]):
            bad.append("Count")
        return bad
    if not (obs["nparts"] == len(obs["parts"]) and obs["ndivs"] == obs["nparts"] + 1):
        bad.append("Meta")
    if not obs["wholeok"]:
        bad.append("WholeOK")
    return bad


def _sk(r, on):
    return (r["k"],) if on == "k" else (r["k"], r["k2"]) if on == "kk" else (r["idx"],)


def tlc_records(rec):
    """The record(s) ShuffleTrace decides: unique / nunique share one dask observation but are two operations."""
    if rec["op"] != "unique":
        return [rec]
    o = rec["obs"]
    if o["raised"]:
        return [dict(rec, op="unique")]
    return [dict(rec, op="unique", obs={"raised": "", "values": o["values"]}),
            dict(rec, id=rec["id"] + "n1", op="nunique", dropna=True, obs={"raised": "", "count": o["count"][0]}),
            dict(rec, id=rec["id"] + "n0", op="nunique", dropna=False, obs={"raised": "", "count": o["count"][1]})]


# ----------------------------------------------------------------------------- configurations
def valid_sorted_layouts(rows, layouts):
    """layouts admissible for set_index(sorted=True): no empty partition, no key on both sides of a boundary."""
    ks = [r["k"] for r in rows]
    out = []
    for lay in layouts:
        parts = split(ks, lay)
        if all(parts) and all(a[-1] < b[0] for a, b in zip(parts, parts[1:])):
            out.append(lay)
    return out


def make_config(rng, layouts, case, kinds=KINDS):
    n = len(case["rows"])
    fam = case["fam"]
    kind = rng.choice(kinds)
    lay = pick_layout(rng, layouts, n)
    cfg = {"kind": kind, "layout": lay, "method": rng.choice([None, "tasks", "tasks", "disk"]), "mb": rng.choice([None, 2, 2]),
           "nout": rng.choice([None, 1, 2, 3, 4]), "ign": False, "whole": rng.random() < 0.34}
    if fam in ("shuffle", "sort"):
        cfg["ign"] = rng.random() < 0.3
        cfg["ascform"] = rng.choice(["bool", "list"])
    if fam == "setindex":
        if case["how"] in ("user", "sorted") and kind == "cat":
            cfg["kind"] = rng.choice(["int", "float", "str"])
        if case["how"] == "user" and cfg["kind"] == "str" and any(d < 0 for d in case["udivs"]):
            cfg["kind"] = rng.choice(["int", "float"])               # there is no string label below "k0"
        if any(r["k"] == NA for r in case["rows"]) and cfg["kind"] in ("str", "cat"):
            # missing labels in a non-numeric index: documented as unsupported by dask (NotImplementedError), and pandas itself
            # sorts a categorical index with missing labels first
            cfg["kind"] = rng.choice(["int", "float"])
        if case["how"] == "sorted":
            ok = valid_sorted_layouts(case["rows"], layouts[n])
            cfg["layout"] = list(rng.choice(ok)) if ok else [n]
    if fam == "dedup":
        # drop_duplicates / unique choose the order-keeping task shuffle themselves; an explicit "disk" opts out of that
        cfg["method"] = rng.choice([None, "tasks"])
        cfg["split_out"] = rng.choice([True, True, 1, 2, 3])
        cfg["split_every"] = rng.choice([None, None, 2])
    if pre_of(case)["how"] != "none":
        # pre-partitioned source: several partitions before and after the stage; the operation mostly with split_out > 1 and the
        # partition count the stage left (where a skipped shuffle goes unnoticed); a blockwise step after the stage keeps the
        # optimizer from simply dropping a shuffle that sits directly below a reduction
        many = [x for x in layouts[n] if len(x) >= 2]
        cfg.update(kind=rng.choice([k for k in kinds if k != "cat"]), layout=list(rng.choice(many)) if many else lay,
                   pren=rng.choice([None, 2, 3, 3]), premethod=rng.choice([None, "tasks", "disk"]), blockwise=rng.random() < 0.8, ign=False)
        if fam == "dedup":
            cfg["split_out"] = rng.choice([True, True, True, 2, 3, 1])
        if fam in ("shuffle", "sort"):
            cfg["nout"] = rng.choice([None, None, 2, 3])
    return cfg


# ----------------------------------------------------------------------------- one work item
def _work(item):
    """(id, case, cfg, expected | None) -> dict(rec | skip | guard, clauses, strategy)."""
    rid, case, cfg, exp = item
    if exp is not None:
        try:
            with warnings.catch_warnings():
                warnings.simplefilter("ignore")
                g = make_record("g" + rid, case, dict(cfg, nout=1, layout=[len(case["rows"])], ign=cfg.get("ign", False)), pandas_obs(case, cfg["kind"]))
        except Exception as ex:  # noqa: BLE001
            return {"guard": "pandas raised %s: %s" % (type(ex).__name__, str(ex)[:120])}
        gbad = [c for c in judge(g, exp) if c not in ("UserDivs",)]      # pandas has no divisions
        if gbad:
            return {"guard": "TLA+ reference and pandas disagree (%s): pandas gives %r" % (gbad, g["obs"])}
    obs, strat = run_case(case, cfg)
    if "skip" in obs:
        return {"skip": obs["skip"]}
    rec = make_record(rid, case, cfg, obs)
    return {"rec": rec, "clauses": judge(rec, exp) if exp is not None else None, "strategy": strat}


# ----------------------------------------------------------------------------- classification
def _presorted_ignoring_na(case, cfg):
    """the non-missing keys of the partitions follow one another (ascending or descending): dask then takes the frame for sorted"""
    parts = [[x for x in p if x != NA] for p in split([r["k"] for r in case["rows"]], cfg["layout"])]
    parts = [p for p in parts if p]
    up = all(max(a) < min(b) for a, b in zip(parts, parts[1:]))
    down = all(min(a) > max(b) for a, b in zip(parts, parts[1:]))
    return len(parts) >= 1 and (up or down)


ROOT_SIGNATURES = {"sort_values:npartitions:count", "sort_values:str:missing-keys:raised:ValueError", "sort_values:str:missing-keys:order",
                   "sort_values:cat:missing-keys:order", "sort_values:partition-of-missing-keys:order",
                   "sort_values:partition-of-missing-keys:raised:IndexError", "sort_values:presorted-apart-from-missing-keys:order",
                   "sort_values:na_position=first:missing-keys:order", "set_index:auto:missing-keys", "set_index:auto:npartitions:count"}


def classify(case, cfg, strategy, clauses, obs):
    """Input class / call site: operation and its mode, the shuffle that ran (disk / tasks / tasks:staged), the key dtype
    class, and which promise is broken."""
    group = ("raised:" + obs["raised"]) if "Raised" in clauses else next(
        (g for c, g in (("Rows", "rows"), ("CoLocated", "colocated"), ("Order", "order"), ("Values", "values"), ("Count", "count"),
                        ("Truthful", "truthful"), ("UserDivs", "userdivs"), ("NParts", "nparts"), ("Meta", "metadata"), ("WholeOK", "whole")) if c in clauses), "other")
    kind = {"int": "num", "float": "num"}.get(cfg["kind"], cfg["kind"])
    fam = case["fam"]
    has_na = any(r["k"] == NA for r in case["rows"])
    if pre_of(case)["how"] != "none":
        plain = classify(dict(case, pre=None), cfg, strategy, clauses, obs)
        if plain in ROOT_SIGNATURES:              # a root cause that does not need the pre-stage
            return plain
        if fam == "sort" and has_na and group in ("order", "whole", "raised:IndexError"):
            # the missing-key root causes of sort_values (a partition holding only missing keys puts NaN among the divisions)
            # seen through a pre-stage: a hash stage on the key co-locates ALL missing keys, any stage re-deals the rows, so
            # which partition holds only missing keys is no longer visible in the case's own layout
            return "sort_values:pre-partitioned:missing-keys:order"
        if fam == "dedup" and group == "metadata" and cfg["split_out"] is not True and cfg["split_out"] > 1:
            return "drop_duplicates:pre-partitioned:split_out:count"
        if fam == "dedup" and group == "metadata" and pre_of(case)["how"] == "shuffle" and not cfg.get("blockwise", True):
            return "drop_duplicates:shuffle-directly-below:count"
        # pre-partitioned source: how the stage's columns relate to the columns of the operation is the input class
        return "%s:pre[%s]:%s:%s" % (famkey(case), pre_tag(case), strategy, group)
    if fam == "shuffle":
        return "shuffle:on=%s:%s:%s:%s" % (case["on"], strategy, kind, group)
    if fam == "sort":
        # input classes behind recorded findings: the first that applies names the violation
        if cfg["nout"] is not None and group == "metadata":
            return "sort_values:npartitions:count"              # the root cause recorded as C41 'set_index:auto:count'
        if kind == "str" and has_na and group == "raised:ValueError":
            return "sort_values:str:missing-keys:raised:ValueError"
        if kind in ("cat", "str") and has_na and group in ("order", "whole"):
            return "sort_values:%s:missing-keys:order" % kind
        if any(p and all(x == NA for x in p) for p in split([r["k"] for r in case["rows"]], cfg["layout"])) and group in ("order", "whole", "raised:IndexError"):
            return "sort_values:partition-of-missing-keys:%s" % ("order" if group != "raised:IndexError" else group)
        # (the presorted root cause first: it is independent of na_position, whose own root cause is fixed in /repo)
        if has_na and group in ("order", "whole") and _presorted_ignoring_na(case, cfg):
            return "sort_values:presorted-apart-from-missing-keys:order"
        if case["naf"] and has_na and group in ("order", "whole"):
            return "sort_values:na_position=first:missing-keys:order"
        return "sort_values:by=%s:%s:%s:%s" % (case["by"], strategy, kind, group)
    if fam == "setindex":
        if case["how"] == "auto" and has_na:
            return "set_index:auto:missing-keys"
        if case["how"] == "auto" and cfg["nout"] is not None and group in ("metadata", "raised:AssertionError", "nparts"):
            return "set_index:auto:npartitions:count"           # the root cause recorded as C41 'set_index:auto:count'
        return "set_index:%s:%s:%s:%s" % (case["how"], strategy, kind, group)
    return "%s:%s:split_out=%s:%s:%s" % (case["op"], case["subset"] if case["op"] == "drop_duplicates" else "k",
                                         "1" if cfg["split_out"] in (1, False) else "n", kind, group)


# ----------------------------------------------------------------------------- random larger cases (code -> spec)
def random_items(rng, n):
    out = []
    lays = AnyLayouts(rng)
    for i in range(n):
        m = rng.randint(0, 12)
        nk = rng.randint(1, 5)
        rows = [{"rid": j + 1, "idx": (j if i % 2 else j // 2), "k": rng.choice(list(range(nk)) + ([NA] if rng.random() < 0.4 else [])), "k2": rng.randint(0, 1)}
                for j in range(m)]
        fam = rng.choice(["shuffle", "shuffle", "sort", "sort", "setindex", "dedup", "dedup"])
        if fam == "shuffle":
            case = {"fam": fam, "rows": rows, "on": rng.choice(["k", "kk", "idx"])}
        elif fam == "sort":
            by = rng.choice(["k", "kk"])
            case = {"fam": fam, "rows": rows, "by": by, "asc": [rng.random() < 0.5 for _ in range(1 if by == "k" else 2)], "naf": rng.random() < 0.5}
        elif fam == "setindex":
            case = {"fam": fam, "rows": rows, "drop": rng.random() < 0.6, "how": "auto", "udivs": []}
        elif rng.random() < 0.7:
            case = {"fam": fam, "rows": rows, "op": "drop_duplicates", "subset": rng.choice(["k", "kk", "all"]), "keep": rng.choice(["first", "last"])}
        else:
            case = {"fam": fam, "rows": rows, "op": "unique", "subset": "k", "keep": "first"}
        if fam in ("shuffle", "dedup") and m >= 2 and case.get("on") != "idx" and rng.random() < 0.4:
            # pre-partitioned source (stages that need no precondition on the rows)
            case["pre"] = {"how": rng.choice(["shuffle", "shuffle", "merge"]), "on": rng.choice([["k"], ["k2"], ["k", "k2"], ["k", "rid"], ["k", "k2", "rid"], ["rid"]])}
        cfg = make_config(rng, lays, case)
        if "pre" not in case:
            cfg["nout"] = rng.choice([None, 1, 2, 3, 5, 6])
        out.append(("r%d" % i, case, cfg, None))
    return out


# ----------------------------------------------------------------------------- TLC
def bounds(ctx):
    q = ctx.quick
    return {"Keys": {0, 1, 2}, "MaxN": 6 if q else 8, "Full": 2 if q else 3, "Mod": 16 if q else 24, "Salt": ctx.rng.randrange(1000), "MaxParts": 4, "MaxBranchIn": 6 if q else 9,
            "PreMod": 37 if q else 13}


INVARIANTS = ["ShuffleContractOK", "ClassesPartition", "SortSane", "SetIndexSane", "DedupSane", "UniqueSane", "PreSane", "StagedOK"]
FAMS = ["shuffle", "sort", "setindex", "dedup", "pre", "layouts"]


def enumerate_cases(ctx, consts, fams, label):
    spec, cfg = ctx.model(ctx.spec("frame", "ShuffleMC.tla"), dict(consts, Fams=set(fams)), invariants=INVARIANTS, spec="Spec")
    cases, _ = ctx.tlc_cases(spec, cfg, var="sout", label=label, timeout=3000)
    return cases


def validate(ctx, recs, label):
    if not recs:
        return {}
    spec, cfg = ctx.model(ctx.spec("frame", "ShuffleTrace.tla"), {})
    out = {}
    for lo in range(0, len(recs), 4000):
        rej = ctx.tlc_validate(spec, recs[lo:lo + 4000], cfg, label=label, timeout=2400)
        out.update({k: clause_names(v) for k, v in rej.items()})
    return out


def famkey(c):
    return c["fam"] + (":" + c["how"] if c["fam"] == "setindex" else ":" + c["op"] if c["fam"] == "dedup" else "")


def quotakey(c):
    return "pre:" + c["fam"] if pre_of(c)["how"] != "none" else famkey(c)


def plan_items(ctx, cases, quota, kinds=KINDS):
    rng = ctx.rng
    layouts = {c["c"]["n"]: c["e"] for c in cases if c["c"]["fam"] == "layouts"}
    # TLC's workers write the dump in no particular order: put the cases into a canonical order before sampling (determinism)
    import json
    cases = sorted(cases, key=lambda c: json.dumps(c["c"], sort_keys=True))
    byfam = {}
    for c in cases:
        if c["c"]["fam"] != "layouts":
            byfam.setdefault(quotakey(c["c"]), []).append(c)
    items = []
    for fam in sorted(byfam):
        pool = byfam[fam]
        pick = pool if len(pool) <= quota[fam] else rng.sample(pool, quota[fam])
        ctx.extra["replayed_" + fam] = "%d of %d" % (len(pick), len(pool))
        for c in pick:
            items.append(("e%d" % len(items), c["c"], make_config(rng, layouts, c["c"], kinds), c["e"]))
    return items


def verdict_of(verdict, rid):
    out = []
    for k in (rid, rid + "n1", rid + "n0"):
        out += verdict.get(k, [])
    return sorted(set(out))


def check_items(ctx, items, label, tlc_share=0.12, tlc_min=150):
    """-> (violations [(item, rec, clauses, strategy)], done, skips); see harness.drivers.C39.check_items."""
    _freeze()
    results = pmap(_work, items, chunk=16)
    _tick(ctx, "dask runs done")
    done, skips = [], []
    for it, res in zip(items, results):
        if "guard" in res:
            raise MachineryError("reference guard: %s on %r" % (res["guard"], it[1]))
        if "skip" in res:
            skips.append(res["skip"])
        else:
            done.append((it, res))
    to_tlc, twins = [], {}
    share = [d for d in done if d[1]["clauses"] is not None]
    flagged = [d for d in share if d[1]["clauses"]]
    rest = [d for d in share if not d[1]["clauses"]]
    picked = flagged[:300] + ctx.rng.sample(rest, min(len(rest), max(tlc_min, int(tlc_share * len(rest)))))
    for it, res in done:
        if res["clauses"] is None:
            to_tlc += tlc_records(res["rec"])
            try:
                with warnings.catch_warnings():
                    warnings.simplefilter("ignore")
                    g = make_record("g" + it[0], it[1], dict(it[2], nout=1, layout=[len(it[1]["rows"])]), pandas_obs(it[1], it[2]["kind"]))
            except Exception as ex:  # noqa: BLE001
                raise MachineryError("pandas refuses a random case %r: %r" % (it[1], ex))
            twins[g["id"]] = it
            to_tlc += tlc_records(g)
    for _, res in picked:
        to_tlc += tlc_records(res["rec"])
    verdict = validate(ctx, to_tlc, label)
    _tick(ctx, "TLC decided %d records" % len(to_tlc))
    for gid, it in twins.items():
        v = [c for c in verdict_of(verdict, gid) if c not in ("NParts", "UserDivs")]
        if v:
            raise MachineryError("reference guard: ShuffleTrace rejects pandas' own result (%s) for %r" % (v, it[1]))
    for it, res in picked:
        tl = verdict_of(verdict, res["rec"]["id"])
        if tl != sorted(res["clauses"]):
            raise MachineryError("the replay judge (%s) and ShuffleTrace (%s) disagree on %r" % (res["clauses"], tl, res["rec"]))
    bad = []
    for it, res in done:
        cl = res["clauses"] if res["clauses"] is not None else verdict_of(verdict, res["rec"]["id"])
        if cl:
            bad.append((it, res["rec"], cl, res["strategy"]))
    return bad, done, skips


def nontrivial(rec):
    obs = rec["obs"]
    return obs["raised"] == "" and len(rec["rows"]) >= 2 and (len(obs["parts"]) > 1 or rec["op"] == "unique")


def report(ctx, bad):
    for it, rec, clauses, strat in bad:
        rid, case, cfg, exp = it
        obs = rec["obs"]
        ctx.violation(classify(case, cfg, strat, clauses, obs),
                      "%s: clauses %s fail (%s, key dtype %s; observed %s)" % (famkey(case), clauses, strat, cfg["kind"],
                                                                              ("raised " + obs["raised"] + ": " + obs.get("msg", "")) if obs["raised"]
                                                                              else "%d partitions, divisions %s" % (len(obs["parts"]), obs["divs"])),
                      {"case": case, "cfg": cfg, "expected": exp, "clauses": clauses, "observed": obs})


def setup_dask(ctx):
    import dask
    dd()
    dask.config.set({"temporary-directory": ctx.scratch, "scheduler": "sync"})


def run(ctx):
    setup_dask(ctx)
    cases = enumerate_cases(ctx, bounds(ctx), FAMS, "design+cases")
    ctx.extra["cases_enumerated_by_tlc"] = len(cases)
    q = ctx.quick
    dev = float(__import__("os").environ.get("VERIF_C40_DEV", "1"))        # development only: shrink the dask side
    quota = {"shuffle": 650 if q else 9000, "sort": 650 if q else 9000, "setindex:auto": 350 if q else 4000, "setindex:user": 250 if q else 3000,
             "setindex:sorted": 80 if q else 800, "dedup:drop_duplicates": 450 if q else 6000, "dedup:unique": 150 if q else 2000,
             "pre:dedup": 400 if q else 3000, "pre:shuffle": 100 if q else 900, "pre:sort": 50 if q else 500}
    quota = {k: max(20, int(v * dev)) for k, v in quota.items()}
    items = plan_items(ctx, cases, quota)
    items += random_items(ctx.rng, 150 if q else 3000)
    _tick(ctx, "planned %d items from %d cases" % (len(items), len(cases)))
    del cases
    bad, done, skips = check_items(ctx, items, "recorded-calls")
    for s in skips:
        ctx.skip(s)
    if len(skips) > len(items) // 2:
        raise MachineryError("more than half of the cases were skipped: %r" % sorted(set(skips))[:3])
    strategies = {}
    for it, res in done:
        ctx.count((it[1], it[2]), nontrivial(res["rec"]))
        strategies[res["strategy"]] = strategies.get(res["strategy"], 0) + 1
    ctx.extra["shuffles_exercised"] = strategies
    rel = {}
    for it, res in done:
        if pre_of(it[1])["how"] != "none":
            rel[pre_tag(it[1])] = rel.get(pre_tag(it[1]), 0) + 1
    ctx.extra["pre_partitioned_sources_replayed"] = rel
    missing = [r for r in ("equal", "subset", "superset", "overlap", "disjoint") if not any(t.endswith(":" + r) for t in rel)]
    if missing:
        raise MachineryError("vacuous: no pre-partitioned source whose columns are %s to the columns of the operation was replayed" % missing)
    report(ctx, bad)
    for fam in ("shuffle", "sort", "setindex"):
        ex = next(((it, res) for it, res in done if it[1]["fam"] == fam and nontrivial(res["rec"])), None)
        if ex:
            it, res = ex
            ctx.sample({"case": it[1], "cfg": it[2], "observed_partitions": res["rec"]["obs"]["parts"]})
    ctx.exhaustive = False
    ctx.rule = ("cases = TLC-enumerated (frame, operation, arguments) - a seeded sample per family - each crossed with one seeded "
                "configuration (partitioning incl. empty parts, npartitions_out, shuffle_method, max_branch, ignore_index, split_out, "
                "key dtype; sources fresh or PRE-PARTITIONED by an earlier shuffle / hash join / groupby(split_out) / set_index on columns "
                "in every relation to the operation's columns), plus seeded larger frames; non-trivial = at least two rows and the result has more than one partition "
                "(or is a unique / nunique result); distinct by (case, configuration)")
    ctx.assumptions = ["TLC evaluates the contracts correctly", "parts_collection builds exactly the given partitions",
                       "pandas per-partition kernels are correct", "the pyarrow shim is inert for pandas-backed frames"]


def replay(ctx, obj):
    setup_dask(ctx)
    c = obj["case"]
    bad, done, skips = check_items(ctx, [("p0", c["case"], c["cfg"], c.get("expected"))], "replay", tlc_min=1)
    for _, res in done:
        print("observed:", res["rec"]["obs"], "\nshuffle:", res["strategy"])
    print("skipped:", skips, "violated clauses:", [b[2] for b in bad])
    return bool(bad)


def selftest(ctx):
    import contextlib
    setup_dask(ctx)
    import dask.dataframe.dask_expr._reductions as red
    import dask.dataframe.dask_expr._shuffle as sh
    import dask.dataframe.shuffle as legacy
    rng = ctx.rng
    consts = dict(bounds(ctx), MaxN=5, Full=2, Mod=48, PreMod=11)
    cases = enumerate_cases(ctx, consts, FAMS, "selftest:cases")
    layouts = {c["c"]["n"]: c["e"] for c in cases if c["c"]["fam"] == "layouts"}
    quota = {"shuffle": 70, "sort": 40, "setindex:auto": 25, "setindex:user": 60, "setindex:sorted": 10, "dedup:drop_duplicates": 60, "dedup:unique": 15,
             "pre:dedup": 70, "pre:shuffle": 25, "pre:sort": 10}
    items = plan_items(ctx, cases, quota, kinds=["int", "float", "str"])
    # directed configurations: three input partitions, task shuffle with max_branch=2 (two stages of two splits)
    for c in cases:
        case = c["c"]
        if case["fam"] == "shuffle" and len(case["rows"]) >= 4 and rng.random() < 0.08:
            cfg = dict(make_config(rng, layouts, case, ["int", "float", "str"]), method="tasks", mb=2, nout=None,
                       layout=list(rng.choice([x for x in layouts[len(case["rows"])] if len(x) == 3])))
            items.append(("e%d" % len(items), case, cfg, c["e"]))
    # directed: pre-partitioned sources with one key value in many rows (so that a wrongly skipped shuffle leaves it in several
    # partitions), the stage re-partitioning to 3 partitions, drop_duplicates with split_out=True
    nd = 0
    for c in cases:
        case = c["c"]
        if nd < 70 and case["fam"] == "dedup" and pre_of(case)["how"] in ("shuffle", "merge") and case["op"] == "drop_duplicates" and len(case["rows"]) >= 4:
            ks = [r["k"] for r in case["rows"]]
            if max(ks.count(v) for v in set(ks)) >= 3 and pre_tag(case).split(":")[1] in ("superset", "disjoint", "overlap"):
                nd += 1
                cfg = dict(make_config(rng, layouts, case, ["int", "float"]), pren=3, split_out=True, blockwise=True,
                           layout=list(rng.choice([x for x in layouts[len(case["rows"])] if len(x) == 3 and 0 not in x])))
                items.append(("e%d" % len(items), case, cfg, c["e"]))
    del cases
    _freeze()

    def outcome(fams):
        sub = [it for it in items if ("pre" if pre_of(it[1])["how"] != "none" else it[1]["fam"]) in fams]
        results = pmap(_work, sub, chunk=8)
        sigs = {}
        for it, res in zip(sub, results):
            if "guard" in res:
                raise MachineryError("reference guard in selftest: %s" % res["guard"])
            if "rec" in res and res["clauses"]:
                s = classify(it[1], it[2], res["strategy"], res["clauses"], res["rec"]["obs"])
                if s not in ctx.known:
                    sigs[s] = sigs.get(s, 0) + 1
        return sigs, len(sub)

    ok = True
    base, n = outcome({"shuffle", "sort", "setindex", "dedup", "pre"})
    print("selftest C40 baseline (unmutated code, %d cases): violations outside known findings %s -> %s" % (n, base, "ok" if not base else "UNEXPECTED"))
    ok &= not base
    pidx = mutate(legacy.partitioning_index, "hash_object_dispatch(df, index=False)", "hash_object_dispatch(df, index=True)")
    spre = mutate(legacy.set_partitions_pre, 'partitions = divisions.searchsorted(s, side="right") - 1', 'partitions = divisions.searchsorted(s, side="left") - 1')
    keep = vars(red.DropDuplicates)["chunk_kwargs"]
    mutants = [
        ("partitioning_index: the hash includes the index (hash_object_dispatch(df, index=True))", {"shuffle"},
         [(legacy, "partitioning_index", pidx), (sh, "partitioning_index", pidx)]),
        ("TaskShuffle._layer: splits per stage rounded down (ceil -> floor): 3 inputs, max_branch=2 read one partition only", {"shuffle"},
         [(sh.TaskShuffle, "_layer", mutate(vars(sh.TaskShuffle)["_layer"], "nsplits = int(math.ceil(npartitions_input ** (1 / stages)))",
                                            "nsplits = int(math.floor(npartitions_input ** (1 / stages)))"))]),
        ("set_partitions_pre: searchsorted side right -> left (a label equal to a division goes to the partition before it)", {"setindex"},
         [(legacy, "set_partitions_pre", spre), (sh, "set_partitions_pre", spre), (sh._SetPartitionsPreSetIndex, "operation", staticmethod(spre))]),
        # partitioning knowledge wrongly lets an operation skip its own shuffle
        ("ApplyConcatApply.need_to_shuffle: subset test turned round (`>=` -> `<=`): a frame partitioned on a SUPERSET of the columns skips the shuffle", {"pre"},
         [(red.ApplyConcatApply, "need_to_shuffle", mutate(vars(red.ApplyConcatApply)["need_to_shuffle"],
                                                          "set(split_by) >= (set(cols)", "set(split_by) <= (set(cols)"))]),
        ("ApplyConcatApply.need_to_shuffle: ANY partitioning knowledge counts (even on unrelated columns)", {"pre"},
         [(red.ApplyConcatApply, "need_to_shuffle", mutate(vars(red.ApplyConcatApply)["need_to_shuffle"],
                                                          "if any(\n", "if self.frame.unique_partition_mapping_columns_from_shuffle or any(\n"))]),
        ("DropDuplicates.chunk_kwargs: keep is not handed to the per-partition drop_duplicates (always 'first')", {"dedup"},
         [(red.DropDuplicates, "chunk_kwargs", mutate(keep.fget, 'out = {"keep": self.keep}', 'out = {"keep": "first"}'))]),   # (the source carries @property)
    ]
    for name, fams, patches in mutants:
        with contextlib.ExitStack() as st:
            for target, attr, mut in patches:
                st.enter_context(patched_attr([target], attr, mut))
            got, n = outcome(fams)
        print("selftest C40 mutant [%s] (%d cases): violations %s -> %s" % (name, n, dict(sorted(got.items())[:4]), "DETECTED" if got else "MISSED"))
        ok &= bool(got)
    # corrupted / truncated records must be rejected by the trace specification
    case = {"fam": "shuffle", "on": "k", "rows": [{"rid": i + 1, "idx": i, "k": k, "k2": i % 2} for i, k in enumerate([0, 1, NA, 1, 0, 2])]}
    cfg = {"kind": "float", "layout": [2, 0, 4], "method": "tasks", "mb": 2, "nout": 3, "ign": False, "whole": True}
    obs, _ = run_case(case, cfg)
    good = make_record("genuine", case, cfg, obs)
    rows = [r for p in obs["parts"] for r in p]
    src_part = next(b for b, p in enumerate(obs["parts"]) if any(r["k"] == 1 for r in p))
    mover = next(r for r in obs["parts"][src_part] if r["k"] == 1)
    moved = [[r for r in p if r is not mover] + ([mover] if b == (src_part + 1) % 3 else []) for b, p in enumerate(obs["parts"])]
    variants = {
        "genuine": good,
        "a row dropped (event lost)": dict(good, obs=dict(obs, parts=[[r for r in p if r is not rows[0]] for p in obs["parts"]])),
        "a row with key 1 moved to another partition": dict(good, obs=dict(obs, parts=moved)),
        "a key cell changed": dict(good, obs=dict(obs, parts=[[dict(r, k2=1 - r["k2"]) if r is rows[0] else r for r in p] for p in obs["parts"]])),
        "declared npartitions off by one": dict(good, obs=dict(obs, nparts=obs["nparts"] + 1)),
    }
    scase = {"fam": "sort", "by": "k", "asc": [True], "naf": False, "rows": case["rows"]}
    sobs, _ = run_case(scase, dict(cfg, ascform="bool", nout=None))
    sgood = make_record("sorted", scase, dict(cfg, ascform="bool", nout=None), sobs)
    flat = [r for p in sobs["parts"] for r in p]
    swapped = [flat[-1]] + flat[1:-1] + [flat[0]]
    variants["genuine sort"] = sgood
    variants["sort: first and last row swapped"] = dict(sgood, obs=dict(sobs, parts=[swapped], nparts=1, ndivs=2))
    recs = [dict(r, id="v%d" % i) for i, r in enumerate(variants.values())]
    verdict = validate(ctx, recs, "selftest:records")
    for i, name in enumerate(variants):
        got = verdict.get("v%d" % i)
        if name.startswith("genuine"):
            print("selftest C40 trace: %s record accepted -> %s" % (name, "ok" if not got else "UNEXPECTED %s" % got))
            ok &= not got
        else:
            print("selftest C40 corrupted record [%s]: %s" % (name, "REJECTED %s" % got if got else "ACCEPTED (missed)"))
            ok &= bool(got)
    print("selftest C40: %s" % ("all binding demonstrations hold" if ok else "FAILED"))
    return 0 if ok else 1
