"""C08 - task-spec conversion and execution preserve the graph's meaning.

spec -> code: TLC enumerates (specs/graph/TaskSpecMC.tla) every expression of the bounded legacy
language (nested calls, lists, dicts, literal tuples / sets, tuple and integer keys, quoted values,
key-like literals) and of the task-object language (Task with positional / keyword arguments, nested
List / Tuple / Set / Dict, references, literals that look like keys) as the value of one key of a small
graph, with the value every key must compute and the keys it references (specs/graph/TaskSpec.tla).
Each case is built as a real graph; convert_legacy_graph, node.dependencies, dask.core.get,
execute_graph, node(values) (Task.__call__) and the same after a pickle round trip are observed and
judged against the TLC-exported expectation.
code -> spec: seeded random deeper nestings over more keys (and a sample of the enumerated cases, and
every case the replay judged broken) are recorded and decided by TLC (TaskSpecTrace.tla)."""
from __future__ import annotations

import pickle
import random
import re

from .. import herbrand as H
from ..core import MachineryError
from ..par import pmap

META = {
    "title": "Task-spec conversion and execution preserve the graph's meaning",
    "design_ref": "DESIGN.md §4.2 C08",
    "technique": "TLA+ semantics of the legacy expression language and of task objects over Herbrand terms; TLC enumerates all "
                 "bounded expressions with expected value and references; replay through convert_legacy_graph / dask.core.get / "
                 "execute_graph / Task.__call__ / pickle + TLC validation of recorded graphs",
    "level_text": "Small-scope exhaustive: every legacy expression of depth <= 2 (calls, lists, dicts with <= 2 children over 11 "
                  "leaves: key / non-key strings, tuple key and look-alike, integer key, literal tuple and set, quoted key-like "
                  "values) and every task-object expression of depth <= 2 (Task args / kwargs, List, Tuple, Set, Dict, "
                  "TaskRef / Alias, key-like plain literals) is placed in two surrounding graphs; TLC gives value and references "
                  "of every key.  Deeper random nestings over up to 6 keys are decided by TLC from recorded observations.",
    "level_note": "Trusted: TLC; the value normaliser harness/herbrand.norm; Python's pickle.  Not covered: namedtuples, "
                  "futures, SubgraphCallable, non-literal tuples / sets inside legacy graphs (the statement does not define them), "
                  "dict keys that are themselves graph keys.",
}

TLC_OPTS = {"heap": "2g", "env": {"JAVA_TOOL_OPTIONS": "-XX:ParallelGCThreads=2"}}
INVS = ["Sane", "RefsExact", "QuoteInert"]
STAGES = ["deps", "get", "exec", "call", "pdeps", "pcall", "ldeps", "kdeps"]
DEP_STAGES = ("deps", "pdeps", "ldeps", "kdeps")
CLAUSE = {"deps": "Deps", "get": "Get", "exec": "Exec", "call": "Call", "pdeps": "PickleDeps", "pcall": "PickleCall",
          "ldeps": "LegacyDeps", "kdeps": "LegacyDeps"}


def _raised(ex):
    return {"t": "raised", "s": type(ex).__name__}


def _ck(v):
    return H._sortkey(H.canon(v))


# ---------------------------------------------------------------- observation of one graph
def observe(fam, gs, vals, seed):
    """gs = [{"k": key value, "e": expression}]; vals = expected value per position (used as the values
    handed to node(values)).  Returns one observation dict per key, or {"skip": reason}."""
    import dask.core
    from dask._task_spec import convert_legacy_graph, execute_graph
    rng = random.Random(seed)
    keys = [H.to_py(x["k"]) for x in gs]
    expected = {k: H.to_py(v) for k, v in zip(keys, vals)}
    obs = [{s: {"t": "raised", "s": "NotObserved"} for s in STAGES} for _ in gs]
    for o in obs:
        for st in DEP_STAGES:
            o[st] = [{"t": "raised", "s": "NotObserved"}]
    try:
        if fam == "legacy":
            order = list(range(len(gs)))
            rng.shuffle(order)
            dsk = {keys[i]: H.legacy_expr(gs[i]["e"]) for i in order}
            conv = convert_legacy_graph(dsk)
        else:
            order = list(range(len(gs)))
            rng.shuffle(order)
            dsk = {keys[i]: H.ts_expr(gs[i]["e"], keys[i], rng, top=True) for i in order}
            conv = dict(dsk)
    except NotImplementedError as ex:
        return {"skip": "NotImplementedError: " + str(ex)[:60]}
    except Exception as ex:  # noqa: BLE001
        for o in obs:
            for s in STAGES:
                o[s] = [_raised(ex)] if s in DEP_STAGES else _raised(ex)
        return obs
    # whole-graph evaluations
    try:
        got = dask.core.get(dsk, list(keys))
        got = dict(zip(keys, got))
        gerr = None
    except Exception as ex:  # noqa: BLE001
        got, gerr = {}, ex
    try:
        ex_res = execute_graph(dict(conv), keys=set(keys))
        eerr = None
    except Exception as ex:  # noqa: BLE001
        ex_res, eerr = {}, ex
    for i, k in enumerate(keys):
        o = obs[i]
        o["get"] = H.norm(got[k]) if k in got else (_raised(gerr) if gerr else {"t": "raised", "s": "Missing"})
        o["exec"] = H.norm(ex_res[k]) if k in ex_res else (_raised(eerr) if eerr else {"t": "raised", "s": "Missing"})
        # the dependency report of the graph helpers (what cull / order / fuse see)
        for st, fn in (("ldeps", lambda: dask.core.get_dependencies(dsk, k)),
                       ("kdeps", lambda: dask.core.keys_in_tasks(set(dsk), [dsk[k]], as_list=True))):
            try:
                o[st] = sorted((H.norm(d) for d in set(fn())), key=H._sortkey)
            except Exception as ex:  # noqa: BLE001
                o[st] = [_raised(ex)]
        node = conv.get(k)
        if node is None:
            for s in ("deps", "pdeps"):
                o[s] = [{"t": "raised", "s": "NodeDropped"}]
            o["call"] = o["pcall"] = {"t": "raised", "s": "NodeDropped"}
            continue
        for tag_d, tag_c, mk in (("deps", "call", lambda n: n), ("pdeps", "pcall", lambda n: pickle.loads(pickle.dumps(n)))):
            try:
                n2 = mk(node)
                deps = n2.dependencies
                o[tag_d] = sorted((H.norm(d) for d in deps), key=H._sortkey)
            except Exception as ex:  # noqa: BLE001
                o[tag_d] = [_raised(ex)]
                o[tag_c] = _raised(ex)
                continue
            try:
                o[tag_c] = H.norm(n2({d: expected[d] for d in deps}))
            except Exception as ex:  # noqa: BLE001
                o[tag_c] = _raised(ex)
    return obs


def judge(case, obs):
    """Python mirror of TaskSpec!KeyBroken per key: list of (position, [clauses])."""
    out = []
    for i, o in enumerate(obs):
        want = _ck(case["val"][i])
        refs = sorted(_ck(r) for r in case["refs"][i])
        bad = []
        for s in STAGES:
            if s in DEP_STAGES:
                ok = sorted(_ck(d) for d in o[s]) == refs
            else:
                ok = _ck(o[s]) == want
            if not ok and CLAUSE[s] not in bad:
                bad.append(CLAUSE[s])
        if bad:
            out.append((i, bad))
    return out


# ---------------------------------------------------------------- classification
def _walk(x, f):
    f(x)
    for y in x.get("xs", []):
        _walk(y, f)
    for _n, y in x.get("kw", []):
        _walk(y, f)


def _needs_eval(x, keyset):
    """Does the expression contain anything the semantics evaluates (a reference, a call, a quoted value)?"""
    hit = []
    _walk(x, lambda y: hit.append(1) if (y["e"] in ("call", "ref", "quote") or (y["e"] == "atom" and _ck(y["a"]) in keyset)) else None)
    return bool(hit)


def classify(fam, gs, broken):
    """Signature = language + the construct that selects the code path.  The *root* key is the first key
    (in graph order) whose own node is wrong - node(values) or dependencies, which are judged with correct
    inputs - so that keys which merely inherit a wrong value do not name the violation."""
    keyset = {_ck(x["k"]) for x in gs}
    roots = [b for b in broken if {"Call", "Deps", "PickleCall", "PickleDeps", "LegacyDeps"} & set(b[1])] or broken
    i, clauses = roots[0]
    x = gs[i]["e"]
    feats = []

    def visit(y):
        e = y["e"]
        if e == "dict" and any(_needs_eval(z, keyset) for z in y["xs"]):
            feats.append("dict-content")
        elif e == "dict":
            feats.append("dict-literal")
        elif e in ("set", "tuple"):
            feats.append(e + "-container")
        elif e == "quote":
            feats.append("quoted")
        elif e == "call" and y.get("kw"):
            feats.append("kwargs")
        elif e == "atom" and y["a"]["t"] == "tuple":
            feats.append("tuple-key" if _ck(y["a"]) in keyset else "tuple-literal")
        elif e == "atom" and y["a"]["t"] == "lit" and _ck(y["a"]) in keyset:
            feats.append("int-key")

    _walk(x, visit)
    order = ["dict-content", "kwargs", "set-container", "tuple-container", "tuple-key", "int-key", "quoted",
             "dict-literal", "tuple-literal"]
    feat = next((f for f in order if f in feats), "plain")
    first = clauses[0]
    if set(clauses) == {"LegacyDeps"}:
        first = "LegacyDeps"
    group = "Values" if first in ("Get", "Exec", "Call") else first
    return "%s:%s:%s:top=%s" % (fam, feat, group, x["e"])


# ---------------------------------------------------------------- replay of TLC-enumerated cases
def _work(job):
    fam, case, seed, keep = job
    obs = observe(fam, case["g"], case["val"], seed)
    if isinstance(obs, dict):
        return ("skip", obs["skip"], None, None)
    broken = judge(case, obs)
    return ("ok", broken, obs if (broken or keep) else None, seed)


def nontrivial(case):
    """The key under test references at least one other key or contains a container."""
    x = case["g"][-1]["e"]
    return bool(case["refs"][-1]) or x["e"] in ("list", "dict", "set", "tuple") or any(y["e"] != "atom" for y in x.get("xs", []))


def record_of(rid, fam, gs, obs):
    return {"id": rid, "fam": fam, "g": gs, "o": obs}


def enum_jobs(ctx, fam, cases, keep=2000):
    keep_p = min(1.0, keep / max(1, len(cases)))
    return [("enum", fam, c, ctx.rng.randrange(1 << 30), ctx.rng.random() < keep_p) for c in cases]


def _work_any(job):
    """One pool for everything: ("enum", fam, case, seed, keep) or ("rand", fam, graph, seed).  The result travels
    as one JSON string: the parent parses it much faster than it unpickles the nested observation."""
    import json
    if job[0] == "enum":
        return json.dumps(_work(job[1:]))
    return json.dumps(_observe_random(job[1:]))


def absorb(ctx, jobs, results, report=True):
    """Book-keeping of the results of enum / rand jobs: returns (quads to cross-validate, quads for TLC alone)."""
    import json
    xval, rnd = [], []
    for job, res in zip(jobs, results):
        res = json.loads(res)
        if job[0] == "rand":
            fam, case, obs = res
            if isinstance(obs, dict):
                ctx.skip(obs["skip"])
                continue
            ctx.count(H._sortkey([fam, case["g"]]), True)
            rnd.append((fam, case, obs, None))
            continue
        _t, fam, case, _s, _k = job
        tag, broken, obs, seed = res
        if tag == "skip":
            ctx.skip(broken)
            continue
        ctx.count(H._sortkey([fam, case["g"]]), nontrivial(case))
        if broken:
            xval.append((fam, case, obs, broken))
            if report:
                sig = classify(fam, case["g"], broken)
                ctx.violation(sig, "%s graph: key %s breaks %s" % (fam, H.to_py(case["g"][broken[0][0]]["k"]), "/".join(broken[0][1])),
                              {"fam": fam, "case": case, "seed": seed, "observed": obs, "broken": broken})
        elif obs is not None:
            xval.append((fam, case, obs, broken))
    return xval, rnd


_RE_CODE = re.compile(r'\{"([0-9a-zA-Z+-]+)"\}')
_DIGITS = "0123456789abcdefghijklmnopqrstuvwxyzABCDEFGHIJKLMNOPQRSTUVWXYZ+-"
_BITS = [("Deps", 1), ("Get", 2), ("Exec", 4), ("Call", 8), ("PickleDeps", 16), ("PickleCall", 32), ("LegacyDeps", 64)]


def decode_verdict(text):
    """TaskSpecTrace!Bad prints two base-64 digits (low, high) per key: the bit mask of its broken clauses."""
    m = _RE_CODE.search(text)
    if not m or len(m.group(1)) % 2:
        raise MachineryError("cannot read the TLC verdict %r" % (text,))
    out = {}
    code = m.group(1)
    for pos in range(len(code) // 2):
        mask = _DIGITS.index(code[2 * pos]) + 64 * _DIGITS.index(code[2 * pos + 1])
        if mask:
            out[pos] = {c for c, w in _BITS if mask & w}
    return out


def validate_records(ctx, quads, label, report=True):
    """TLC decides the records.  quads = (fam, case-or-graph, obs, python verdict or None)."""
    if not quads:
        return
    spec, cfg = ctx.model(ctx.spec("graph", "TaskSpecTrace.tla"), {})
    recs = [record_of("r%d" % i, fam, case["g"], obs) for i, (fam, case, obs, _b) in enumerate(quads)]
    rejected = {}
    for lo in range(0, len(recs), 30000):
        rejected.update(ctx.tlc_validate(spec, recs[lo:lo + 30000], cfg, label=label, timeout=1800, **TLC_OPTS))
    for i, (fam, case, obs, broken) in enumerate(quads):
        rid = "r%d" % i
        tl = {}
        if rid in rejected:
            if "InputNotWellFormed" in rejected[rid][0]:
                raise MachineryError("trace spec says the recorded graph is not well formed: %r" % (recs[i],))
            tl = decode_verdict(rejected[rid][0])
        if broken is not None:
            py = {p: set(cl) for p, cl in broken}
            if py != tl:
                raise MachineryError("Python judge %r and TLC %r disagree on record %r" % (py, tl, recs[i]))
        elif tl and report:
            br = sorted((p, sorted(cl, key=list(CLAUSE.values()).index)) for p, cl in tl.items())
            ctx.violation(classify(fam, case["g"], br), "TLC rejects a recorded %s graph (%s)" % (fam, rejected[rid][0][:120]),
                          {"fam": fam, "case": case, "observed": obs, "broken": br})


# ---------------------------------------------------------------- random deeper graphs (code -> spec)
def _v(x):
    return H.norm(x)


KEYS = [_v("a"), _v(("x", 0)), _v(5), _v("b"), _v(("x", 1)), _v(("y", 0, 1))]
NONKEYS = [_v(1), _v(2), _v("zz"), _v(("x", 9)), _v((1, "zz")), _v("out2")]


def random_expr(rng, fam, avail, depth, label, hashable_keys=()):
    """Random expression of TaskSpec.tla over the already-defined keys `avail` (hashable_keys: those whose
    value is a term, i.e. may be referenced from inside a Set)."""
    n = [0]

    def fresh():
        n[0] += 1
        return "%s_%d" % (label, n[0])

    def leaf(hashable=False):
        r = rng.random()
        pool_k = list(hashable_keys) if hashable else avail
        if pool_k and r < 0.45:
            k = rng.choice(pool_k)
            return {"e": "atom", "a": k} if fam == "legacy" else {"e": "ref", "k": k}
        if r < 0.6:
            pool = [v for v in (avail + NONKEYS) if not hashable or v["t"] != "list"]
            return {"e": "quote", "v": rng.choice(pool + ([] if hashable else [{"t": "list", "xs": [rng.choice(KEYS), _v(1)]}]))}
        if fam == "legacy":
            if r < 0.7 and not hashable:
                return {"e": "set", "xs": [{"e": "atom", "a": _v(i)} for i in rng.sample([1, 2, 3], rng.randint(0, 2))]}
            return {"e": "atom", "a": rng.choice(NONKEYS)}
        return {"e": "quote", "v": rng.choice(NONKEYS + KEYS)}

    def expr(d, hashable=False):
        if d == 0 or rng.random() < 0.2:
            return leaf(hashable)
        kinds = ["call", "call", "list", "dict"] if fam == "legacy" else ["call", "call", "list", "dict", "tuple", "set"]
        if hashable:
            kinds = ["call", "tuple"] if fam == "ts" else ["call"]
        kind = rng.choice(kinds)
        nkids = rng.choice([0, 1, 1, 2, 2, 3])
        if kind == "call":
            kw = []
            if fam == "ts" and rng.random() < 0.35:
                kw = [[nm, expr(d - 1)] for nm in sorted(rng.sample(["p", "q", "r"], rng.randint(1, 2)))]
            return {"e": "call", "f": fresh(), "xs": [expr(d - 1) for _ in range(nkids)], "kw": kw}
        if kind == "dict":
            ks = sorted(rng.sample(["p", "q", "r"], min(nkids, 3)))
            return {"e": "dict", "ks": ks, "xs": [expr(d - 1) for _ in ks]}
        if kind == "set":
            return {"e": "set", "xs": [expr(d - 1, hashable=True) for _ in range(nkids)]}
        if kind == "tuple":
            return {"e": "tuple", "xs": [expr(d - 1, hashable) for _ in range(nkids)]}
        return {"e": "list", "xs": [expr(d - 1) for _ in range(nkids)]}

    return expr(depth)


def _top_ok(fam, x):
    return fam == "legacy" or x["e"] in ("call", "ref", "quote")


def random_graph(rng, fam, depth):
    nk = rng.randint(2, 5)
    keys = rng.sample(KEYS, nk) + [_v("out")]
    gs, hk = [], []
    for i, k in enumerate(keys):
        avail = keys[:i]
        d = depth if i == len(keys) - 1 else rng.randint(0, 2)
        while True:
            x = random_expr(rng, fam, avail, d, "f%d" % i, hk)
            if _top_ok(fam, x) and not (x["e"] in ("atom",) and x["a"] == k):
                break
        if x["e"] == "call":
            hk.append(k)
        gs.append({"k": k, "e": x})
    return gs


def spec_eval(gs):
    """Python twin of TaskSpec!Val / RefsOf (only to hand node(values) its inputs for random graphs and to
    pre-filter unhashable set elements; verdicts come from TLC)."""
    keyset = {_ck(x["k"]): x["k"] for x in gs}
    exprs = {_ck(x["k"]): x["e"] for x in gs}
    memo = {}

    def refs(x, acc):
        e = x["e"]
        if e == "atom":
            if _ck(x["a"]) in keyset:
                acc.add(_ck(x["a"]))
        elif e == "ref":
            acc.add(_ck(x["k"]))
        elif e != "quote":
            for y in x["xs"]:
                refs(y, acc)
            for _n, y in x.get("kw", []):
                refs(y, acc)
        return acc

    def ev(x):
        e = x["e"]
        if e == "atom":
            return val(_ck(x["a"])) if _ck(x["a"]) in keyset else x["a"]
        if e == "ref":
            return val(_ck(x["k"]))
        if e == "quote":
            return x["v"]
        if e == "call":
            out = {"t": "app", "f": x["f"], "a": [ev(y) for y in x["xs"]]}
            if x.get("kw"):
                out["kw"] = [[n, ev(y)] for n, y in x["kw"]]
            return out
        if e in ("list", "tuple"):
            return {"t": e, "xs": [ev(y) for y in x["xs"]]}
        if e == "set":
            uniq = {}
            for y in x["xs"]:
                v = H.canon(ev(y))
                uniq[H._sortkey(v)] = v
            return {"t": "set", "els": [uniq[c] for c in sorted(uniq)]}
        return {"t": "dict", "kv": [[_v(k), ev(y)] for k, y in zip(x["ks"], x["xs"])]}

    def val(ck):
        if ck not in memo:
            memo[ck] = ev(exprs[ck])
        return memo[ck]

    vals = [H.canon(val(_ck(x["k"]))) for x in gs]
    rf = [[keyset[c] for c in sorted(refs(x["e"], set()))] for x in gs]
    return vals, rf


def _observe_random(job):
    fam, gs, seed = job
    vals, rf = spec_eval(gs)
    obs = observe(fam, gs, vals, seed)
    return fam, {"g": gs, "val": vals, "refs": rf}, obs


def rand_jobs(ctx, n, depths):
    jobs = []
    for _ in range(n):
        fam = ctx.rng.choice(["legacy", "ts"])
        jobs.append(("rand", fam, random_graph(ctx.rng, fam, ctx.rng.choice(depths)), ctx.rng.randrange(1 << 30)))
    return jobs


def run(ctx):
    total = 0
    sampled = False
    # (family, depth, sample of the deepest level (0 = all))
    # (depth-2 runs contain every expression of depth <= 1; `last` samples only the deepest level)
    confs = ctx.pick([("legacy", 2, 2000), ("ts", 2, 1500)],
                     [("legacy", 2, 0), ("ts", 2, 0)])
    import dask.core  # noqa: F401 - imported before the worker processes are forked
    import dask._task_spec  # noqa: F401
    jobs = []
    for fam, depth, last in confs:
        spec, cfg = ctx.model(ctx.spec("graph", "TaskSpecMC.tla"), {"Fam": fam, "Depth": depth, "Last": last}, invariants=INVS)
        cases, _ = ctx.tlc_cases(spec, cfg, label="design+cases:%s,depth=%d,last=%d" % (fam, depth, last), timeout=3000,
                                 seed=ctx.seed + 1, **TLC_OPTS)
        cases.sort(key=lambda c: H._sortkey(c["g"]))
        for c in cases:
            c["val"] = [H.canon(v) for v in c["val"]]
        total += len(cases)
        sampled = sampled or bool(last)
        # reference guard: the Python twin of Val / RefsOf agrees with the TLC export
        for c in ctx.rng.sample(cases, min(len(cases), 3000)):
            vals, rf = spec_eval(c["g"])
            if [_ck(v) for v in vals] != [_ck(v) for v in c["val"]] or \
               [sorted(_ck(r) for r in x) for x in rf] != [sorted(_ck(r) for r in x) for x in c["refs"]]:
                raise MachineryError("Python twin of Val/RefsOf disagrees with TLC on %r" % (c["g"],))
        jobs += enum_jobs(ctx, fam, cases, keep=ctx.pick(1500, 6000))
        ctx.sample({"family": fam, "graph": cases[-1]["g"][-1], "value": cases[-1]["val"][-1], "refs": cases[-1]["refs"][-1]})
    jobs += rand_jobs(ctx, ctx.pick(3000, 12000), ctx.pick([2, 3, 4], [2, 3, 4, 5]))
    xval, rnd = absorb(ctx, jobs, pmap(_work_any, jobs, chunk=256))
    validate_records(ctx, xval + rnd, "trace-validation:enumerated-sample+random-deeper-graphs")
    ctx.exhaustive = not sampled
    ctx.rule = ("case = one graph (surrounding nodes + the expression under test as key 'out') in the legacy or the "
                "task-object language; every key of the graph is observed (dependencies, dask.core.get, execute_graph, "
                "node(values), pickle round trip); non-trivial = the expression under test has a reference or a container; "
                "distinct by (family, graph)")
    ctx.extra["graphs_enumerated_by_tlc"] = total
    ctx.assumptions = ["TLC evaluates Val / RefsOf correctly (cross-checked against a Python twin)",
                       "herbrand.norm is a faithful, injective rendering of Python values",
                       "legacy tuples / sets only occur as literals (the statement defines calls, lists, dicts and references)"]


def replay(ctx, obj):
    c = obj["case"]
    fam, case = c["fam"], c["case"]
    obs = observe(fam, case["g"], case["val"], c.get("seed", 0))
    spec, cfg = ctx.model(ctx.spec("graph", "TaskSpecTrace.tla"), {})
    rej = ctx.tlc_validate(spec, [record_of("r0", fam, case["g"], obs)], cfg, **TLC_OPTS)
    for x, o, v in zip(case["g"], obs, case["val"]):
        print("key", H.to_py(x["k"]), "expr", x["e"], "\n   expected", v, "\n   observed", o)
    print("TLC verdict:", rej or "accepted")
    return bool(rej)


# ---------------------------------------------------------------- binding self-test
def _mini_cases():
    A, X, F5, OUT = _v("a"), _v(("x", 0)), _v(5), _v("out")
    at = lambda v: {"e": "atom", "a": v}
    rf = lambda v: {"e": "ref", "k": v}
    call = lambda f, *xs, **kw: {"e": "call", "f": f, "xs": list(xs), "kw": [[k, v] for k, v in sorted(kw.items())]}
    out = []
    base_l = [{"k": A, "e": call("fa")}, {"k": X, "e": call("fx", at(A))}, {"k": F5, "e": call("f5")}]
    base_t = [{"k": A, "e": call("fa")}, {"k": X, "e": call("fx", rf(A))}, {"k": F5, "e": call("f5")}]
    for x in [call("c1", at(A), at(X)), call("c1", {"e": "list", "xs": [at(X), at(_v(1))]}, at(F5)),
              call("c1", call("c2", at(X)), {"e": "quote", "v": A}), {"e": "list", "xs": [at(A), call("c1", at(X))]},
              call("c1", at(_v(("x", 9))), at(_v("zz"))),
              call("c1", {"e": "dict", "ks": ["p", "q"], "xs": [at(A), {"e": "list", "xs": [at(X)]}]}),
              {"e": "list", "xs": [{"e": "dict", "ks": ["p"], "xs": [call("c2", at(F5))]}]}]:
        out.append(("legacy", base_l + [{"k": OUT, "e": x}]))
    for x in [call("c1", rf(A), rf(X)), call("c1", rf(X), p=rf(A)), call("c1", {"e": "list", "xs": [rf(X), rf(A)]}),
              call("c1", {"e": "dict", "ks": ["p", "q"], "xs": [rf(A), rf(X)]}), call("c1", {"e": "tuple", "xs": [rf(F5), {"e": "quote", "v": A}]}),
              call("c1", {"e": "set", "xs": [rf(A), rf(X)]}, q=call("c2", rf(F5)))]:
        out.append(("ts", base_t + [{"k": OUT, "e": x}]))
    cases = []
    for fam, gs in out:
        vals, refs = spec_eval(gs)
        cases.append((fam, {"g": gs, "val": vals, "refs": refs}))
    return cases


def _mini_run(ctx):
    found = []
    for n, (fam, case) in enumerate(_mini_cases()):
        obs = observe(fam, case["g"], case["val"], n)
        br = judge(case, obs)
        if br and classify(fam, case["g"], br) not in ctx.known:
            found.append((fam, case, obs, br))
    return found


def selftest(ctx):
    import dask._task_spec as ts
    import dask.core
    from ..srcmutant import mutant
    ok = True
    base = _mini_run(ctx)
    print("selftest C08: unmutated tree on the mini case set: %s" % ("clean" if not base else "violations %r" % [classify(f, c["g"], b) for f, c, _o, b in base]))
    ok &= not base
    mutants = [
        ("convert_legacy_task: tuple keys are no longer recognised as references", ts, "convert_legacy_task",
         "if isinstance(task, (int, float, str, tuple)):", "if isinstance(task, (int, float, str)):"),
        ("Task.__call__: keyword arguments are passed unevaluated", ts, "Task.__call__",
         "kwargs = {k: _eval(kw) for k, kw in self.kwargs.items()}", "kwargs = dict(self.kwargs)"),
        ("Task.__init__: dependencies of keyword arguments are not collected", ts, "Task.__init__",
         "for a in itertools.chain(args, kwargs.values()):", "for a in args:"),
        ("NestedContainer.__setstate__: constructor not restored after unpickling", ts, "NestedContainer.__setstate__",
         'self.kwargs["constructor"] = self.__class__.constructor', "pass"),
        ("execute_graph: results are released although they were requested", ts, "execute_graph",
         "if refcount[dep] == 0 and keys and dep not in keys:", "if refcount[dep] == 0 and keys:"),
        ("keys_in_tasks: walks the keys of a dict argument instead of its values", dask.core, "keys_in_tasks",
         "work.extend(w.values())", "work.extend(w)"),
        ("keys_in_tasks: does not look inside lists", dask.core, "keys_in_tasks",
         "            elif typ is list:\n                work.extend(w)\n", ""),
        ("convert_legacy_task: integer keys are no longer recognised as references", ts, "convert_legacy_task",
         "if isinstance(task, (int, float, str, tuple)):", "if isinstance(task, (float, str, tuple)):"),
        ("Task.__call__: nested nodes are evaluated on all values instead of their own dependencies, TaskRef not resolved", ts,
         "Task.__call__", "return values[a.key]", "return a.key"),
    ]
    for title, mod, name, old, new in mutants:
        with mutant(mod, name, old, new):
            found = _mini_run(ctx)
        sigs = sorted({classify(f, c["g"], b) for f, c, _o, b in found})[:3]
        print("selftest C08 mutant [%s]: %s (%d violating graphs; e.g. %s)" % (title, "DETECTED" if found else "MISSED", len(found), sigs))
        ok &= bool(found)
    # trace spec: genuine records accepted, corrupted ones rejected
    good, bad = [], []
    for n, (fam, case) in enumerate(_mini_cases()):
        obs = observe(fam, case["g"], case["val"], n)
        if judge(case, obs):
            continue
        good.append((fam, case, obs))
        o2 = [dict(o) for o in obs]
        o2[-1]["deps"] = o2[-1]["deps"][1:] if o2[-1]["deps"] else [{"t": "str", "s": "a"}]
        bad.append(("dropped dependency", fam, case, o2))
        o3 = [dict(o) for o in obs]
        o3[-1]["pcall"] = {"t": "app", "f": "c1", "a": []}
        bad.append(("corrupted pickled value", fam, case, o3))
        o4 = [dict(o) for o in obs]
        o4[1]["get"] = o4[0]["get"]
        bad.append(("value of another key", fam, case, o4))
    spec, cfg = ctx.model(ctx.spec("graph", "TaskSpecTrace.tla"), {})
    recs = [record_of("g%d" % i, f, c["g"], o) for i, (f, c, o) in enumerate(good)] + \
           [record_of("b%d" % i, f, c["g"], o) for i, (_w, f, c, o) in enumerate(bad)]
    rej = ctx.tlc_validate(spec, recs, cfg, **TLC_OPTS)
    good_rej = [r for r in rej if r.startswith("g")]
    bad_acc = [bad[i][0] for i in range(len(bad)) if "b%d" % i not in rej]
    print("selftest C08 trace spec: %d genuine records accepted (%d rejected), %d corrupted records rejected (%d accepted %s)"
          % (len(good) - len(good_rej), len(good_rej), len(bad) - len(bad_acc), len(bad_acc), bad_acc[:3]))
    ok &= not good_rej and not bad_acc and len(good) >= 5
    print("selftest C08: %s" % ("PASS" if ok else "FAIL"))
    return 0 if ok else 1
