"""C41 - known divisions always describe the partitions truthfully.

The invariant (specs/frame/Divisions.tla, TruthBad): whenever a collection reports known divisions,
npartitions = len(divisions) - 1 = number of partitions computed, divisions are sorted, every label of
partition i lies in [d_i, d_i+1) (closed for the last) and the partitions are in index order.  It is a
predicate on OBSERVATIONS {declared npartitions, divisions, labels of every partition computed through
its own key}; TLC evaluates it on the recorded observation of every program run on real dask.

spec -> code: TLC enumerates the programs (specs/frame/TruthMC.tla and the n / d / fp families of
DivisionsMC.tla): from_pandas over every sorted label sequence <= 7 over 4 values (duplicates at every
boundary) and unsorted ones, set_index (quantile divisions, user divisions, sorted=True), repartition
(npartitions / divisions), loc slices with every pair of bounds (and partitions of such slices), repartition of selected partitions, filters, index-aligned binary ops and
concat of two collections - on sources with every partitioning incl. empty partitions and every
truthful division vector.  code -> spec: seeded larger frames over int/float/str/datetime indexes and
seeded pipelines of several such steps, every intermediate recorded."""
from __future__ import annotations

import json

from ..core import MachineryError
from ..divisions import KINDS, Verdicts, dd, frame_of, guarded, label_of, observe_as_ranks, parallel_tlc_cases, parts_collection, source_of
from ..frameobs import NA
from ..par import pmap
from . import C44

META = {
    "title": "Known divisions always describe the partitions truthfully",
    "design_ref": "DESIGN.md §4.4 C41",
    "technique": "TLA+ invariant on observations of partitioned frames (divisions contract of Frames.tla); TLC enumerates "
                 "constructor / slicing / alignment programs over all small sources and partitionings; every program is run on "
                 "dask, every partition computed separately, and TLC evaluates the invariant on each recorded observation",
    "level_text": "Small-scope: TLC-enumerated programs - from_pandas (every sorted label sequence <= 7 over 4 values, unsorted ones, "
                  "npartitions/chunksize, sort), set_index (quantile / user divisions / sorted=True), repartition (npartitions 1..6, "
                  "every division vector over the label range +-1), loc[a:b] for every bound pair, filters, aligned binary ops and "
                  "concat of two collections, on sources with every partitioning (empty partitions included) and every truthful "
                  "division vector; a seeded sample is replayed on dask (plus seeded larger frames with float/str/datetime indexes "
                  "and multi-step pipelines), each partition is computed through its own key and TLC decides the invariant "
                  "(npartitions = len(divisions)-1 = partitions computed, divisions sorted, labels in range, partitions in order) "
                  "on every observation.",
    "level_note": "Trusted: TLC, harness.frames.from_parts to build sources, the label->integer projection. An operation that raises "
                  "or yields unknown divisions is not judged (C41 only speaks about reported known divisions). Sampled on the dask "
                  "side; merges/groupby/shuffles other than set_index are left to the operator checks that record the same "
                  "observations.",
}

CLAUSES = ["NPartitions", "DivsSorted", "InRange", "InOrder"]
JUDGED = ("op", "obs", "tag", "sigkey")     # sigkey: observations are only pooled within one input class


# ----------------------------------------------------------------------------- programs on real dask
def _none(v):
    return None if v == NA else v


def build(case, kind):
    """The dask collection a case denotes (lazily built; may raise)."""
    ddm = dd()
    fam, arg = case["fam"], case["arg"]
    lab = lambda r: label_of(r, kind)      # noqa: E731
    if fam == "setidx":
        import pandas as pd
        from ..frames import split_rows
        idx = case["idx"]
        pdf = pd.DataFrame({"rid": range(len(idx)), "k": list(frame_of(idx, kind).index)})
        src = parts_collection(split_rows(pdf, case["layout"]), key=("setidx", list(idx), list(case["layout"]), kind))
        if arg["k"] == "auto":
            return src.set_index("k") if arg["n"] == 0 else src.set_index("k", npartitions=arg["n"])
        if arg["k"] == "divs":
            return src.set_index("k", divisions=[lab(r) for r in arg["d"]])
        return src.set_index("k", sorted=True)
    src = source_of(case["idx"], case["layout"], case["sdivs"], kind)
    if fam in ("loc", "locparts"):
        a, b = _none(arg["a"]), _none(arg["b"])
        y = src.loc[(lab(a) if a is not None else None):(lab(b) if b is not None else None)]
        p = arg.get("p", "all")
        return y if p == "all" else y.partitions[0] if p == "first" else y.partitions[-1] if p == "last" else y.partitions[1:]
    if fam == "loclist":
        return src.loc[[lab(r) for r in arg["labels"]]]
    if fam == "partsrep":
        return src.partitions[arg["lo"]:].repartition(npartitions=arg["n"])
    if fam == "filter":
        k = arg["k"]
        return src[{"even": src.rid % 2 == 0, "odd": src.rid % 2 == 1, "none": src.rid < 0, "all": src.rid >= 0}[k]]
    src2 = source_of(case["idx2"], case["layout2"], case["sdivs2"], kind)
    if fam == "binop":
        return (src.rid + src2.rid) if arg["k"] == "series" else (src + src2)
    if fam == "concat":
        if arg["k"] == "columns":
            return ddm.concat([src, src2.rename(columns={"rid": "rid2"})], axis=1)
        return ddm.concat([src, src2], interleave_partitions=(arg["k"] == "interleave"))
    raise MachineryError("unknown family %r" % fam)


def known_ranks(case):
    ks = set(case["idx"]) | set(case.get("sdivs", [])) | set(case.get("idx2", [])) | set(case.get("sdivs2", []))
    arg = case["arg"]
    ks |= set(arg.get("d", [])) | set(arg.get("labels", []))
    for f in ("a", "b"):
        if f in arg and arg[f] != NA:
            ks.add(arg[f])
    return sorted(ks)


def apply_case(case, kind):
    """-> record {op: truth, obs, case, kind} or {"skip": ..}."""
    if case["fam"] in ("n", "nd", "d", "fp", "size"):
        rec = C44.apply_case(case, kind)
        if "skip" in rec:
            return rec
        return {"op": "truth", "obs": rec["obs"], "case": case, "kind": rec["kind"], "fam": case["fam"],
                "srclayout": rec.get("layout"), "srcdivs": rec.get("sdivs")}
    res = guarded(lambda: observe_as_ranks(build(case, kind), kind, known_ranks(case), whole_too=False))
    if isinstance(res, dict):
        if "skip" in res:
            return res
        obs = res
        obs.pop("msg", None)
    else:
        obs = res[0]
    return {"op": "truth", "obs": obs, "case": case, "kind": kind, "fam": case["fam"]}


def step(x, st, kind):
    k = st["k"]
    if k == "loc":
        a, b = _none(st["a"]), _none(st["b"])
        return x.loc[(label_of(a, kind) if a is not None else None):(label_of(b, kind) if b is not None else None)]
    if k == "filter":
        return x[x.rid % st["m"] != 0]
    if k == "repart_n":               # to fewer / as many partitions (growing the count is the family "n")
        return x.repartition(npartitions=max(1, min(st["n"], x.npartitions)))
    if k == "partitions":
        return x.partitions[min(st["lo"], x.npartitions - 1):]
    if k == "map":
        return x.map_partitions(lambda df: df)
    if k == "add":
        y = x + x
        return y.assign(rid=y.rid // 2)
    raise MachineryError("unknown step %r" % (st,))


def pipeline(case, kind):
    """code -> spec: a seeded two-step program; both the intermediate and the final collection are observed."""
    steps = case["steps"]

    def go():
        x = source_of(case["idx"], case["layout"], case["sdivs"], kind)
        ranks = set(case["idx"]) | set(case["sdivs"])
        for st in steps:
            ranks |= {st[f] for f in ("a", "b") if f in st and st[f] != NA}
        out = []
        for st in steps:
            x = step(x, st, kind)
            out.append(observe_as_ranks(x, kind, sorted(ranks), whole_too=False)[0])
        return out
    res = guarded(go)
    if isinstance(res, dict):
        if "skip" in res:
            return []
        return [{"op": "truth", "obs": {k: v for k, v in res.items() if k != "msg"}, "case": dict(case, upto=len(steps)), "kind": kind, "fam": "pipeline"}]
    return [{"op": "truth", "obs": o, "case": dict(case, upto=i + 1), "kind": kind, "fam": "pipeline"} for i, o in enumerate(res)]


def _work(item):
    case, kind = item
    if case["fam"] == "pipeline":
        return pipeline(case, kind)
    return [apply_case(case, kind)]


# ----------------------------------------------------------------------------- classification
def classify(rec, clauses):
    """Program family + the request class that selects the code path + failing clause group."""
    case = rec["case"]
    fam = case["fam"]
    group = "count" if clauses == ["NPartitions"] else "placement"
    if fam in ("n", "nd", "d", "fp", "size"):
        fake = {"case": case, "arg": case["arg"], "op": "from_pandas" if fam == "fp" else "repart", "kind": rec["kind"]}
        if fam == "nd" and rec.get("srclayout") is not None:
            fake.update(layout=rec["srclayout"], sdivs=rec["srcdivs"])
        base = C44.classify(fake, ["Meta"] if group == "count" else ["Truthful"])
        return base.rsplit(":", 1)[0] + ":" + group
    arg = case.get("arg", {})
    if fam == "setidx":
        return "set_index:%s:%s" % (arg["k"], group)
    if fam in ("loc", "locparts"):
        rel = "reversed" if (arg["a"] != NA and arg["b"] != NA and arg["a"] > arg["b"]) else "ordered"
        if arg.get("p", "all") != "all":
            return "loc:%s:then-partitions" % rel          # Partitions applied to a loc slice (one code path, one signature)
        return "loc:%s:%s" % (rel, group)
    if fam == "loclist":
        ls = list(arg["labels"])
        return "loclist:%s:%s" % ("ascending" if ls == sorted(ls) else "unordered", group)
    if fam == "partsrep":                 # the same program shape as the two-step pipeline
        return "pipeline:partitions->repart_n:%s" % group
    if fam in ("filter", "binop", "concat"):
        return "%s:%s:%s" % (fam, arg["k"], group)
    steps = case["steps"][:case.get("upto", 99)]
    if [s["k"] for s in steps] == ["loc", "partitions"]:      # the same program as the family "locparts"
        return "loc:ordered:then-partitions"
    return "pipeline:%s:%s" % ("->".join(s["k"] for s in steps), group)


# ----------------------------------------------------------------------------- cases
def B(rows, labels, parts, maxn, maxd, urows):
    return dict(rows=rows, labels=labels, parts=parts, maxn=maxn, maxd=maxd, urows=urows)


def bounds(ctx):
    if ctx.quick:
        truth = {"loc": B(2, 3, 2, 0, 0, 0), "loclist": B(3, 3, 2, 3, 0, 0), "locparts": B(2, 2, 3, 0, 0, 0), "partsrep": B(3, 3, 3, 0, 0, 0), "filter": B(3, 3, 2, 0, 0, 0),
                 "setidx": B(3, 3, 2, 3, 2, 3), "binop": B(2, 2, 2, 0, 1, 2), "concat": B(2, 2, 2, 0, 1, 2)}
        div = {"n": B(3, 3, 3, 5, 2, 0), "nd": B(2, 2, 2, 3, 2, 0), "d": B(2, 2, 2, 3, 2, 0), "fp": B(7, 4, 1, 3, 2, 3)}
    else:
        truth = {"loc": B(4, 3, 3, 0, 0, 0), "loclist": B(4, 4, 3, 4, 0, 0), "locparts": B(3, 3, 3, 0, 0, 0), "partsrep": B(4, 3, 3, 0, 0, 0), "filter": B(4, 3, 3, 0, 0, 0), "setidx": B(4, 3, 3, 4, 2, 4),
                 "binop": B(3, 2, 2, 0, 2, 2), "concat": B(3, 2, 2, 0, 2, 2)}
        div = {"n": B(5, 3, 3, 6, 2, 0), "nd": B(3, 3, 2, 4, 2, 0), "d": B(3, 3, 2, 3, 2, 0), "fp": B(7, 4, 1, 8, 2, 5)}
    return truth, div


def enumerate_cases(ctx, truth, div, label="design+cases"):
    """Four TLC runs side by side (TLC generates initial states on one thread): the program families of TruthMC in
    three balanced groups, the repartition / from_pandas families of DivisionsMC in one."""
    groups = [[f for f in ("loc", "loclist", "filter") if f in truth], [f for f in ("locparts", "partsrep") if f in truth],
              [f for f in ("setidx", "binop", "concat") if f in truth]]
    jobs = []
    for g in groups:
        if g:
            spec, cfg = ctx.model(ctx.spec("frame", "TruthMC.tla"), {"Fams": set(g), "Bounds": {f: truth[f] for f in g}},
                                  init="TInit", invariants=["SourcesTruthful", "TruthBites", "SetIdxOK"])
            jobs.append(("+".join(g), spec, cfg))
    if div:
        spec, cfg = ctx.model(ctx.spec("frame", "DivisionsMC.tla"), {"Fams": set(div), "Bounds": div},
                              invariants=["SourcesOK", "RefMeetsContract"])
        jobs.append(("+".join(sorted(div)), spec, cfg))
    return [c["c"] for cases in parallel_tlc_cases(ctx, [("%s:%s" % (label, name), spec, cfg) for name, spec, cfg in jobs]) for c in cases]


def random_cases(rng, n):
    """Larger frames: one-step programs of every family plus multi-step pipelines."""
    out = []
    while len(out) < n:
        rows = rng.randint(4, 20)
        nl = rng.randint(1, 8)
        idx = sorted(rng.randrange(nl) for _ in range(rows))
        layout = C44.weak_comp(rng, rows, rng.randint(1, 5))
        sdivs = C44.truthful_divs(rng, idx, layout)
        fam = rng.choice(["loc", "loclist", "loclist", "filter", "setidx", "binop", "concat", "pipeline", "pipeline", "n", "d", "fp"])
        if fam in ("n", "d", "fp"):
            c = C44.random_cases(rng, 1)[0]
            if c["fam"] in ("n", "nd", "d", "fp"):
                out.append(c)
            continue
        if fam == "setidx":
            col = idx[:]
            k = rng.choice(["auto", "auto", "divs", "sorted"])
            if k != "sorted":
                rng.shuffle(col)
            arg = {"k": "auto", "n": rng.randint(0, 5)} if k == "auto" else {"k": "sorted"} if k == "sorted" else None
            if arg is None:
                lo, hi = min(col) - rng.randint(0, 1), max(col) + rng.randint(0, 1)
                inner = sorted(set(rng.randint(lo, hi) for _ in range(rng.randint(0, 4))) - {lo})
                d = [lo] + inner + ([hi] if (not inner or inner[-1] < hi or rng.random() < 0.5) else [])
                if len(d) < 2:
                    d.append(hi)
                arg = {"k": "divs", "d": d}
            out.append({"fam": "setidx", "idx": col, "layout": layout, "arg": arg})
            continue
        if sdivs is None:
            continue
        base = {"idx": idx, "layout": layout, "sdivs": sdivs}
        pick = lambda: rng.choice([NA] + list(range(sdivs[0] - 1, sdivs[-1] + 2)))      # noqa: E731
        if fam == "loc":
            out.append(dict(base, fam="loc", arg={"a": pick(), "b": pick()}))
        elif fam == "loclist":
            out.append(dict(base, fam="loclist", arg={"labels": [rng.choice(idx) for _ in range(rng.randint(1, 6))]}))
        elif fam == "filter":
            out.append(dict(base, fam="filter", arg={"k": rng.choice(["even", "odd", "none", "all"])}))
        elif fam in ("binop", "concat"):
            rows2 = rng.randint(1, 12)
            idx2 = sorted(rng.randrange(nl + 2) for _ in range(rows2))
            if fam == "concat" and rng.random() < 0.5:
                idx2 = [v + idx[-1] + 1 for v in idx2]          # disjoint, later range: plain concat keeps divisions
            layout2 = C44.weak_comp(rng, rows2, rng.randint(1, 4))
            sdivs2 = C44.truthful_divs(rng, idx2, layout2)
            if sdivs2 is None:
                continue
            k = rng.choice(["series", "frame"]) if fam == "binop" else rng.choice(["rows", "interleave", "columns"])
            out.append(dict(base, fam=fam, idx2=idx2, layout2=layout2, sdivs2=sdivs2, arg={"k": k}))
        else:
            steps = []
            for _ in range(2):
                k = rng.choice(["loc", "filter", "repart_n", "partitions", "map", "add"])
                a, b = sorted([pick(), pick()], key=lambda v: (v != NA, v))     # ordered bounds (NA = open first)
                if a == NA and rng.random() < 0.5:
                    a, b = b, NA
                steps.append({"loc": {"k": "loc", "a": a, "b": b}, "filter": {"k": "filter", "m": rng.randint(2, 3)},
                              "repart_n": {"k": "repart_n", "n": rng.randint(1, 4)}, "partitions": {"k": "partitions", "lo": rng.randint(0, 2)},
                              "map": {"k": "map"}, "add": {"k": "add"}}[k])
            out.append(dict(base, fam="pipeline", steps=steps))
    return out


# ----------------------------------------------------------------------------- run
def check_cases(ctx, items, label, tag=""):
    recs, skips = [], []
    for rl in pmap(_work, items, chunk=16):
        for r in rl:
            if "skip" in r:
                skips.append(r["skip"])
            else:
                recs.append(dict(r, tag=tag, sigkey=classify(r, ["InRange"])))
    pool = Verdicts(JUDGED, CLAUSES)
    pool.add(recs)
    return pool.decide(ctx, label), recs, skips


def judged(rec):
    return rec["obs"]["raised"] == "" and bool(rec["obs"]["divs"])


def _scratch_tmp(ctx):
    """set_index shuffles through disk (partd) on the synchronous scheduler: keep its temporary directories inside the
    run's scratch directory (removed afterwards) instead of littering /tmp.  Set before any fork."""
    import dask
    dd()
    dask.config.set({"temporary-directory": ctx.scratch})


def run(ctx):
    _scratch_tmp(ctx)
    rng = ctx.rng
    truth, div = bounds(ctx)
    cases = enumerate_cases(ctx, truth, div)
    ctx.extra["cases_enumerated_by_tlc"] = len(cases)
    byfam = {}
    for c in cases:
        byfam.setdefault(c["fam"], []).append(c)
    quota = ctx.pick({"fp": 600, "setidx": 450, "loc": 400, "loclist": 500, "nd": 300, "locparts": 350, "partsrep": 220, "filter": 180, "binop": 260, "concat": 260, "n": 400, "d": 180},
                     {"fp": 9000, "setidx": 6000, "loc": 6000, "loclist": 5000, "nd": 3000, "locparts": 4000, "partsrep": 2500, "filter": 2500, "binop": 3500, "concat": 3500, "n": 5000, "d": 2500})
    items = []
    for fam in sorted(byfam):
        pool = byfam[fam]
        if fam == "fp":       # divisions only become known with sort=True or a sorted input
            pool = [c for c in pool if c["arg"]["sort"] or list(c["idx"]) == sorted(c["idx"])]
        pick = rng.sample(pool, min(len(pool), quota[fam]))
        ctx.extra["replayed_%s" % fam] = "%d of %d" % (len(pick), len(byfam[fam]))
        items += [(c, "int") for c in pick]
    items += [(c, rng.choice(KINDS)) for c in random_cases(rng, ctx.pick(400, 6000))]
    bad, recs, skips = check_cases(ctx, items, "invariant:recorded-observations")
    for s in skips:
        ctx.skip(s)
    if len(skips) > len(items) // 2:
        raise MachineryError("more than half of the cases were skipped: %r" % sorted(set(skips))[:3])
    notjudged = 0
    for r in recs:
        if judged(r):
            ctx.count((r["kind"], r["case"]), sum(len(p) for p in r["obs"]["parts"]) >= 2)
        else:
            notjudged += 1
            ctx.count(None, False)
    ctx.extra["observations_without_known_divisions_or_raised"] = notjudged
    ctx.extra["raised_by_family"] = _raised_summary(recs)
    first_bad = {}          # two-step programs: blame the first step whose observation is rejected
    for rec, clauses, mult in bad:
        if rec["fam"] == "pipeline":
            key = (rec["kind"], json.dumps({k: v for k, v in rec["case"].items() if k != "upto"}, sort_keys=True))
            first_bad[key] = min(first_bad.get(key, 99), rec["case"]["upto"])
    for rec, clauses, mult in bad:
        if rec["fam"] == "pipeline":
            key = (rec["kind"], json.dumps({k: v for k, v in rec["case"].items() if k != "upto"}, sort_keys=True))
            if rec["case"]["upto"] > first_bad[key]:
                continue
        for _ in range(mult):
            o = rec["obs"]
            ctx.violation(classify(rec, clauses), "clauses %s fail: npartitions=%s divisions=%s labels per partition=%s"
                          % (clauses, o["nparts"], o["divs"], [[r["idx"] for r in p] for p in o["parts"]]),
                          {"case": rec["case"], "kind": rec["kind"], "clauses": clauses, "observed": o})
    for fam in ("fp", "setidx", "locparts", "concat"):
        ex = next((r for r in recs if r["fam"] == fam and judged(r) and len(r["obs"]["parts"]) > 1), None)
        if ex:
            ctx.sample({"case": ex["case"], "observed_divisions": ex["obs"]["divs"],
                        "labels_per_partition": [[r["idx"] for r in p] for p in ex["obs"]["parts"]]})
    ctx.exhaustive = False
    ctx.rule = ("cases = TLC-enumerated programs (family, source labels, partitioning, declared divisions, request) - a seeded sample "
                "per family - plus seeded larger frames over four index dtypes and multi-step pipelines (every intermediate is one "
                "observation); counted = observations that report known divisions; non-trivial = at least two rows observed; "
                "distinct by (program, index dtype)")
    ctx.assumptions = ["TLC evaluates the invariant correctly", "from_parts builds exactly the given partitions and declared divisions",
                       "the label -> integer projection preserves order and equality"]


def _raised_summary(recs):
    out = {}
    for r in recs:
        if r["obs"]["raised"]:
            k = "%s:%s" % (r["fam"], r["obs"]["raised"])
            out[k] = out.get(k, 0) + 1
    return out


# ----------------------------------------------------------------------------- replay
def replay(ctx, obj):
    _scratch_tmp(ctx)
    c = obj["case"]
    bad, recs, skips = check_cases(ctx, [(c["case"], c.get("kind", "int"))], "replay")
    want = c["case"].get("upto")
    for i, r in enumerate(recs):
        if want is None or r["case"].get("upto") == want:
            print("case:", r["case"], "kind:", r["kind"], "\nobserved:", r["obs"])
    hits = [cl for rec, cl, _ in bad if want is None or rec["case"].get("upto") == want]
    print("skipped:", skips, "rejected clauses:", hits)
    return bool(hits)


# ----------------------------------------------------------------------------- selftest
def selftest(ctx):
    """ONE TLC run: a small program set on the unmutated code and under each in-memory mutant, plus corrupted
    copies of a genuine observation."""
    from ..divisions import mutate, patched_attr as patched
    _scratch_tmp(ctx)
    import dask.dataframe.dask_expr._indexing as ix
    import dask.dataframe.io.io as ioio
    import dask.dataframe.dask_expr.io.io as exio
    import dask.dataframe.methods as methods
    rng = ctx.rng
    items = [(c, "int") for c in random_cases(rng, 160) if c["fam"] != "pipeline"]
    for idx in ([0, 0, 1, 1, 2, 3], [0, 1, 1, 1, 2], [1, 1, 1], [0, 1, 2, 3, 3, 3]):
        for mode, v in (("n", 2), ("n", 3), ("c", 2), ("c", 3)):
            items.append(({"fam": "fp", "idx": idx, "arg": {"k": "fp", "mode": mode, "v": v, "sort": True}}, "int"))
        for a in (NA, 0, 1, 2):
            for b in (NA, 1, 2, 3):
                items.append(({"fam": "loc", "idx": idx, "layout": [2, len(idx) - 2], "sdivs": [idx[0], idx[2], idx[-1]] if idx[1] < idx[2] else [],
                               "arg": {"a": a, "b": b}}, "int"))
    items = [(c, k) for c, k in items if c["fam"] != "loc" or c["sdivs"]]
    tagged = []

    def collect(tag):
        for rl in pmap(_work, items, chunk=16):
            tagged.extend(dict(r, tag=tag, sigkey=classify(r, ["InRange"])) for r in rl if "skip" not in r)

    collect("baseline")
    sdl = ioio.sorted_division_locations
    m_sdl = mutate(sdl, "pos = int(offsets[ind])", "pos = i")
    mutants = [
        ("sorted_division_locations: duplicated label not moved to its first occurrence (pos = i)", [ioio, exio], "sorted_division_locations", m_sdl),
        ("boundary_slice: right-open slice keeps one row too many (iloc[:right_index + 1])", [methods], "boundary_slice",
         mutate(methods.boundary_slice, "result = result.iloc[:right_index]", "result = result.iloc[: right_index + 1]")),
        ("LocSlice._layer: lower bound not applied to the first partition (slice(start, None) -> slice(None, None))", [ix.LocSlice], "_layer",
         mutate(vars(ix.LocSlice)["_layer"], "slice(self.iindexer.start, None),", "slice(None, None),")),
    ]
    for name, targets, attr, mut in mutants:
        with patched(targets, attr, mut):
            collect(name)
    good = apply_case({"fam": "fp", "idx": [0, 0, 1, 2, 3, 3], "arg": {"k": "fp", "mode": "n", "v": 3, "sort": True}}, "int")
    o = good["obs"]
    variants = {
        "genuine": good,
        "first and last partition swapped": dict(good, obs=dict(o, parts=[o["parts"][-1]] + o["parts"][1:-1] + [o["parts"][0]])),
        "a division dropped": dict(good, obs=dict(o, divs=o["divs"][:-1], ndivs=o["ndivs"] - 1)),
        "boundary row recorded in the previous partition": dict(good, obs=dict(o, parts=[o["parts"][0] + o["parts"][1][:1], o["parts"][1][1:]] + o["parts"][2:])),
        "divisions reversed": dict(good, obs=dict(o, divs=o["divs"][::-1])),
    }
    tagged += [dict(rec, tag="record:" + name, sigkey="") for name, rec in variants.items()]
    pool = Verdicts(JUDGED, CLAUSES)
    pool.add(tagged)
    bytag = {}
    for rec, clauses, mult in pool.decide(ctx, "selftest"):
        key = str(clauses) if rec["tag"].startswith("record:") else classify(rec, clauses)
        if key in ctx.known:
            continue
        bytag.setdefault(rec["tag"], {})
        bytag[rec["tag"]][key] = bytag[rec["tag"]].get(key, 0) + mult
    ok = True
    base = bytag.get("baseline", {})
    print("selftest C41 baseline (unmutated code, %d programs): violations outside known findings %s -> %s"
          % (len(items), base, "ok" if not base else "UNEXPECTED"))
    ok &= not base
    for name, _t, _a, _m in mutants:
        got = {k: v for k, v in bytag.get(name, {}).items() if k not in base}
        print("selftest C41 mutant [%s]: violations %s -> %s" % (name, got, "DETECTED" if got else "MISSED"))
        ok &= bool(got)
    acc = "record:genuine" not in bytag
    print("selftest C41 trace: genuine observation accepted -> %s" % ("ok" if acc else "UNEXPECTED %s" % bytag.get("record:genuine")))
    ok &= acc
    for name in list(variants)[1:]:
        got = bytag.get("record:" + name)
        print("selftest C41 corrupted observation [%s]: %s" % (name, "REJECTED %s" % list(got) if got else "ACCEPTED (missed)"))
        ok &= bool(got)
    print("selftest C41: %s" % ("all binding demonstrations hold" if ok else "FAILED"))
    return 0 if ok else 1
